"""C16 — connected components are exactly the classes of mutually reachable nodes."""
import contextlib
import itertools
import numpy as np
from common import *

ID = 'C16'
COQ_FILES = ['Base/Mat.v', 'Base/ListX.v', 'Model/Components.v', 'Proofs/Components.v', 'Proofs/ComponentsDistance.v',
             'Proofs/ComponentsDistanceFull.v', 'Properties/C16.v']
THEOREMS = ['C16_fold_invariant', 'C16_components_iff_path', 'C16_labels_1_to_m', 'C16_sizes_are_counts',
            'C16_isolated_singletons', 'C16_asym_rejected', 'C16_number_of_components_def',
            'C16_number_is_class_count', 'C16_agrees_with_distance_bin', 'C16_agrees_with_reachdist',
            'C16_agrees_with_breadthdist', 'C16_reach_breadth_diag']
RULE = ('every labelled undirected graph on n<=5 nodes (n<=6 thorough) + the empty 0x0 matrix + random structured graphs '
        'n=1..14 (one in eight: n=15..40, so that more than 14 components / labels occur): forests, '
        'stars with the hub numbered first/last, matchings joined by late connector edges, interleaved cliques, '
        'paths/caterpillars/binary trees under random and reversed numberings, Erdos-Renyi at several densities, '
        'empty and complete graphs, disjoint even cycles / K_{2,3} blocks, grids; each as binary / signed integer weights / '
        '+-1, +-{1,2}, +-1/2 weights (walk products that cancel) / dyadic float weights, with zero / random / '
        'all-ones diagonals and float/int/bool dtypes; plus a malformed stream for the rejection clause: directed graphs, '
        'one flipped entry, unequal mirrored weights, +w/-w sign asymmetry (float, int and bool dtype), and NOISE-LEVEL '
        'asymmetries of one mirrored pair (absolute 2^-40, 1e-9; relative 1e-7, one ulp) that np.allclose would accept but the '
        'code (and the property) rejects; plus a signed stream (+-1 weights on even cycles, grids, ER, complete graphs, the 4-cycle +,+,+,-) and '
        'chains of 40..70 nodes with weights 1e-6 / 2^-30 (products underflow) for the agreement-with-distance clause; plus six '
        '(thorough: forty) sparse networks on n = 258..300 nodes with SEVERAL isolated nodes numbered 257 and up and connected ones up there too '
        '(short paths / stars below 250 and nothing above; sparse forest over half the nodes; Erdos-Renyi of mean degree 1.2 with a third left '
        'out; matched pairs from 250 up + a few 4-cliques), binary / dyadic / +-1 weights, float / int / bool, judged by the BFS oracle only '
        '(all get_components / number_of_components clauses; the three distance agreements on every second one). non-trivial = at least one off-diagonal connection '
        '(at least one merge of two blocks happens); distinct by hash of the matrix')
ASSUMES = ['weights enter the code only through `A == A.T` and `!= 0`, so the model carries them as integers '
           '(every generated float is a dyadic rational; the whole matrix is multiplied by the common power-of-two denominator, '
           'which preserves equality and non-zeroness exactly, before it is handed to the model)',
           'a python set is modelled as a duplicate-free list: the code only uses isdisjoint/union/in/len on them, '
           'so the (unspecified) iteration order of a set cannot influence the result; labels are therefore compared EXACTLY',
           'NaN / inf entries are outside the domain (the code rejects a symmetric matrix containing NaN since NaN != NaN); not generated',
           'get_components_old (exported, not named by the property text nor by its anchors) is not covered: in this environment it raises '
           'TypeError on every non-empty input (np.zeros(np.max(cptvec)) with a float size), with and without networkx; the run records that '
           'under distribution key get_components_old:* without judging it']
TRUSTED = ['C16_agrees_with_distance_bin / _reachdist / _breadthdist / C16_reach_breadth_diag compose the C16 theorems with property C03\'s '
           'theorems about the MODELS of distance_bin, reachdist and breadthdist (Model/Distance.v; Proofs/DistanceBin.v, DistanceFull.v, '
           'DistanceBFS.v, DistanceAgree.v are only Required): totality + exact correctness. That those models are the code is C03\'s '
           'correspondence; in addition the agreement of all three routines with the components is checked directly on the implementation here']


# ---------------------------------------------------------------- independent oracle
def bfs_classes(A):
    """class index per node by breadth-first search on the nonzero off-diagonal pattern (either direction)"""
    n = len(A)
    nb = [[v for v in range(n) if v != u and (A[u][v] != 0 or A[v][u] != 0)] for u in range(n)]
    cls = [-1] * n
    c = 0
    for s in range(n):
        if cls[s] >= 0:
            continue
        cls[s] = c
        q = [s]
        while q:
            u = q.pop(0)
            for v in nb[u]:
                if cls[v] < 0:
                    cls[v] = c
                    q.append(v)
        c += 1
    return cls, c


# ---------------------------------------------------------------- generators (edge lists on n nodes)
def g_forest(r, n):
    order = list(r.permutation(n))
    p = r.choice([0.5, 0.8, 1.0])
    E = []
    for k in range(1, n):
        if r.rand() < p:
            E.append((order[k], order[int(r.randint(0, k))]))
    return E


def g_star(r, n, hub):
    leaves = [v for v in range(n) if v != hub and r.rand() < 0.8]
    return [(hub, v) for v in leaves]


def g_matching_late(r, n):
    """pairs (i, i+k) are formed in the early rows; connector edges among the high-numbered partners arrive late
    and each has to merge two blocks that already hold several nodes"""
    k = n // 2
    E = [(i, i + k) for i in range(k)]
    hi = list(range(k, 2 * k))
    r.shuffle(hi)
    for a, b in zip(hi, hi[1:]):
        if r.rand() < 0.7:
            E.append((a, b))
    return E


def g_cliques_interleaved(r, n):
    k = int(r.randint(1, 4))
    return [(i, j) for i in range(n) for j in range(i + 1, n) if i % k == j % k and r.rand() < 0.9]


def g_path(r, n):
    return [(i, i + 1) for i in range(n - 1)]


def g_caterpillar(r, n):
    s = max(1, n // 2)
    E = [(i, i + 1) for i in range(s - 1)]
    for v in range(s, n):
        E.append((v, int(r.randint(0, s))))
    return E


def g_bintree(r, n):
    return [(i, (i - 1) // 2) for i in range(1, n)]


def g_er(r, n):
    p = float(r.choice([0.05, 0.1, 0.2, 0.35, 0.6]))
    return [(i, j) for i in range(n) for j in range(i + 1, n) if r.rand() < p]


def g_chains_joined_last(r, n):
    """several chains on the low numbers; the last node touches the end of each chain"""
    if n < 3:
        return []
    k = int(r.randint(1, 4))
    E = []
    ends = []
    body = list(range(n - 1))
    parts = [body[i::k] for i in range(k)]
    for p in parts:
        E += list(zip(p, p[1:]))
        if p:
            ends.append(p[-1] if r.rand() < 0.5 else p[0])
    for e in ends:
        if r.rand() < 0.8:
            E.append((n - 1, e))
    return E


def g_even_cycles(r, n):
    """disjoint 4-/6-cycles and K_{2,m} blocks: with signed weights the two (or m) 2-step walks between opposite nodes
    cancel in a walk-COUNTING product that forgot to binarize (distance_bin's nPATH)"""
    E, v = [], 0
    while v + 4 <= n:
        k = int(r.choice([4, 4, 6, 5]))
        if v + k > n:
            k = 4
        if k == 5:          # K_{2,3}: hubs v, v+1; leaves v+2..v+4
            E += [(v + h, v + l) for h in (0, 1) for l in (2, 3, 4)]
        else:
            E += [(v + i, v + (i + 1) % k) for i in range(k)]
        v += k + int(r.randint(0, 2))
    return E


def g_grid(r, n):
    w = max(2, int(round(n ** 0.5)))
    E = []
    for v in range(n):
        if (v + 1) % w and v + 1 < n and r.rand() < 0.9:
            E.append((v, v + 1))
        if v + w < n and r.rand() < 0.9:
            E.append((v, v + w))
    return E


FAMILIES = [('forest', g_forest), ('star_hub_first', lambda r, n: g_star(r, n, 0)),
            ('star_hub_last', lambda r, n: g_star(r, n, n - 1)), ('matching_late', g_matching_late),
            ('cliques_interleaved', g_cliques_interleaved), ('path', g_path), ('caterpillar', g_caterpillar),
            ('bintree', g_bintree), ('er', g_er), ('chains_joined_last', g_chains_joined_last),
            ('empty', lambda r, n: []), ('complete', lambda r, n: [(i, j) for i in range(n) for j in range(i + 1, n)]),
            ('even_cycles', g_even_cycles), ('grid', g_grid)]


def renumber(r, n, E, how):
    if how == 'id':
        return E
    if how == 'rev':
        return [(n - 1 - a, n - 1 - b) for a, b in E]
    p = list(r.permutation(n))
    return [(int(p[a]), int(p[b])) for a, b in E]


def build(r, n, E, wkind, dkind):
    """matrix as nested lists of Fractions (exactly representable), symmetric"""
    W = [[Fraction(0)] * n for _ in range(n)]
    for a, b in E:
        if a == b:
            continue
        if wkind == 'bin':
            w = Fraction(1)
        elif wkind == 'int':
            w = Fraction(int(r.choice([-3, -2, -1, 1, 2, 3, 4, 5])))
        elif wkind == 'pm1':
            w = Fraction(int(r.choice([-1, 1])))
        elif wkind == 'pm_small':
            w = Fraction(int(r.choice([-2, -1, 1, 2])))
        elif wkind == 'pm_half':
            w = Fraction(int(r.choice([-1, 1])), 2)
        elif wkind == 'tiny':
            w = Fraction(float(r.choice([1e-6, 2.0 ** -30])))
        else:
            w = Fraction(int(r.choice([-12, -3, -1, 1, 2, 4, 5, 18, 21])), 8)
        W[a][b] = W[b][a] = w
    for i in range(n):
        if dkind == 'ones':
            W[i][i] = Fraction(1)
        elif dkind == 'rand' and r.rand() < 0.5:
            W[i][i] = Fraction(int(r.choice([-2, 1, 3, 7])))
    return W


def to_np(W, dtype):
    n = len(W)
    if dtype == 'bool':
        return np.array([[x != 0 for x in row] for row in W], dtype=bool).reshape(n, n)
    if dtype == 'int':
        return np.array([[int(x) for x in row] for row in W], dtype=int).reshape(n, n)
    return np.array([[float(x) for x in row] for row in W], dtype=float).reshape(n, n)


def model_rows(W):
    """integers for the model: the matrix times the common (power-of-two) denominator, at least 8"""
    den = 8
    for row in W:
        for x in row:
            if x.denominator > den:
                den = x.denominator
    return [[int(x * den) for x in row] for row in W]


def enc_zbig(x):
    x = int(x)
    if abs(x) < 2 ** 60:
        return str(x)
    return ('-' if x < 0 else '') + '0b' + bin(abs(x))[2:]


# ---------------------------------------------------------------- BLAS threads (speed only)
_BLAS = None


def _blas():
    """(set_num_threads, get_num_threads) of the OpenBLAS that numpy loaded, or (None, None)"""
    global _BLAS
    if _BLAS is None:
        _BLAS = (None, None)
        try:
            import ctypes
            libs = sorted({l.split()[-1] for l in open('/proc/self/maps') if 'openblas' in l.lower() and '.so' in l})
            for p in libs:
                lib = ctypes.CDLL(p)
                for pre in ('scipy_openblas', 'openblas'):
                    for suf in ('64_', ''):
                        try:
                            _BLAS = (getattr(lib, pre + '_set_num_threads' + suf), getattr(lib, pre + '_get_num_threads' + suf))
                            return _BLAS
                        except AttributeError:
                            pass
        except Exception:
            pass
    return _BLAS


@contextlib.contextmanager
def blas_threads(k=1):
    """the n ~ 280 matrix powers of reachdist / distance_bin cost 15 times more CPU on 16 spinning BLAS threads than on one"""
    st, gt = _blas()
    old = None
    if st is not None:
        try:
            old = int(gt()); st(int(k))
        except Exception:
            old = None
    try:
        yield
    finally:
        if old is not None:
            st(old)


# ---------------------------------------------------------------- networks with more than 257 nodes
def big_graph(r, n, style):
    """edge list on n = 258..300 nodes.  Node numbers above 256 are where an identity test between two equal Python integers
    (`u is v`) stops being true, above 255 / 127 where a narrow label type wraps: every style leaves SEVERAL isolated nodes
    among the highest numbers (and some low ones), and puts connected nodes up there too.
      high_isolated: short paths / stars among the low numbers, the nodes from 257 on all isolated
      mixed_high:    a sparse forest over a random half of the nodes; among the numbers >= 257 some isolated, some attached
      er_sparse:     Erdos-Renyi with mean degree ~1.2 on a random subset, a third of the nodes left out
      pairs_high:    the nodes >= 250 matched in pairs (i, i+1) with gaps, low numbers a few cliques"""
    hi = [v for v in range(n) if v >= 257]
    if style == 'high_isolated':
        E, v = [], 0
        while v + 6 < 250:
            k = int(r.randint(2, 6))
            if r.rand() < 0.5:
                E += [(v + i, v + i + 1) for i in range(k - 1)]
            else:
                E += [(v, v + i) for i in range(1, k)]
            v += k + int(r.randint(0, 9))
        return E
    if style == 'mixed_high':
        nodes = [int(x) for x in r.permutation(n)[:n // 2]]
        keep_iso = set(int(x) for x in r.choice(hi, max(1, len(hi) // 2), replace=False))
        nodes = [v for v in nodes if v not in keep_iso] + [v for v in hi if v not in keep_iso]
        nodes = list(dict.fromkeys(nodes))
        E = []
        for k in range(1, len(nodes)):
            if r.rand() < 0.8:
                E.append((nodes[k], nodes[int(r.randint(max(0, k - 6), k))]))
        return E
    if style == 'er_sparse':
        sub = sorted(int(x) for x in r.permutation(n)[:2 * n // 3])
        m = int(0.6 * len(sub))
        E = []
        for _ in range(m):
            a, b = r.choice(len(sub), 2, replace=False)
            E.append((sub[int(a)], sub[int(b)]))
        return E
    E = []
    v = 250
    while v + 1 < n:
        if r.rand() < 0.6:
            E.append((v, v + 1)); v += 2
        else:
            v += 1
    for c in range(3):
        base = int(r.randint(0, 200))
        E += [(base + i, base + j) for i in range(4) for j in range(i + 1, 4)]
    return E


BIG_STYLES = ['high_isolated', 'mixed_high', 'er_sparse', 'pairs_high']


def big_cases(ctx, bct, r):
    """n = 258..300, direct oracle only (BFS), compact case description"""
    for t in range(ctx.scale(6, 40)):
        n = int(r.randint(258, 301))
        style = BIG_STYLES[t % len(BIG_STYLES)]
        E = [(a, b) for a, b in big_graph(r, n, style) if a != b]
        wkind = ['bin', 'dyadic', 'pm1'][t % 3]
        dtype = 'float' if wkind == 'dyadic' else ['float', 'int', 'bool'][int(r.randint(0, 3))]
        W = build(r, n, E, wkind, ['zero', 'zero', 'rand'][int(r.randint(0, 3))])
        val = (lambda x: str(int(x != 0))) if dtype == 'bool' else str       # what the array of that dtype holds
        ent = {'%d-%d' % (min(a, b), max(a, b)): val(W[a][b]) for a, b in E}
        dg = {str(i): val(W[i][i]) for i in range(n) if W[i][i] != 0}
        desc = {'n': n, 'zeros_plus_symmetric_entries': ent, 'diagonal': dg}
        ctx.count('weights:' + wkind); ctx.count('big:' + style)
        deg = [0] * n
        for a, b in E:
            deg[a] += 1; deg[b] += 1
        ctx.count('big:isolated_nodes_numbered_257_up', sum(1 for v in range(257, n) if deg[v] == 0))
        with blas_threads(1):
            one_case(ctx, bct, W, dtype, 'big_' + style, None, None, with_dist=(t % 2 == 0 or ctx.thorough), desc=desc)


# ---------------------------------------------------------------- one case
def one_case(ctx, bct, W, dtype, fam, lines, pend, malformed=False, with_dist=True, desc=None):
    """desc: compact description of a large matrix (zeros + listed symmetric entries) used as the case instead of the n x n table;
    such a case is judged by the direct oracle only (lines is None: the list model is quadratic in the number of blocks)"""
    n = len(W)
    A = to_np(W, dtype)
    if dtype == 'bool':
        W = [[Fraction(int(x != 0)) for x in row] for row in W]
    elif dtype == 'int':
        W = [[Fraction(int(x)) for x in row] for row in W]
    case = {'fn': 'get_components', 'family': fam, 'dtype': dtype, 'A': [[str(x) for x in row] for row in W]}
    if desc is not None:
        case['A'] = desc
    offdiag = any(W[i][j] != 0 for i in range(n) for j in range(n) if i != j)
    ctx.case(case, nontrivial=offdiag, sample_every=997)
    ctx.count('family:' + fam); ctx.count('n=%d' % n); ctx.count('dtype:' + dtype)
    A0 = A.copy()
    try:
        comps, sz = call(bct.get_components, A)
        err = None
    except bct.utils.BCTParamError:
        comps, sz, err = None, None, 'param'
    except Exception as e:
        comps, sz, err = None, None, repr(e)
    try:
        noc = call(bct.number_of_components, A)
        nerr = None
    except bct.utils.BCTParamError:
        noc, nerr = None, 'param'
    except Exception as e:
        noc, nerr = None, repr(e)
    sym = all(W[i][j] == W[j][i] for i in range(n) for j in range(n))
    if not sym:
        ctx.count('malformed')
        ctx.check(err == 'param', 'get_components:asym_rejected', 'asymmetric input must raise BCTParamError (got %s)' % (err or 'a result'), case)
        ctx.check(nerr == 'param', 'number_of_components:asym_rejected', 'asymmetric input must raise BCTParamError (got %s)' % (nerr or 'a result'), case)
    elif err or nerr:
        ctx.fail('get_components:raises' if err else 'number_of_components:raises', 'symmetric input raised ' + str(err or nerr), case)
    else:
        # what is returned: two 1-D integer arrays (labels index arrays downstream: nbs.py:181-190), a python/NumPy integer count.
        # (n = 0: np.array([]) has no integer to infer a dtype from; nothing to check there)
        rt = (isinstance(comps, np.ndarray) and isinstance(sz, np.ndarray) and comps.shape == (n,) and sz.ndim == 1
              and (n == 0 or (comps.dtype.kind in 'iu' and sz.dtype.kind in 'iu' and comps.dtype.itemsize >= 4 and int(sz.sum()) == n)))
        ctx.check(rt, 'get_components:return_type', 'expected integer arrays of shapes (n,), (m,) with sizes summing to n; got %s %s / %s %s'
                  % (getattr(comps, 'dtype', type(comps)), getattr(comps, 'shape', None), getattr(sz, 'dtype', type(sz)), getattr(sz, 'shape', None)), case)
        ctx.check(isinstance(noc, (int, np.integer)) and not isinstance(noc, bool), 'number_of_components:return_type',
                  'expected an integer, got %r' % type(noc), case)
        comps = [int(x) for x in np.asarray(comps).tolist()]
        sz = [int(x) for x in np.asarray(sz).tolist()]
        cls, c = bfs_classes(W)
        m = len(sz)
        ok_len = ctx.check(len(comps) == n, 'get_components:one_label_per_node', 'label vector has length %d for %d nodes' % (len(comps), n), case)
        if ok_len:
            bad = [(u, v) for u in range(n) for v in range(n) if (comps[u] == comps[v]) != (cls[u] == cls[v])]
            ctx.check(not bad, 'get_components:iff_path', 'nodes %s: same-label and joined-by-a-path disagree (labels %s)' % (bad[:1], comps), case)
            ctx.check(set(comps) == set(range(1, m + 1)), 'get_components:labels_1_to_m', 'labels %s are not exactly 1..%d' % (sorted(set(comps)), m), case)
            ctx.check(all(sz[l - 1] == comps.count(l) for l in range(1, m + 1)), 'get_components:sizes_are_counts', 'sizes %s are not the label counts of %s' % (sz, comps), case)
            iso = [u for u in range(n) if all(W[u][v] == 0 for v in range(n) if v != u)]
            ctx.check(all(1 <= comps[u] <= m and sz[comps[u] - 1] == 1 for u in iso), 'get_components:isolated_singletons', 'an isolated node is not a component of size one', case)
            if iso:
                ctx.count('has_isolated')
        ctx.check(noc == c, 'number_of_components:def', 'number_of_components=%s, true number of classes=%d' % (noc, c), case)
        ctx.check(noc == m, 'number_of_components:len_sizes', 'number_of_components=%s but %d sizes' % (noc, m), case)
        ctx.check(np.array_equal(A, A0), 'get_components:no_mutation', 'argument modified', case)
        ctx.count('components=%s' % (c if c < 6 else '6+'))
        # agreement with the distance routines (off-diagonal finite entries <=> same class)
        if with_dist and n >= 1:
            same = np.array([[cls[u] == cls[v] for v in range(n)] for u in range(n)])
            off = ~np.eye(n, dtype=bool)
            Af = A0.astype(float)
            try:
                D = call(bct.distance_bin, Af.copy())
                ctx.check(np.array_equal(np.isfinite(D)[off], same[off]), 'distance_bin:agrees', 'finite entries of distance_bin differ from the components', case)
                R, D2 = call(bct.breadthdist, Af.copy())
                ctx.check(np.array_equal(np.isfinite(D2)[off], same[off]) and np.array_equal(np.asarray(R, bool)[off], same[off]),
                          'breadthdist:agrees', 'finite entries / reachability of breadthdist differ from the components', case)
                R3, D3 = call(bct.reachdist, Af.copy())
                ctx.check(np.array_equal(np.isfinite(D3)[off], same[off]) and np.array_equal(np.asarray(R3, bool)[off], same[off]),
                          'reachdist:agrees', 'finite entries / reachability of reachdist differ from the components', case)
                if ok_len:
                    lab = np.array(comps)
                    ctx.check(np.array_equal((lab[:, None] == lab[None, :])[off], np.isfinite(D)[off]), 'get_components:agrees_with_distance_bin',
                              'label co-membership differs from finite distance_bin entries', case)
            except Timeout:
                ctx.fail('distance:timeout', 'a distance routine did not terminate', case)
    if lines is None:
        return
    rows = model_rows(W)
    mcase = tie_variants(dict(case), since_case=True)      # input-representation layer: the model comparison is batched and comes later
    lines.append('gc ' + enc_mat(rows, enc_zbig)); pend.append(('gc', mcase, (comps, sz), err))
    lines.append('noc ' + enc_mat(rows, enc_zbig)); pend.append(('noc', mcase, noc, nerr))


def run(ctx):
    import bct
    r = ctx.nprng
    lines, pend = [], []
    # ---------------- exhaustive: every labelled undirected graph
    nmax = ctx.scale(5, 6)
    for n in range(1, nmax + 1):
        pairs = [(i, j) for i in range(n) for j in range(i + 1, n)]
        for mask in range(1 << len(pairs)):
            E = [pairs[b] for b in range(len(pairs)) if mask >> b & 1]
            W = [[Fraction(0)] * n for _ in range(n)]
            for a, b in E:
                W[a][b] = W[b][a] = Fraction(1)
            one_case(ctx, bct, W, 'float', 'exhaustive_n%d' % n, lines, pend, with_dist=(n <= 5 or mask % 8 == 0))
    # ---------------- the empty network
    for dt in ('float', 'int', 'bool'):
        one_case(ctx, bct, [], dt, 'n0', lines, pend, with_dist=False)
    # get_components_old: exported but not named by the property (see ASSUMES) - recorded, not judged
    try:
        call(bct.get_components_old, np.array([[0, 1, 0], [1, 0, 0], [0, 0, 0.]]), True)
        ctx.count('get_components_old:returns')
    except Exception as e:
        ctx.count('get_components_old:raises_' + type(e).__name__)
    # ---------------- structured random
    N = ctx.scale(360, 4000)
    for t in range(N):
        fam, g = FAMILIES[t % len(FAMILIES)]
        n = int(r.randint(15, 41)) if t % 8 == 7 else int(r.randint(1, 15))
        E = g(r, n)
        E = renumber(r, n, E, ['id', 'rev', 'perm', 'perm'][int(r.randint(0, 4))])
        wkind = ['bin', 'int', 'dyadic', 'pm1', 'pm_small', 'pm_half'][int(r.randint(0, 6))]
        dkind = ['zero', 'rand', 'ones'][int(r.randint(0, 3))]
        W = build(r, n, E, wkind, dkind)
        dtype = 'float' if wkind in ('dyadic', 'pm_half') else ['float', 'int', 'bool'][int(r.randint(0, 3))]
        ctx.count('weights:' + wkind); ctx.count('diag:' + dkind)
        one_case(ctx, bct, W, dtype, fam, lines, pend)
    # ---------------- signed weights whose walks cancel / tiny weights whose products underflow: the grouping must still agree
    # with the finite entries of distance_bin, breadthdist, reachdist (they binarize first; the model side only sees the support)
    S = ctx.scale(72, 720)
    for t in range(S):
        fam, g = [('even_cycles', g_even_cycles), ('grid', g_grid), ('er', g_er), ('complete', FAMILIES[11][1])][t % 4]
        n = int(r.randint(4, 15))
        E = renumber(r, n, g(r, n), ['id', 'perm'][int(r.randint(0, 2))])
        wkind = ['pm1', 'pm1', 'pm_small', 'pm_half'][int(r.randint(0, 4))]
        W = build(r, n, E, wkind, 'zero')
        ctx.count('weights:' + wkind); ctx.count('signed_cancel')
        one_case(ctx, bct, W, 'float' if wkind == 'pm_half' else ['float', 'int'][int(r.randint(0, 2))], 'signed_' + fam, lines, pend)
    # the 4-cycle (+,+,+,-) itself
    W4 = [[Fraction(0)] * 4 for _ in range(4)]
    for (i, j, w) in ((0, 1, 1), (1, 2, 1), (2, 3, 1), (3, 0, -1)):
        W4[i][j] = W4[j][i] = Fraction(w)
    one_case(ctx, bct, W4, 'float', 'signed_square', lines, pend)
    for t in range(ctx.scale(4, 24)):
        n = int(r.randint(40, 71)) if t % 2 else int(r.randint(58, 71))
        E = [(i, i + 1) for i in range(n - 1) if r.rand() < 0.97]
        if t % 4 == 3:
            E = renumber(r, n, E, 'rev')
        W = build(r, n, E, 'tiny', 'zero')
        if t % 2 == 0:
            for a, b in E:
                W[a][b] = W[b][a] = Fraction(1e-6)      # 55+ factors of 1e-6 underflow to 0.0
        ctx.count('weights:tiny'); ctx.count('long_chain')
        one_case(ctx, bct, W, 'float', 'long_chain_tiny', lines, pend)
    # ---------------- malformed stream: asymmetric input must be rejected
    M = ctx.scale(120, 1200)
    for t in range(M):
        n = int(r.randint(2, 10))
        kind = t % 6
        fam, g = FAMILIES[int(r.randint(0, len(FAMILIES)))]
        W = build(r, n, renumber(r, n, g(r, n), 'perm'), ['bin', 'int', 'dyadic'][int(r.randint(0, 3))], ['zero', 'rand'][int(r.randint(0, 2))])
        i, j = [int(x) for x in r.choice(n, 2, replace=False)]
        dtype = 'float'
        if kind == 0:      # one entry flipped
            W[i][j] = Fraction(0) if W[i][j] != 0 else Fraction(1)
            dtype = ['float', 'int', 'bool'][int(r.randint(0, 3))]
        elif kind == 1:    # both directions present, weights differ
            W[i][j] = Fraction(2); W[j][i] = Fraction(3)
            dtype = ['float', 'int'][int(r.randint(0, 2))]
        elif kind == 2:    # random directed graph
            W = [[Fraction(int(a != b and r.rand() < 0.3)) for b in range(n)] for a in range(n)]
            if all(W[a][b] == W[b][a] for a in range(n) for b in range(n)):
                W[i][j] = Fraction(1); W[j][i] = Fraction(0)
            dtype = ['float', 'int', 'bool'][int(r.randint(0, 3))]
        elif kind == 3:    # same magnitude, opposite sign
            w = Fraction(int(r.choice([1, 2, 3, 5])))
            W[i][j] = w; W[j][i] = -w
            dtype = ['float', 'int'][int(r.randint(0, 2))]
        else:              # noise-level asymmetry of one mirrored pair (np.allclose(A, A.T) holds, A == A.T does not)
            w = float(W[i][j]) if W[i][j] != 0 else float(r.choice([1.0, 0.375, 2.5, -1.5]))
            sub = int(r.randint(0, 5))
            if sub == 0:
                w2 = w + 2.0 ** -40
            elif sub == 1:
                w2 = w + 1e-9
            elif sub == 2:
                w2 = w * (1 + 1e-7)
            elif sub == 3:
                w2 = float(np.nextafter(w, np.inf))     # one ulp
            else:
                w, w2 = 0.0, 1e-9                         # a "connection" of noise size in one direction only
            W[i][j] = Fraction(w2); W[j][i] = Fraction(w)
            ctx.count('malformed:noise_%d' % sub)
        one_case(ctx, bct, W, dtype, 'malformed_%d' % min(kind, 4), lines, pend, malformed=True)

    # ---------------- more than 257 nodes (own random stream; last, so that the forced first variant / decoy calls and the
    # draws of every other family stay what they were)
    big_cases(ctx, bct, np.random.RandomState((ctx.seed * 7919 + 16016) % (2 ** 31)))

    # ---------------- correspondence: extracted Coq model on the same inputs, labels compared exactly
    res = run_model(ID, lines)
    ctx.model_cases = len(lines)
    for (kind, case, impl, err), m in zip(pend, res):
        if is_err(m):
            ctx.mismatch('model-error', m['error'], case); continue
        if kind == 'gc':
            if m is None or err:
                if not (m is None and err == 'param'):
                    ctx.mismatch('get_components:reject', 'model %s / impl %s' % ('rejects' if m is None else 'accepts', err or 'accepts'), case, m, impl)
                continue
            if m[0] != impl[0] or m[1] != impl[1]:
                ctx.mismatch('get_components', 'labels/sizes differ (model mirrors the labelling order exactly)', case, m, impl)
        else:
            if m is None or err:
                if not (m is None and err == 'param'):
                    ctx.mismatch('number_of_components:reject', 'model %s / impl %s' % ('rejects' if m is None else 'accepts', err or 'accepts'), case, m, impl)
                continue
            if m != impl:
                ctx.mismatch('number_of_components', 'model %s impl %s' % (m, impl), case, m, impl)
