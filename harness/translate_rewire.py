"""Fail-closed Python-`ast` translator: bct/algorithms/reference.py -> coq/theories/Gen/RewireTable.v.

For randomizer_bin_und it extracts the swap writes, the hole tests and the mate test (extract_rbu).
For each of the nine edge-swap routines it extracts the "swap table" (vocabulary of Model/RewireSpec.v):
edge-list source, the selection loop (two draws bounded by the edge count, the `while e1 == e2` redraw, the four endpoint
reads `a = i[e1]` ..., the four-distinct test — and nothing else in that loop), flip block, rewiring condition, ordered cell
writes, index patches, absence of any other write to the matrix, presence of the lattice / connectivity / mask conditions,
the max_attempts formula, the loop skeleton, permutation before and inverse permutation after.
Anything it does not recognise is emitted as a value that cannot match the expected table (never dropped), so the
generated obligation `src_table_ok` fails to compile and the check reports it.
"""
import ast, os

ROUTINES = ['randmio_dir', 'randmio_dir_connected', 'randmio_und', 'randmio_und_connected',
            'latmio_dir', 'latmio_dir_connected', 'latmio_und', 'latmio_und_connected', 'randomize_graph_partial_und']
SYM = {'a': 'SA', 'b': 'SB', 'c': 'SC', 'd': 'SD'}


class Unknown(Exception):
    pass


def name(n):
    return n.id if isinstance(n, ast.Name) else None


def cell(sub, mats):
    """R[a, d] -> (matrix name, (SA, SD))"""
    if not isinstance(sub, ast.Subscript) or name(sub.value) not in mats:
        raise Unknown('not a cell of %s: %s' % (mats, ast.dump(sub)[:80]))
    idx = sub.slice
    if not (isinstance(idx, ast.Tuple) and len(idx.elts) == 2 and all(name(e) in SYM for e in idx.elts)):
        raise Unknown('cell index: ' + ast.dump(sub)[:80])
    return name(sub.value), (SYM[name(idx.elts[0])], SYM[name(idx.elts[1])])


def patch(st):
    """j[e1] = d -> (isj, ise1, SD)"""
    t, v = st.targets[0], st.value
    if isinstance(t, ast.Subscript) and name(t.value) in ('i', 'j') and name(t.slice) in ('e1', 'e2') and name(v) in SYM:
        return (name(t.value) == 'j', name(t.slice) == 'e1', SYM[name(v)])
    return None


def walk_no_nested_loops(node):
    yield node
    for ch in ast.iter_child_nodes(node):
        yield from walk_no_nested_loops(ch)


def find_edge_list(fn):
    for st in ast.walk(fn):
        if isinstance(st, ast.Assign) and isinstance(st.targets[0], ast.Tuple) and [name(e) for e in st.targets[0].elts] == ['i', 'j']:
            v = st.value
            if isinstance(v, ast.Call) and ast.unparse(v.func) == 'np.where' and len(v.args) == 1:
                src = ast.unparse(v.args[0])
                if src in ('R', 'A'):
                    return 'ELall'
                if src in ('np.tril(R, -1)', 'np.tril(A, -1)'):
                    return 'ELtril'      # strict lower triangle (np.tril(R), which lists self-connections, is NOT the model's)
                if src in ('np.triu(A, 1)', 'np.triu(R, 1)'):
                    return 'ELtriu1'
                raise Unknown('edge list source ' + src)
    raise Unknown('no edge list')


def conj_terms(test):
    if isinstance(test, ast.BoolOp) and isinstance(test.op, ast.And):
        out = []
        for v in test.values:
            out += conj_terms(v)
        return out
    return [test]


def disj_terms(test):
    if isinstance(test, ast.BoolOp) and isinstance(test.op, ast.Or):
        out = []
        for v in test.values:
            out += disj_terms(v)
        return out
    return [test]


def extract(fn):
    mat = 'A' if fn.name == 'randomize_graph_partial_und' else 'R'
    spec = {'el': find_edge_list(fn), 'four': None, 'flip': [], 'cond': None, 'writes': None, 'patches': None,
            'lattice': False, 'conn': False, 'mask': [], 'latt': False, 'reads': [], 'redraw': False, 'halved': False,
            'loops': False}
    # four-distinct test: `if a != c and a != d and b != c and b != d: break`
    for st in ast.walk(fn):
        if isinstance(st, ast.If) and len(st.body) == 1 and isinstance(st.body[0], ast.Break):
            terms = conj_terms(st.test)
            if all(isinstance(t, ast.Compare) and len(t.ops) == 1 and isinstance(t.ops[0], ast.NotEq)
                   and name(t.left) in SYM and name(t.comparators[0]) in SYM for t in terms):
                if spec['four'] is not None:
                    raise Unknown('two four-distinct tests')
                spec['four'] = [(SYM[name(t.left)], SYM[name(t.comparators[0])]) for t in terms]
    # the selection loop: the `while True:` whose body holds the four-distinct test.  Every statement of its body must be
    # one of: the two draws bounded by the edge count, the redraw loop, the four endpoint reads, the test itself.
    sel = [st for st in ast.walk(fn) if isinstance(st, ast.While) and isinstance(st.test, ast.Constant) and st.test.value is True
           and any(isinstance(x, ast.If) and len(x.body) == 1 and isinstance(x.body[0], ast.Break) and
                   all(isinstance(t, ast.Compare) and isinstance(t.ops[0], ast.NotEq) for t in conj_terms(x.test)) for x in st.body)]
    if len(sel) != 1:
        raise Unknown('%d selection loops' % len(sel))
    kvars = [name(st.targets[0]) for st in ast.walk(fn) if isinstance(st, ast.Assign) and len(st.targets) == 1
             and name(st.targets[0]) and ast.unparse(st.value) == 'len(i)']
    if len(kvars) != 1:
        raise Unknown('edge count variable: %r' % kvars)
    kv = kvars[0]
    reads, drawn, redraw = [], [], False
    for st in sel[0].body:
        src1 = ast.unparse(st)
        if src1 in ('e1 = rng.randint(%s)' % kv, 'e2 = rng.randint(%s)' % kv):
            drawn.append(src1[:2])
        elif src1 == 'e1, e2 = rng.randint(%s, size=(2,))' % kv:
            drawn += ['e1', 'e2']
        elif isinstance(st, ast.While) and ast.unparse(st.test) == 'e1 == e2' and [ast.unparse(x) for x in st.body] == ['e2 = rng.randint(%s)' % kv]:
            if drawn != ['e1', 'e2']:
                raise Unknown('redraw loop before both draws')
            redraw = True
        elif isinstance(st, ast.Assign) and len(st.targets) == 1 and name(st.targets[0]) in SYM and isinstance(st.value, ast.Subscript) \
                and name(st.value.value) in ('i', 'j') and name(st.value.slice) in ('e1', 'e2'):
            if not redraw:
                raise Unknown('endpoint read before the redraw loop')
            reads.append((SYM[name(st.targets[0])], name(st.value.value) == 'j', name(st.value.slice) == 'e1'))
        elif isinstance(st, ast.If) and len(st.body) == 1 and isinstance(st.body[0], ast.Break):
            if len(reads) != 4:
                raise Unknown('four-distinct test after %d reads' % len(reads))
        else:
            raise Unknown('statement in the selection loop: ' + src1[:80])
    if drawn != ['e1', 'e2']:
        raise Unknown('draws of the selection loop: %r' % drawn)
    spec['reads'], spec['redraw'] = reads, redraw
    # flip block: `if rng.random_sample() > .5:` with i[e2] = d; j[e2] = c; c = i[e2]; d = j[e2]
    for st in ast.walk(fn):
        if isinstance(st, ast.If) and isinstance(st.test, ast.Compare) and 'random_sample' in ast.unparse(st.test):
            if ast.unparse(st.test).replace(' ', '') not in ('rng.random_sample()>0.5', 'rng.random_sample()>.5'):
                raise Unknown('flip test ' + ast.unparse(st.test))
            ps, rest = [], []
            for s in st.body:
                if isinstance(s, ast.Assign) and patch(s):
                    ps.append(patch(s))
                elif isinstance(s, ast.Expr) and 'setflags' in ast.unparse(s):
                    pass
                else:
                    rest.append(ast.unparse(s))
            if rest != ['c = i[e2]', 'd = j[e2]']:
                raise Unknown('flip block tail ' + repr(rest))
            spec['flip'] = ps
    # rewiring condition: `if not (R[a, d] or R[c, b] [or B[a, d] or B[c, b]]):`
    conds = []
    for st in ast.walk(fn):
        if isinstance(st, ast.If) and isinstance(st.test, ast.UnaryOp) and isinstance(st.test.op, ast.Not):
            try:
                cells = [cell(t, (mat, 'B')) for t in disj_terms(st.test.operand)]
            except Unknown:
                continue
            conds.append((st, cells))
    def has_write(node):
        return any(isinstance(s, ast.Assign) and isinstance(s.targets[0], ast.Subscript) and name(s.targets[0].value) == mat
                   for s in ast.walk(node))
    outer = [(st, cs) for st, cs in conds if has_write(st)]
    inner = [(st, cs) for st, cs in conds if not has_write(st)]
    if len(outer) != 1:
        raise Unknown('%d rewiring conditions' % len(outer))
    # the undirected connectivity test starts with the shortcut `if not (R[a, c] or R[b, d]):`
    for st, cs in inner:
        if [c for m, c in cs] != [('SA', 'SC'), ('SB', 'SD')] or any(m != mat for m, c in cs):
            raise Unknown('unexpected emptiness test ' + ast.unparse(st.test))
    cond_if, cells = outer[0]
    spec['cond'] = [c for m, c in cells if m == mat]
    spec['mask'] = [c for m, c in cells if m == 'B']
    # inside the condition: lattice / connectivity guards and the accepted block
    body_src = ast.unparse(cond_if)
    for st in ast.walk(cond_if):
        if isinstance(st, ast.If) and isinstance(st.test, ast.Compare) and 'D[' in ast.unparse(st.test):
            want = 'D[a, b] * R[a, b] + D[c, d] * R[c, d] >= D[a, d] * R[a, b] + D[c, b] * R[c, d]'
            if ast.unparse(st.test) != want:
                raise Unknown('lattice condition: ' + ast.unparse(st.test))
            spec['lattice'] = True
    spec['conn'] = 'PN' in body_src and 'rewire = False' in body_src
    # accepted block = the statement list that contains the first write `R[a, d] = R[a, b]`
    blocks = []
    for st in ast.walk(cond_if):
        for fld in ('body', 'orelse'):
            blk = getattr(st, fld, None)
            if isinstance(blk, list) and any(isinstance(s, ast.Assign) and isinstance(s.targets[0], ast.Subscript)
                                             and name(s.targets[0].value) == mat for s in blk):
                blocks.append(blk)
    if len(blocks) != 1:
        raise Unknown('%d write blocks' % len(blocks))
    writes, patches = [], []
    for s in blocks[0]:
        if isinstance(s, ast.Assign) and len(s.targets) == 1:
            t = s.targets[0]
            if isinstance(t, ast.Subscript) and name(t.value) == mat:
                _, dst = cell(t, (mat,))
                if isinstance(s.value, ast.Constant) and s.value.value == 0:
                    writes.append((dst, None))
                else:
                    _, srcc = cell(s.value, (mat,))
                    writes.append((dst, srcc))
                continue
            p = patch(s)
            if p:
                patches.append(p)
                continue
            raise Unknown('statement in the accepted block: ' + ast.unparse(s))
        elif isinstance(s, ast.Assign):
            raise Unknown('chained assignment in the accepted block: ' + ast.unparse(s))
        elif isinstance(s, ast.Expr) and 'setflags' in ast.unparse(s):
            continue
        elif isinstance(s, ast.AugAssign) and name(s.target) in ('eff', 'nswap') and ast.unparse(s.value) == '1':
            continue
        elif isinstance(s, ast.Break):
            continue
        elif isinstance(s, ast.If) and ast.unparse(s.test) == '_verif.ON':
            continue
        else:
            raise Unknown('statement in the accepted block: ' + ast.unparse(s)[:80])
    spec['writes'], spec['patches'] = writes, patches
    # no other statement of the function writes a cell of the matrix (e.g. after the loop)
    allw = [st for st in ast.walk(fn) if isinstance(st, (ast.Assign, ast.AugAssign)) and
            any(isinstance(t, ast.Subscript) and name(t.value) == mat for t in (st.targets if isinstance(st, ast.Assign) else [st.target]))]
    if len(allw) != len(writes):
        raise Unknown('%d writes to %s, %d of them in the accepted block' % (len(allw), mat, len(writes)))
    # loop skeleton and attempt bound
    src0 = ast.unparse(fn)
    tests = [ast.unparse(st.test) for st in ast.walk(fn) if isinstance(st, ast.While)]
    if mat == 'A':
        spec['loops'] = 'nswap < maxswap' in tests and 'nswap = 0' in src0
        if 'max_attempts' in src0:
            raise Unknown('attempt bound in randomize_graph_partial_und')
    else:
        ma = [ast.unparse(st.value) for st in ast.walk(fn) if isinstance(st, ast.Assign) and name(st.targets[0]) == 'max_attempts']
        if ma == ['np.round(n * %s / (n * (n - 1)))' % kv]:
            spec['halved'] = False
        elif ma == ['np.round(n * %s / (n * (n - 1) / 2))' % kv]:
            spec['halved'] = True
        else:
            raise Unknown('max_attempts: %r' % ma)
        fors = [ast.unparse(st.iter) for st in ast.walk(fn) if isinstance(st, ast.For) and name(st.target) == 'it']
        spec['loops'] = (('itr = itr * %s' % kv) in src0 or ('itr *= %s' % kv) in src0) and fors in (['range(int(itr))'], ['range(itr)']) and 'att <= max_attempts' in tests \
            and 'att = 0' in src0 and 'att += 1' in src0 and 'n = len(R)' in src0
    # latticisers: permute before, inverse-permute after
    src = ast.unparse(fn)
    pre = 'R = R[np.ix_(ind_rp, ind_rp)]' in src and 'ind_rp = rng.permutation(n)' in src
    post = 'ind_rp_reverse = np.argsort(ind_rp)' in src and 'Rlatt = R[np.ix_(ind_rp_reverse, ind_rp_reverse)]' in src
    if ('ind_rp' in src) and not (pre and post):
        raise Unknown('latticiser permutation handling not recognised')
    spec['latt'] = pre and post
    return spec


def coq_cell(c):
    return '(%s, %s)' % c


def coq_list(xs):
    return '[' + '; '.join(xs) + ']'


def coq_spec(s):
    b = lambda x: 'true' if x else 'false'
    writes = coq_list(['(%s, %s)' % (coq_cell(d), 'None' if sc is None else 'Some ' + coq_cell(sc)) for d, sc in s['writes']])
    pat = lambda ps: coq_list(['(%s, %s, %s)' % (b(p[0]), b(p[1]), p[2]) for p in ps])
    reads = coq_list(['(%s, (%s, %s))' % (r[0], b(r[1]), b(r[2])) for r in s['reads']])
    return ('mkspec %s %s %s %s\n    %s\n    %s %s %s %s %s\n    %s %s %s %s' % (
        s['el'], coq_list([coq_cell(c) for c in (s['four'] or [])]), pat(s['flip']), coq_list([coq_cell(c) for c in s['cond']]),
        writes, pat(s['patches']), b(s['lattice']), b(s['conn']), coq_list([coq_cell(c) for c in s['mask']]), b(s['latt']),
        reads, b(s['redraw']), b(s['halved']), b(s['loops'])))


def extract_rbu(fn):
    """randomizer_bin_und: the constant cell writes of its swap (in order, and no other write to a cell named by a, b, c, d),
    the two hole tests `np.where(R[:, a] == 0)` / `np.where(R[:, b] == 0)` combined by np.intersect1d, the mate test
    `np.where(R[np.ix_(i_intersect, i_intersect)] == 1)`"""
    writes = []
    for st in ast.walk(fn):
        if isinstance(st, ast.Assign) and len(st.targets) == 1 and isinstance(st.targets[0], ast.Subscript) and name(st.targets[0].value) == 'R':
            idx = st.targets[0].slice
            if isinstance(idx, ast.Tuple) and len(idx.elts) == 2 and all(name(e) in SYM for e in idx.elts):
                if not (isinstance(st.value, ast.Constant) and st.value.value in (0, 1)):
                    raise Unknown('rbu write ' + ast.unparse(st))
                writes.append((st.lineno, (SYM[name(idx.elts[0])], SYM[name(idx.elts[1])]), int(st.value.value)))
    writes.sort()
    if not writes or [w[0] for w in writes] != list(range(writes[0][0], writes[0][0] + len(writes))):
        raise Unknown('rbu swap writes are not one block of consecutive statements')
    norm = lambda t: t.replace('(', '').replace(')', '').replace(' ', '')   # ast.unparse differs between Python versions
    src = norm(ast.unparse(fn))
    tests = []
    for var, col in (('alliholes', 'a'), ('alljholes', 'b')):
        for val in (0, 1):
            if norm('%s, = np.where(R[:, %s] == %d)' % (var, col, val)) + '\n' in src + '\n':
                tests.append((SYM[col], val))
    if len(tests) != 2 or norm('i_intersect = np.intersect1d(alliholes, alljholes)') not in src:
        raise Unknown('rbu hole tests')
    mate = [v for v in (0, 1) if norm('ii, jj = np.where(R[np.ix_(i_intersect, i_intersect)] == %d)' % v) + '\n' in src + '\n']
    if len(mate) != 1:
        raise Unknown('rbu mate test')
    return [(c, v) for _, c, v in writes], tests, mate[0]


UNRECOGNISED = 'mkspec ELall [] [] [] [] [] false false [] false [] false false false'


def generate(repo, out_path):
    src = open(os.path.join(repo, 'bct', 'algorithms', 'reference.py')).read()
    tree = ast.parse(src)
    fns = {f.name: f for f in tree.body if isinstance(f, ast.FunctionDef)}
    entries, notes = [], []
    for r in ROUTINES:
        try:
            entries.append(coq_spec(extract(fns[r])))
        except (Unknown, KeyError) as e:
            entries.append(UNRECOGNISED)
            notes.append('%s: %s' % (r, e))
    txt = ['(* GENERATED by harness/translate_rewire.py from bct/algorithms/reference.py — do not edit. *)',
           'From Coq Require Import ZArith List Bool.',
           'From BCT Require Import Model.Rewire Model.RewireSpec.',
           'Import ListNotations.', '']
    for n in notes:
        txt.append('(* NOT RECOGNISED: %s *)' % n.replace('*)', '* )'))
    txt.append('Definition source_table : list src_spec :=\n  [ ' + ';\n    '.join('(' + e + ')' for e in entries) + ' ].')
    txt.append('')
    txt.append('(* the swap table read off the current source is the one the engine of Model/Rewire.v implements')
    txt.append('   (Proofs/RewireSpec.v: attempt_tab_engine, attempt_tab_partial: the table-driven attempt IS the engine attempt) *)')
    txt.append('Example src_table_ok : list_eqb spec_eqb source_table expected_table = true.')
    txt.append('Proof. vm_compute. reflexivity. Qed.')
    txt.append('')
    try:
        w, tst, mate = extract_rbu(fns['randomizer_bin_und'])
    except (Unknown, KeyError) as e:
        w, tst, mate = [], [], 0
        notes.append('randomizer_bin_und: %s' % e)
        txt.append('(* NOT RECOGNISED: randomizer_bin_und: %s *)' % str(e).replace('*)', '* )'))
    txt.append('(* randomizer_bin_und: swap writes, hole tests, mate value (Proofs/RewireSpec.v: rbu_swap_is_table, rbu_holes_is_table, rbu_mates_is_table) *)')
    txt.append('Definition source_rbu_writes : list cwrite := %s.' % coq_list(['(%s, %d)' % (coq_cell(c), v) for c, v in w]))
    txt.append('Definition source_rbu_tests : list (sym * Z) := %s.' % coq_list(['(%s, %d)' % (c, v) for c, v in tst]))
    txt.append('Definition source_rbu_mate : Z := %d.' % mate)
    txt.append('Example src_rbu_ok : (list_eqb cwrite_eqb source_rbu_writes rbu_writes_std && list_eqb stest_eqb source_rbu_tests rbu_tests_std &&')
    txt.append('                      Z.eqb source_rbu_mate rbu_mate_std)%bool = true.')
    txt.append('Proof. vm_compute. reflexivity. Qed.')
    new = '\n'.join(txt) + '\n'
    os.makedirs(os.path.dirname(out_path), exist_ok=True)
    old = open(out_path).read() if os.path.exists(out_path) else None
    if old != new:
        open(out_path, 'w').write(new)
    return notes


if __name__ == '__main__':
    import sys
    print(generate(sys.argv[1] if len(sys.argv) > 1 else '/repo', '/verif/coq/theories/Gen/RewireTable.v'))
