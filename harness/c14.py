"""C14 — partition-consuming functions depend on the partition, not on label values."""
import itertools, math
from collections import Counter
from fractions import Fraction as F
import numpy as np
from common import *

ID = 'C14'
COQ_FILES = ['Base/Mat.v', 'Base/SumQ.v', 'Base/ListX.v', 'Model/Partition.v', 'Model/PartitionReal.v', 'Model/PartitionDG.v',
             'Model/PartitionDV.v', 'Model/PartitionLS.v', 'Model/PartitionGWB.v',
             'Proofs/Partition.v', 'Proofs/PartitionJoint.v', 'Proofs/PartitionVI.v', 'Proofs/PartitionDG.v',
             'Proofs/PartitionGW.v', 'Proofs/PartitionLS.v', 'Proofs/PartitionGWB.v', 'Proofs/PartitionDV.v',
             'Model/Modularity.v', 'Proofs/ModularitySums.v', 'Proofs/ModularityQ.v', 'Proofs/PartitionSignAgree.v',
             'Properties/C14.v']
THEOREMS = ['C14_relabel_injective_invariant', 'C14_relabel_canonical', 'C14_relabel_onto', 'C14_injective_same_part',
            'C14_participation_coef_partition_only', 'C14_participation_coef_formula',
            'C14_participation_coef_sign_partition_only', 'C14_module_degree_zscore_partition_only',
            'C14_module_degree_zscore_invariant', 'C14_modularity_und_partition_only',
            'C14_modularity_dir_partition_only', 'C14_modularity_und_sign_partition_only',
            'C14_und_sign_models_agree',
            'C14_agreement_counts', 'C14_agreement_partition_only', 'C14_agreement_statement_level', 'C14_dummyvar_spec',
            'C14_partition_distance_symmetric',
            'C14_partition_distance_partition_only', 'C14_partition_distance_same', 'C14_VIn_nonneg',
            'C14_VIn_zero_same', 'C14_MIn_one_same', 'C14_partition_distance_exactly_when', 'C14_VIn_range_any_log', 'C14_VIn_range',
            'C14_partition_distance_ln_symmetric', 'C14_partition_distance_ln_partition_only',
            'C14_partition_distance_ln_same', 'C14_partition_distance_ln_exactly_when', 'C14_ci2ls_ls2ci_inverse',
            'C14_ci2ls_blocks', 'C14_ls2ci_ci2ls_inverse', 'C14_ci2ls_ls2ci_run', 'C14_ls2ci_ci2ls_edge_cases',
            'C14_diversity_coef_sign_partition_only', 'C14_gateway_coef_sign_refuted',
            'C14_gateway_coef_sign_statement_false', 'C14_gateway_witness_values',
            'C14_gateway_coef_sign_repaired_partition_only',
            'C14_gateway_coef_sign_betweenness_refuted', 'C14_gateway_betweenness_witness_values',
            'C14_gateway_coef_sign_degree_instance']
RULE = ('every set partition of n<=5 nodes (n<=6 thorough), written with restricted-growth labels 1..K, x the relabellings '
        '{zero-based, negative, gaps, large (2^40+), huge (adjacent int64 at +-2^62), permuted block order, random injective mix} x random matrices with small '
        'dyadic weights (undirected weighted / directed / signed, several densities, isolated nodes); pairs of partitions '
        '(all pairs n<=4, n<=5 thorough; random pairs beyond) for partition_distance; stacks of 1-4 partitions for agreement; '
        'random partitions of n<=9; n = 1; non-zero diagonals (30 %); labels also as list / float64 / int32, and as 2-D arrays: every consumer gets the '
        'base labels as a 1 x N and an N x 1 array (it may refuse them - counted under label-layout-refused:* - but a returned value must be '
        'the 1-D value; a quarter of the base cases), partition_distance gets all nine layout pairs of {1-D, 1xN, Nx1} (every pair must return the 1-D result; Nx1 '
        'paired with 1-D or 1xN under the key partition_distance:mixed-layout, ordinary clause since the repair /repo 903f1ee) on 20 % of its pairs; gateway_coef_sign with both centrality '
        'types; ls2ci on shuffled block lists (with an empty block) and the empty / IndexError cases, its zeroindexed flag spelled True / 1 / np.True_ and False / 0 / np.False_ in rotation; agreement with buffsz that splits the stack '
        'unevenly; partition_distance with 1100 blocks; LABEL STORAGE TYPES: every consumer gets the base partition (participation_coef(_sign), module_degree_zscore, diversity_coef_sign, modularity_und / _dir / _und_sign with the '
        'partition given; partition_distance on 30 % of its pairs - both vectors, cx only, cy only; agreement on 40 % of its stacks) as a boolean mask in both polarities (K <= 2), uint8 / int8 / uint16 labels at the top of their range '
        '(255-K+1..255: `+ 1` in the caller\'s dtype wraps), uint8 in a non-monotone assignment, uint64 beyond 2^63, unicode / bytes / object-array strings, a Python list of strings, Python ints in an object array (bool always, three of the others drawn per call): '
        'the value must be that of the same partition with int64 labels 1..K (key <consumer>:label-dtype) and the vector must come back unchanged; a consumer may refuse (raise) only what /repo HEAD refuses - table HEAD_REFUSES: '
        'modularity_und / modularity_dir with kci as bool or strings, nothing else - counted under label-dtype-refused:*. non-trivial = at least two blocks and a relabelling that changes a label; '
        'distinct by hash of (function, matrix, labels)')
ASSUMES = ['weights are small dyadic rationals: the sums the model treats as exact are exact in binary64; quotients, sqrt and '
           'log are compared with relative tolerance 1e-9',
           'module_degree_zscore: the model yields (Koi - mean, variance) per node, the harness applies sqrt; '
           'partition_distance: the model yields the three histograms, the harness applies log exactly as '
           'Model/PartitionReal.v (partition_distanceR) does; diversity_coef_sign: the model yields the matrices pnm of the '
           'positive and negative part, the harness applies -sum(p log p)/log(m)',
           'gateway_coef_sign is modelled as the code is for both centrality types; for betweenness the vector '
           'betweenness_wei(invert(W)) (positive / negative part) is an oracle input of the model, recomputed by the harness with the same calls',
           'dummyvar / agreement: np.argsort(axis=0) is an oracle of the statement-level model (any sorting permutation), taken per block of '
           'columns exactly as agreement calls it; the scipy CSC constructor is modelled by its documented meaning',
           'partition_distance: the exactly-when and [0,1] clauses are judged exactly; a miss below 1e-12 is binary64 round-off (open finding '
           'partition_distance:VIn-roundoff), the repaired form (proposed_fixes/partition_distance_roundoff.diff, patched in memory) must meet them exactly',
           'the repaired form of gateway_coef_sign is compared with the source text of the function patched in memory with '
           'proposed_fixes/gateway_coef_sign.diff (skipped when the diff does not apply)',
           'np.histogram(c, bins=max(c)) of labels 1..K is the vector of label counts (checked by the correspondence)']
TRUSTED = ['C14_VIn_range_any_log / C14_VIn_range / C14_partition_distance_ln_* (real-valued entropies) depend on the standard-library axioms of Coq\'s real '
           'numbers (ClassicalDedekindReals.sig_forall_dec, sig_not_dec, FunctionalExtensionality.functional_extensionality_dep, '
           'Classical_Prop.classic through ln/exp); every other C14 theorem is closed under the global context',
           'gateway_coef_sign as the code is: C14_gateway_coef_sign_refuted / C14_gateway_coef_sign_betweenness_refuted (open findings '
           'gateway_coef_sign:relabel, gateway_coef_sign[betweenness]:relabel), the model reproduces the IndexError as None; '
           'betweenness_wei is outside the model (oracle vector)',
           'C14_und_sign_models_agree rests on C02 files Model/Modularity.v, Proofs/ModularitySums.v, Proofs/ModularityQ.v']

TOL = 1e-9


def enc_zb(x):
    """labels beyond OCaml's native int range go to the driver in binary (ocaml/common.ml: z_of_string)"""
    x = int(x)
    return str(x) if abs(x) < 2 ** 60 else ('-' if x < 0 else '') + '0b' + bin(abs(x))[2:]


def enc_qb(x):
    """exact rational of a float / Fraction; numerators or denominators beyond OCaml's native int go in binary"""
    f = F(x)
    a, b = f.numerator, f.denominator
    return enc_zb(a) if b == 1 else enc_zb(a) + '/' + enc_zb(b)


def close(a, b):
    a = np.asarray(a, dtype=float); b = np.asarray(b, dtype=float)
    return a.shape == b.shape and bool(np.allclose(a, b, rtol=TOL, atol=TOL, equal_nan=True))


# ---------------------------------------------------------------- partitions and relabellings
def set_partitions(n):
    """restricted growth strings: labels 1..K, first occurrence order"""
    def rec(i, cur, k):
        if i == n:
            yield list(cur); return
        for c in range(1, k + 2):
            cur.append(c)
            yield from rec(i + 1, cur, max(k, c))
            cur.pop()
    yield from rec(0, [], 0)


def relabellings(rng, K):
    """name -> list of K pairwise distinct integer labels for blocks 1..K"""
    perm = list(range(1, K + 1)); rng.shuffle(perm)
    pool = [-(2 ** 33), -1000, -7, -2, -1, 0, 1, 2, 3, 5, 8, 13, 100, 2 ** 31 + 5, 2 ** 40 + 1, 2 ** 40 + 2]
    mix = rng.sample(pool, K) if K <= len(pool) else list(range(K))
    return {
        'zero': list(range(K)),
        'neg': [-(K - b) for b in range(K)],
        'neg-rev': [-(b + 1) for b in range(K)],
        'gaps': [3 + 7 * b * b for b in range(K)],
        'large': [2 ** 40 + 3 * b for b in range(K)],
        'huge': [2 ** 62 + b for b in range(K)] if K % 2 else [-(2 ** 62) - 5 * b for b in range(K)],   # adjacent int64 near the ends of the range: a detour through float would merge them
        'perm': perm,
        'mix': mix,
    }


def blocks_of(ci):
    d = {}
    for i, c in enumerate(ci):
        d.setdefault(c, []).append(i)
    return sorted(d.values())


def same_partition(a, b):
    return blocks_of(list(a)) == blocks_of(list(b))


# ---------------------------------------------------------------- matrices
VALS = [F(1), F(2), F(3), F(1, 2), F(3, 2), F(1, 4)]


def rand_W(r, n, kind, diag=False):
    W = rand_W0(r, n, kind)
    if diag:
        # self-connections: every consumer is called with a non-zero diagonal as well
        for i in range(n):
            if r.rand() < 0.7:
                v = VALS[int(r.randint(0, len(VALS)))]
                W[i][i] = -v if (kind == 'sign' and r.rand() < 0.4) else v
    return W


def rand_W0(r, n, kind):
    dens = float(r.choice([0.3, 0.6, 0.9, 1.0]))
    kv = int(r.randint(1, len(VALS) + 1))
    W = [[F(0)] * n for _ in range(n)]
    for i in range(n):
        for j in range(n):
            if i == j or (kind != 'dir' and j < i):
                continue
            if r.rand() < dens:
                v = VALS[int(r.randint(0, kv))]
                if kind == 'sign' and r.rand() < 0.4:
                    v = -v
                W[i][j] = v
                if kind != 'dir':
                    W[j][i] = v
    if n > 2 and r.rand() < 0.15:
        v = int(r.randint(0, n))
        for u in range(n):
            W[u][v] = W[v][u] = F(0)
    return W


def npm(W):
    n = len(W)
    return np.array([[float(x) for x in row] for row in W], dtype=float).reshape(n, n)


def sW(W):
    return [[str(x) for x in row] for row in W]


# ---------------------------------------------------------------- independent formulas (exact / float)
def o_participation(W, ci, transpose=False):
    n = len(W)
    if transpose:
        W = [[W[j][i] for j in range(n)] for i in range(n)]
    out = []
    for i in range(n):
        k = sum(W[i], F(0))
        if k == 0:
            out.append(0.0); continue
        per = {}
        for j in range(n):
            per[ci[j]] = per.get(ci[j], F(0)) + W[i][j]
        out.append(float(1 - sum(v * v for v in per.values()) / (k * k)))
    return out


def o_zscore(W, ci, flag):
    n = len(W)
    if flag == 2:
        W = [[W[j][i] for j in range(n)] for i in range(n)]
    elif flag == 3:
        W = [[W[i][j] + W[j][i] for j in range(n)] for i in range(n)]
    Z = [0.0] * n
    for blk in blocks_of(ci):
        k = {i: sum((W[i][j] for j in blk), F(0)) for i in blk}
        mean = sum(k.values(), F(0)) / len(blk)
        var = sum(((k[i] - mean) ** 2 for i in blk), F(0)) / len(blk)
        for i in blk:
            Z[i] = 0.0 if var == 0 else float(k[i] - mean) / math.sqrt(var)
    return Z


def o_mod_und(A, ci, gamma):
    n = len(A)
    k = [sum(A[i][j] for i in range(n)) for j in range(n)]
    m = sum(k)
    return float(sum(A[i][j] - gamma * k[i] * k[j] / m for i in range(n) for j in range(n) if ci[i] == ci[j]) / m)


def o_mod_dir(A, ci, gamma):
    n = len(A)
    ki = [sum(A[i][j] for i in range(n)) for j in range(n)]
    ko = [sum(A[i][j] for j in range(n)) for i in range(n)]
    m = sum(ki)
    return float(sum(A[i][j] - gamma * ko[i] * ki[j] / m for i in range(n) for j in range(n) if ci[i] == ci[j]) / m)


def o_mod_sign(W, ci, qt):
    n = len(W)
    W0 = [[max(x, 0) for x in row] for row in W]; W1 = [[max(-x, 0) for x in row] for row in W]
    s0 = sum(map(sum, W0)); s1 = sum(map(sum, W1))
    def part(Wx, s):
        if s == 0:
            return F(0)
        k = [sum(Wx[i]) for i in range(n)]
        return sum(Wx[i][j] - k[i] * k[j] / s for i in range(n) for j in range(n) if ci[i] == ci[j])
    Q0, Q1 = part(W0, s0), part(W1, s1)
    d0 = {'smp': lambda: F(1) / s0, 'gja': lambda: F(1) / (s0 + s1), 'sta': lambda: F(1) / s0, 'pos': lambda: F(1) / s0, 'neg': lambda: F(0)}
    d1 = {'smp': lambda: F(1) / s1, 'gja': lambda: F(1) / (s0 + s1), 'sta': lambda: F(1) / (s0 + s1), 'pos': lambda: F(0), 'neg': lambda: F(1) / s1}
    a = d0[qt]() if s0 else F(0)
    b = d1[qt]() if s1 else F(0)
    return float(a * Q0 - b * Q1)


def o_entropy(ci):
    n = len(ci)
    return -sum(c / n * math.log(c / n) for c in Counter(ci).values())


def o_pdist(cx, cy):
    n = len(cx)
    Hx, Hy, Hxy = o_entropy(list(cx)), o_entropy(list(cy)), o_entropy(list(zip(cx, cy)))
    vin = (2 * Hxy - Hx - Hy) / math.log(n) if n > 1 else float('nan')
    mi = 2 * (Hx + Hy - Hxy) / (Hx + Hy) if Hx + Hy > 0 else float('nan')
    return vin, mi


def o_diversity(W, ci):
    n = len(W)
    blocks = blocks_of(ci)
    m = len(blocks)
    def ent(Wx):
        out = []
        for i in range(n):
            S = sum(Wx[i])
            h = 0.0
            for blk in blocks:
                s = sum(Wx[i][j] for j in blk)
                if S != 0 and s != 0:
                    p = float(F(s) / S)
                    h -= p * math.log(p)
            out.append(h / math.log(m) if m > 1 else float('nan'))
        return out
    W0 = [[max(x, 0) for x in row] for row in W]; W1 = [[max(-x, 0) for x in row] for row in W]
    return ent(W0), ent(W1)


def repaired_gateway(bct, fname='gateway_coef_sign', diff_file='gateway_coef_sign.diff'):
    """bct.<fname> with proposed_fixes/<diff_file> applied to its source text (None if it does not apply)"""
    import inspect, os, sys
    try:
        fobj = getattr(bct, fname)
        fobj = getattr(fobj, '__wrapped__', fobj)
        src = inspect.getsource(fobj)
        root = os.path.dirname(os.path.dirname(os.path.abspath(__file__)))
        diff = open(os.path.join(root, 'proposed_fixes', diff_file)).read().split('\n')
        blocks, minus, plus = [], [], []
        for ln in diff:
            if ln.startswith('---') or ln.startswith('+++'):
                continue
            if ln.startswith('-'):
                if plus:
                    blocks.append((minus, plus)); minus, plus = [], []
                minus.append(ln[1:])
            elif ln.startswith('+'):
                plus.append(ln[1:])
            elif minus or plus:
                blocks.append((minus, plus)); minus, plus = [], []
        if minus or plus:
            blocks.append((minus, plus))
        if not blocks:
            return None
        for m, pl in blocks:
            old, new = '\n'.join(m), '\n'.join(pl)
            if not m or src.count(old) != 1:
                return None
            src = src.replace(old, new)
        src = src[src.index('def ' + fname):]
        ns = dict(vars(sys.modules[fobj.__module__]))
        exec(compile(src, '<%s repaired>' % fname, 'exec'), ns)
        return ns[fname]
    except Exception:
        return None


# ---------------------------------------------------------------- label vectors in other storage types
# What /repo HEAD (903f1ee) does with a label vector that is not an integer array, probed per consumer: modularity_und / modularity_dir
# with a given partition raise on a boolean kci (TypeError) and on string / bytes labels (UFuncTypeError / TypeError) - `ci += 1` style
# arithmetic on the caller's labels; EVERY other (consumer, storage type) pair below returns the value of the same partition written
# with int64 labels 1..K.  A consumer may refuse (raise) only what is listed here; whatever it returns must be that value.
NON_NUMERIC = ('bool', 'bool-inverted', 'str', 'str-list', 'object-str', 'bytes')
HEAD_REFUSES = {'modularity_und': NON_NUMERIC, 'modularity_dir': NON_NUMERIC}
STR_POOL = ['L', 'R', 'dmn', 'vis', 'Z9', 'a', 'bb', 'c c', 'left', 'right', '10', '9']
U8_POOL = [255, 0, 254, 128, 1, 127, 200, 17]


def canon(ci):
    first = {}
    return [first.setdefault(x, len(first) + 1) for x in ci]


def label_dtypes(base, rng, two_d=False):
    """name -> the partition `base` (labels 1..K) as a label vector of another storage type: boolean mask (K <= 2, both polarities),
    small integers at the top of their range (uint8 255-K+1..255, int8, uint16: `+ 1` on the caller's dtype wraps), uint8 in a
    non-monotone assignment, uint64 beyond 2^63, unicode / bytes / object strings, Python ints in an object array"""
    b = [int(x) for x in base]
    K = max(b)
    out = {}
    if K <= 2:
        out['bool'] = np.array([x == 2 for x in b], dtype=bool)
        out['bool-inverted'] = np.array([x == 1 for x in b], dtype=bool)
    if K <= 200:
        out['uint8-hi'] = np.array([255 - K + x for x in b], dtype=np.uint8)
        out['int8-hi'] = np.array([127 - K + x for x in b], dtype=np.int8)
    if K <= 60000:
        out['uint16-hi'] = np.array([65535 - K + x for x in b], dtype=np.uint16)
    out['uint64'] = np.array([2 ** 63 + 5 * x for x in b], dtype=np.uint64)
    if K <= len(U8_POOL):
        u8 = rng.sample(U8_POOL, K)
        out['uint8-mix'] = np.array([u8[x - 1] for x in b], dtype=np.uint8)
    if K <= len(STR_POOL):
        st = rng.sample(STR_POOL, K)
        out['str'] = np.array([st[x - 1] for x in b])
        out['object-str'] = np.array([st[x - 1] for x in b], dtype=object)
        out['bytes'] = np.array([st[x - 1].encode() for x in b])
        if not two_d:
            out['str-list'] = [st[x - 1] for x in b]
    out['object-int'] = np.array([7 * x - 3 for x in b], dtype=object)
    return out


def pick_dtypes(dts, rng, k):
    rest = sorted(d for d in dts if not d.startswith('bool'))
    return [d for d in ('bool', 'bool-inverted') if d in dts] + rng.sample(rest, min(k, len(rest)))


def as_given(alt):
    return [str(x) for x in (alt if isinstance(alt, list) else np.asarray(alt).ravel().tolist())]


ZI_ROT = [0]


# ---------------------------------------------------------------- the check
def run(ctx):
    import bct
    r = ctx.nprng
    lines, pend = [], []
    slow = {}          # function -> number of timeouts; after 2 the function is not called any more (keeps the check fast)
    gw_fixed = repaired_gateway(bct)
    ctx.count('gateway_coef_sign_repaired:' + ('available' if gw_fixed is not None else 'patch-does-not-apply'))
    pd_fixed = repaired_gateway(bct, 'partition_distance', 'partition_distance_roundoff.diff')
    ctx.count('partition_distance_repaired:' + ('available' if pd_fixed is not None else 'patch-does-not-apply'))

    def model(line, kind, case, impl):
        lines.append(line); pend.append((kind, case, impl))

    def consumers(base, W, Wd, Ws, tag):
        """all consumers on one partition (labels 1..K restricted growth) under every relabelling"""
        n = len(base)
        K = max(base)
        A, Ad, As = npm(W), npm(Wd), npm(Ws)
        rel = relabellings(ctx.rng, K)
        variants = [('base', list(base))] + [(nm, [lab[c - 1] for c in base]) for nm, lab in rel.items()]
        gamma = F(int(r.choice([1, 2, 4])), 2)
        qt = ['sta', 'pos', 'smp', 'gja', 'neg'][int(r.randint(0, 5))]
        flag = int(r.randint(0, 4))
        fns = [
            ('participation_coef', lambda c: bct.participation_coef(A, c), lambda c: o_participation(W, c)),
            ('participation_coef:in', lambda c: bct.participation_coef(Ad, c, 'in'), lambda c: o_participation(Wd, c, True)),
            ('participation_coef:out', lambda c: bct.participation_coef(Ad, c, 'out'), lambda c: o_participation(Wd, c)),
            ('participation_coef_sign', lambda c: bct.participation_coef_sign(As, c),
             lambda c: (o_participation([[max(x, 0) for x in row] for row in Ws], c), o_participation([[max(-x, 0) for x in row] for row in Ws], c))),
            ('module_degree_zscore', lambda c: bct.module_degree_zscore(Ad if flag else A, c, flag), lambda c: o_zscore(Wd if flag else W, c, flag)),
            ('modularity_und', lambda c: bct.modularity_und(A, float(gamma), kci=c)[1], lambda c: o_mod_und(W, c, gamma)),
            ('modularity_dir', lambda c: bct.modularity_dir(Ad, float(gamma), kci=c)[1], lambda c: o_mod_dir(Wd, c, gamma)),
            ('modularity_und_sign', lambda c: bct.modularity_und_sign(As, c, qt)[1], lambda c: o_mod_sign(Ws, c, qt)),
            ('diversity_coef_sign', lambda c: bct.diversity_coef_sign(As, c), lambda c: o_diversity(Ws, c)),
        ]
        has_edge = {'participation_coef': True, 'modularity_und': any(any(row) for row in W),
                    'modularity_dir': any(any(row) for row in Wd)}
        for fname, f, orc in fns:
            if fname in ('modularity_und', 'modularity_dir') and not has_edge[fname]:
                continue
            key0 = fname.split(':')[0]
            ref, ref_v = None, []
            for nm, labels in variants:
                c = np.array(labels, dtype=np.int64)
                c0 = c.copy()
                case = {'fn': fname, 'W': sW(Ws if 'sign' in fname else (Wd if ('dir' in fname or ':' in fname or (fname == 'module_degree_zscore' and flag)) else W)),
                        'ci': [int(x) for x in labels], 'relabelling': nm, 'base': list(base)}
                if fname == 'module_degree_zscore':
                    case['flag'] = flag
                if fname.startswith('modularity_'):
                    case['gamma'] = str(gamma); case['qtype'] = qt
                ctx.case(case, nontrivial=(K >= 2 and nm != 'base'))
                ctx.count('%s:%s' % (key0, nm)); ctx.count('n=%d' % n); ctx.count('blocks=%d' % K)
                if slow.get(fname, 0) >= 2:
                    continue
                try:
                    out = call(f, c, _t=3.0)
                except Timeout:
                    slow[fname] = slow.get(fname, 0) + 1
                    ctx.fail(key0 + ':relabel', 'no result within 3 s under the relabelling %s (running time depends on label values)' % nm, case); continue
                except Exception as e:
                    ctx.fail(key0 + ':raises', 'raised %r' % (e,), case); continue
                ctx.check(np.array_equal(c, c0), key0 + ':pure', 'the label vector was modified in place', case)
                # input-representation layer: the relabelled call is compared with the base call, and the model runs later -> the case
                # carries the representation(s) the two calls ran on
                tie_variants(case)
                if nm != 'base' and ref_v:
                    case['_input_variant'] = list(case.get('_input_variant') or []) + ref_v
                if nm == 'base':
                    ref = out
                    ref_v = list(case.get('_input_variant') or [])
                    # the same labels in another container: Python list, float64, int32
                    an = ctx.rng.choice(['list', 'float64', 'int32'])
                    alt = [int(x) for x in labels] if an == 'list' else np.array(labels, dtype=float if an == 'float64' else np.int32)
                    ctx.count('label-container:' + an)
                    try:
                        with no_variants():          # this block is about the dtype / container of the label vector itself
                            out_alt = call(f, alt, _t=3.0)
                        ctx.check(close(out_alt, out), key0 + ':label-container', 'result differs when the labels come as %s: %s vs %s' % (an, tolist(out_alt), tolist(out)), dict(case, container=an))
                    except Exception as e:
                        ctx.fail(key0 + ':label-container', 'raised %r when the labels come as %s' % (e, an), dict(case, container=an))
                    # the label vector as a 2-D array (1 x N, N x 1): a consumer may refuse it, but must not return another value
                    for shp, nm2 in ((((1, -1), '1xN'), ((-1, 1), 'Nx1')) if ctx.rng.random() < 0.25 else ()):
                        try:
                            with no_variants():
                                out_2d = call(f, np.array(labels, dtype=np.int64).reshape(shp), _t=3.0)
                        except Exception:
                            ctx.count('label-layout-refused:%s:%s' % (key0, nm2)); continue
                        ctx.count('label-layout-accepted:%s:%s' % (key0, nm2))
                        ok2 = close(np.ravel(np.asarray(out_2d, dtype=float)), np.ravel(np.asarray(out, dtype=float))) if not isinstance(out, tuple) else \
                            (isinstance(out_2d, tuple) and len(out_2d) == len(out) and all(close(np.ravel(np.asarray(x, dtype=float)), np.ravel(np.asarray(y, dtype=float))) for x, y in zip(out_2d, out)))
                        ctx.check(ok2, key0 + ':label-container', 'result differs when the labels come as a %s array: %s vs %s' % (nm2, tolist(out_2d), tolist(out)), dict(case, container=nm2))
                    # the label vector in another STORAGE TYPE (boolean mask, small unsigned / signed integers at the top of their range,
                    # uint64, strings, object arrays): the value of the partition; only what HEAD refuses may be refused (HEAD_REFUSES)
                    dts = label_dtypes(labels, ctx.rng)
                    for dn in pick_dtypes(dts, ctx.rng, 3):
                        alt = dts[dn]
                        alt0 = list(alt) if isinstance(alt, list) else alt.copy()
                        dcase = dict(case, label_dtype=dn, ci_as_given=as_given(alt))
                        ctx.count('label-dtype:' + dn)
                        try:
                            with no_variants():
                                out_dt = call(f, alt, _t=3.0)
                        except Exception as e:
                            if dn in HEAD_REFUSES.get(key0, ()):
                                ctx.count('label-dtype-refused:%s:%s' % (key0, dn))
                            else:
                                ctx.fail(key0 + ':label-dtype', 'raised %r when the labels come as %s %s (accepted at HEAD; the same partition as int64 1..K gives %s)'
                                         % (e, dn, dcase['ci_as_given'], tolist(out)), dcase)
                            continue
                        if dn in HEAD_REFUSES.get(key0, ()):
                            ctx.count('label-dtype-accepted-beyond-HEAD:%s:%s' % (key0, dn))
                        ctx.check(close(out_dt, out), key0 + ':label-dtype', 'the same partition with labels stored as %s %s gives %s, with int64 labels 1..K %s'
                                  % (dn, dcase['ci_as_given'], tolist(out_dt), tolist(out)), dcase)
                        same = (alt == alt0) if isinstance(alt, list) else (alt.dtype == alt0.dtype and np.array_equal(alt, alt0))
                        ctx.check(same, key0 + ':pure', 'the label vector (%s) was modified in place' % dn, dcase)
                    want = orc(labels)
                    if fname == 'diversity_coef_sign' and K == 1:
                        pass            # log(1) = 0 in the denominator: undefined for a single module
                    else:
                        ctx.check(close(out, want), key0 + ':formula', 'differs from the independent partition-only formula: got %s want %s' % (tolist(out), want), case)
                    # hand the base case to the Coq model
                    if fname == 'participation_coef':
                        model('pc %s %s 0' % (enc_mat(W, enc_q), enc_list(labels, enc_zb)), 'vecq', case, out)
                    elif fname == 'participation_coef:in':
                        model('pc %s %s 1' % (enc_mat(Wd, enc_q), enc_list(labels, enc_zb)), 'vecq', case, out)
                    elif fname == 'participation_coef_sign':
                        model('pcs %s %s' % (enc_mat(Ws, enc_q), enc_list(labels, enc_zb)), 'pairvecq', case, out)
                    elif fname == 'module_degree_zscore':
                        model('mdz %s %s %d' % (enc_mat(Wd if flag else W, enc_q), enc_list(labels, enc_zb), flag), 'mdz', case, out)
                    elif fname == 'modularity_und':
                        model('mod 0 %s %s %s' % (enc_mat(W, enc_q), enc_q(gamma), enc_list(labels, enc_zb)), 'q', case, out)
                    elif fname == 'modularity_dir':
                        model('mod 1 %s %s %s' % (enc_mat(Wd, enc_q), enc_q(gamma), enc_list(labels, enc_zb)), 'q', case, out)
                    elif fname == 'modularity_und_sign':
                        model('mus %s %s %d' % (enc_mat(Ws, enc_q), enc_list(labels, enc_zb), ['sta', 'pos', 'smp', 'gja', 'neg'].index(qt)), 'q', case, out)
                    elif fname == 'diversity_coef_sign':
                        model('dcs %s %s' % (enc_mat(Ws, enc_q), enc_list(labels, enc_zb)), 'dcs', case, out)
                else:
                    ctx.check(ref is None or close(out, ref), key0 + ':relabel',
                              'result changes under the injective relabelling %s: %s vs %s' % (nm, tolist(out), tolist(ref)), case)
                    # a slice of the relabelled cases also goes through the model (it must canonicalise the same way)
                    if fname == 'participation_coef' and nm in ('perm', 'mix', 'large', 'huge'):
                        model('pc %s %s 0' % (enc_mat(W, enc_q), enc_list(labels, enc_zb)), 'vecq', case, out)
                    elif fname == 'module_degree_zscore' and nm in ('perm', 'neg'):
                        model('mdz %s %s %d' % (enc_mat(Wd if flag else W, enc_q), enc_list(labels, enc_zb), flag), 'mdz', case, out)
                    elif fname == 'modularity_und' and nm in ('zero', 'mix'):
                        model('mod 0 %s %s %s' % (enc_mat(W, enc_q), enc_q(gamma), enc_list(labels, enc_zb)), 'q', case, out)
                    elif fname == 'diversity_coef_sign' and nm in ('perm', 'neg', 'large'):
                        model('dcs %s %s' % (enc_mat(Ws, enc_q), enc_list(labels, enc_zb)), 'dcs', case, out)
                    elif fname == 'modularity_und_sign' and nm in ('perm', 'gaps'):
                        model('mus %s %s %d' % (enc_mat(Ws, enc_q), enc_list(labels, enc_zb), ['sta', 'pos', 'smp', 'gja', 'neg'].index(qt)), 'q', case, out)
        # gateway_coef_sign: known open finding (depends on label order / IndexError). The Coq model mirrors the code AS IT
        # IS (None <-> IndexError), every variant goes through it; the repaired form (proposed_fixes) is modelled as well
        # and compared with the source text patched in memory.
        Wg = [row[:] for row in Ws]
        if r.rand() < 0.3:
            for d in range(n):
                Wg[d][d] = VALS[int(r.randint(0, len(VALS)))] * int(r.choice([-1, 1]))      # the routine clears the diagonal
        Ag = npm(Wg)
        # 'betweenness': cent = betweenness_wei(invert(W)) is an external kernel: the harness computes the two vectors (positive /
        # negative part) with the same calls and hands them to the model (Model/PartitionGWB.v) as oracle input
        Az = Ag.copy(); np.fill_diagonal(Az, 0)
        cent_b = None
        for cm in ('degree', 'betweenness'):
            gkey = 'gateway_coef_sign' if cm == 'degree' else 'gateway_coef_sign[betweenness]'
            picked = ('base', 'neg-rev', 'perm', 'mix', 'huge')
            if cm == 'betweenness':
                try:
                    with np.errstate(all='ignore'):
                        cent_b = [[F(float(x)) for x in call(bct.betweenness_wei, bct.invert(Mx))] for Mx in (Az * (Az > 0), -Az * (Az < 0))]
                except Exception as e:
                    ctx.fail('gateway_coef_sign[betweenness]:raises', 'betweenness_wei(invert(W)) raised %r' % (e,), {'fn': 'gateway_coef_sign', 'W': sW(Wg), 'centrality': cm}); continue
            ref = None; ref_r = None; gref_v = []
            for nm, labels in variants:
                if cm == 'betweenness' and not (ctx.thorough or nm in picked):
                    continue
                c = np.array(labels, dtype=np.int64)
                case = {'fn': 'gateway_coef_sign', 'W': sW(Wg), 'ci': [int(x) for x in labels], 'relabelling': nm, 'centrality': cm}
                ctx.case(case, nontrivial=(K >= 2 and nm != 'base'))
                ctx.count('%s:%s' % (gkey, nm))
                A0 = Ag.copy()
                try:
                    with np.errstate(all='ignore'):
                        out = call(bct.gateway_coef_sign, A0, c, cm)
                except IndexError as e:
                    out = None
                    ctx.fail(gkey + ':relabel', 'raised %r' % (e,), case)
                except Exception as e:
                    ctx.fail(gkey + ':raises', 'raised %r' % (e,), case); continue
                ctx.check(np.array_equal(A0, Ag), gkey + ':pure', 'the matrix was modified in place', case)
                tie_variants(case)
                if nm == 'base':
                    gref_v = list(case.get('_input_variant') or [])
                elif gref_v:
                    case['_input_variant'] = list(case.get('_input_variant') or []) + gref_v
                # monotone renamings give the same canonical labels: in the quick tier only those that can change the block
                # order (and one huge) go through the model
                if ctx.thorough or nm in picked:
                    if cm == 'degree':
                        model('gw %s %s' % (enc_mat(Wg, enc_q), enc_list(labels, enc_zb)), 'gw', case, None if out is None else [tolist(out[0]), tolist(out[1])])
                    else:
                        model('gwb %s %s %s %s' % (enc_mat(Wg, enc_q), enc_list(labels, enc_zb), enc_list(cent_b[0], enc_qb), enc_list(cent_b[1], enc_qb)),
                              'gw', case, None if out is None else [tolist(out[0]), tolist(out[1])])
                if nm == 'base':
                    ref = out
                elif ref is not None and out is not None:
                    ctx.check(close(out, ref), gkey + ':relabel', 'result changes under the relabelling %s' % nm, case)
                if gw_fixed is not None and (ctx.thorough or nm in picked):
                    rkey = 'gateway_coef_sign_repaired' if cm == 'degree' else 'gateway_coef_sign_repaired[betweenness]'
                    case_r = dict(case, fn='gateway_coef_sign_repaired')
                    try:
                        with np.errstate(all='ignore'):
                            out_r = call(gw_fixed, Ag.copy(), c, cm)
                    except Exception as e:
                        ctx.fail(rkey + ':raises', 'the repaired form raised %r' % (e,), case_r); continue
                    if nm == 'base':
                        ref_r = out_r
                        if cm == 'degree':
                            model('gwr %s %s' % (enc_mat(Wg, enc_q), enc_list(labels, enc_zb)), 'pairvecq', case_r, [tolist(out_r[0]), tolist(out_r[1])])
                    else:
                        ctx.check(ref_r is None or close(out_r, ref_r), rkey + ':relabel',
                                  'the repaired form changes under the relabelling %s' % nm, case_r)
                        if cm == 'degree' and nm in ('perm', 'mix'):
                            model('gwr %s %s' % (enc_mat(Wg, enc_q), enc_list(labels, enc_zb)), 'pairvecq', case_r, [tolist(out_r[0]), tolist(out_r[1])])
        # relabel itself and ci2ls / ls2ci
        for nm, labels in variants:
            c = np.array(labels, dtype=np.int64)
            case = {'fn': 'ci2ls', 'ci': [int(x) for x in labels], 'relabelling': nm}
            ctx.case(case, nontrivial=K >= 2)
            ls = bct.ci2ls(c.copy())
            ctx.check(sorted(map(sorted, ls)) == blocks_of(labels) and all(b == sorted(b) for b in ls), 'ci2ls:blocks', 'ci2ls does not list the blocks of the partition', case)
            back = bct.ls2ci(ls)
            ctx.check(same_partition(back, labels) and len(back) == n, 'ls2ci:inverse', 'ls2ci(ci2ls(ci)) is not ci up to renaming', case)
            back0 = bct.ls2ci(ls, zeroindexed=True)
            ctx.check(same_partition(back0, labels) and min(back0) == 0, 'ls2ci:inverse', 'ls2ci(zeroindexed=True) is not ci up to renaming starting at 0', case)
            ls2 = bct.ci2ls(np.array(back))
            ctx.check(ls2 == ls, 'ci2ls:inverse', 'ci2ls(ls2ci(ls)) differs from ls', case)
            inv = (np.unique(c, return_inverse=True)[1] + 1).tolist()
            model('relabel %s' % enc_list(labels, enc_zb), 'relabel', case, inv)
            model('ci2ls %s' % enc_list(labels, enc_zb), 'ci2ls', case, [[int(x) for x in b] for b in ls])
            model('ls2ci %s' % enc_mat(ls), 'ls2ci', case, [int(x) for x in back])
            model('ci2ls_run %s' % enc_list(labels, enc_zb), 'ci2ls', case, [[int(x) for x in b] for b in ls])
            model('ls2ci_run 1 %s' % enc_mat(ls), 'ls2ci', case, [int(x) for x in back0])
            # label containers / dtypes: the same labels as a Python list, as floats, as int32 (when they fit)
            alts = [('list', [int(x) for x in labels])]
            if all(abs(int(x)) < 2 ** 53 for x in labels):
                alts.append(('float64', np.array(labels, dtype=float)))
            if all(abs(int(x)) < 2 ** 31 for x in labels):
                alts.append(('int32', np.array(labels, dtype=np.int32)))
            for an, alt in alts:
                try:
                    with no_variants():
                        ls_alt = bct.ci2ls(alt)
                    ctx.check(ls_alt == ls, 'ci2ls:label-container', 'ci2ls differs when the labels come as %s' % an, dict(case, container=an))
                except Exception as e:
                    ctx.fail('ci2ls:label-container', 'raised %r when the labels come as %s' % (e, an), dict(case, container=an))
        # ls2ci on lists that are NOT ci2ls output: block order and the order inside the blocks shuffled, sometimes an
        # empty block; both values of zeroindexed.  Oracle: node y of block i gets i + z; ci2ls of the result lists the
        # non-empty blocks, each ascending, in the order given.
        for rep in range(2):
            sh = [list(b) for b in blocks_of(list(base))]
            ctx.rng.shuffle(sh)
            for b in sh:
                ctx.rng.shuffle(b)
            if rep == 1:
                sh.insert(ctx.rng.randrange(len(sh) + 1), [])
            for zi in (False, True):
                case = {'fn': 'ls2ci', 'ls': [list(b) for b in sh], 'zeroindexed': zi}
                ctx.case(case, nontrivial=len(sh) >= 2)
                ctx.count('ls2ci:%s' % ('empty-block' if rep else 'shuffled'))
                sh0 = [list(b) for b in sh]
                # the flag in rotating spellings of the same truth value (bool singleton, Python int, NumPy bool scalar)
                ZI_ROT[0] += 1
                zsp, zval = ([('False', False), ('0', 0), ('np.False_', np.False_)], [('True', True), ('1', 1), ('np.True_', np.True_)])[zi][ZI_ROT[0] % 3]
                case['zeroindexed_spelled'] = zsp; ctx.count('ls2ci:zeroindexed=' + zsp)
                try:
                    out = bct.ls2ci(sh, zeroindexed=zval)
                except Exception as e:
                    ctx.fail('ls2ci:raises', 'raised %r' % (e,), case); continue
                ctx.check(sh == sh0, 'ls2ci:pure', 'the list was modified', case)
                z = 0 if zi else 1
                ok = len(out) == n and all(int(out[y]) == i + z for i, b in enumerate(sh) for y in b)
                ctx.check(ok, 'ls2ci:formula', 'node y of block i does not get the label i + %d: %s' % (z, tolist(out)), case)
                try:
                    back_ls = bct.ci2ls(out)
                    ctx.check(back_ls == [sorted(b) for b in sh if b], 'ci2ls:inverse',
                              'ci2ls(ls2ci(ls)) is not ls with ascending blocks (empty blocks dropped): %s' % (back_ls,), case)
                    model('ci2ls_run %s' % enc_list([int(x) for x in out], enc_zb), 'ci2ls', case, [[int(x) for x in b] for b in back_ls])
                except Exception as e:
                    ctx.fail('ci2ls:raises', 'raised %r on the output of ls2ci' % (e,), case)
                model('ls2ci_run %d %s' % (1 if zi else 0, enc_mat(sh)), 'ls2ci', case, [int(x) for x in out])

    ULP = 1e-12        # |error| below this is binary64 round-off of a sum of a few logarithms (observed: 1.2e-16 .. 2.2e-16)

    def pd_exact(fun, key, cx, cy, case):
        """the clauses of the property text on one implementation of partition_distance, judged EXACTLY where the text says
        'exactly': same partition <=> VIn == 0 <=> MIn == 1, 0 <= VIn <= 1; a miss by round-off only goes to <key>:VIn-roundoff,
        a miss by more to the clause itself"""
        n = len(cx)
        try:
            vin, mi = call(fun, np.array(cx, dtype=np.int64), np.array(cy, dtype=np.int64))
        except Exception as e:
            ctx.fail(key + ':raises', 'raised %r' % (e,), case); return None
        vin, mi = float(vin), float(mi)
        same = same_partition(cx, cy)
        if n == 1 or (len(set(cx)) == 1 and len(set(cy)) == 1):
            return vin, mi
        if same:
            if not (vin == 0 and mi == 1):
                rough = abs(vin) < ULP and abs(mi - 1) < ULP
                ctx.fail(key + (':VIn-roundoff' if rough else ':zero-iff-same'),
                         'the partitions coincide up to renaming but (VIn, MIn) = (%r, %r), not (0, 1) exactly' % (vin, mi), case)
        else:
            ctx.check(vin > ULP, key + ':zero-iff-same', 'VIn=%r for different partitions' % vin, case)
            ctx.check(mi < 1 - ULP, key + ':one-iff-same', 'MIn=%r for different partitions' % mi, case)
        if not (0 <= vin <= 1):
            ctx.fail(key + (':VIn-roundoff' if -ULP < vin < 1 + ULP else ':range'), 'VIn=%r outside [0,1]' % vin, case)
        return vin, mi

    def pdist(cx, cy, tag, with_model=True):
        n = len(cx)
        case = {'fn': 'partition_distance', 'cx': [int(x) for x in cx], 'cy': [int(x) for x in cy]}
        ctx.case(case, nontrivial=len(set(cx)) > 1 or len(set(cy)) > 1)
        ctx.count('partition_distance:' + tag)
        ax, ay = np.array(cx, dtype=np.int64), np.array(cy, dtype=np.int64)
        try:
            vin, mi = call(bct.partition_distance, ax.copy(), ay.copy())
            vin2, mi2 = call(bct.partition_distance, ay.copy(), ax.copy())
        except Exception as e:
            ctx.fail('partition_distance:raises', 'raised %r' % (e,), case); return
        vin, mi, vin2, mi2 = float(vin), float(mi), float(vin2), float(mi2)
        ctx.check(close(vin, vin2) and close(mi, mi2), 'partition_distance:symmetric', 'not symmetric: (%r,%r) vs (%r,%r)' % (vin, mi, vin2, mi2), case)
        same = same_partition(cx, cy)
        trivial = n == 1 or (len(set(cx)) == 1 and len(set(cy)) == 1)
        if trivial:
            # H(X) + H(Y) = 0 (or log n = 0): the quotients would be 0/0; the partitions coincide (fix b5787bf)
            ctx.check(same and vin == 0 and mi == 1, 'partition_distance:trivial-partition',
                      'identical one-block partitions do not give (VIn, MIn) = (0, 1): got (%r, %r)' % (vin, mi), case)
        else:
            wv, wm = o_pdist(cx, cy)
            ctx.check(close(vin, wv) and close(mi, wm), 'partition_distance:formula', 'differs from the entropies of the block sizes: got (%r,%r) want (%r,%r)' % (vin, mi, wv, wm), case)
            # 'zero ... exactly when the two partitions coincide', 'lies in [0,1]': judged exactly (binary64 misses by one unit
            # in the last place: open finding partition_distance:VIn-roundoff); the repaired form must meet them exactly
            pd_exact(bct.partition_distance, 'partition_distance', cx, cy, case)
            if pd_fixed is not None:
                case_r = dict(case, fn='partition_distance_repaired')
                rr = pd_exact(pd_fixed, 'partition_distance_repaired', cx, cy, case_r)
                r2 = pd_exact(pd_fixed, 'partition_distance_repaired', cy, cx, case_r)
                if rr is not None and r2 is not None:
                    ctx.check(rr == r2, 'partition_distance_repaired:symmetric', 'the repaired form is not bit-for-bit symmetric: %r vs %r' % (rr, r2), case_r)
                    ctx.check(close(rr[0], vin) and close(rr[1], mi), 'partition_distance_repaired:formula', 'the repaired form moves the value: %r vs (%r, %r)' % (rr, vin, mi), case_r)
        # label containers: Python lists, float labels, int32
        if n >= 2 and ctx.rng.random() < 0.25:
            for an, conv in (('list', lambda v: [int(x) for x in v]), ('float64', lambda v: np.array(v, dtype=float)), ('int32', lambda v: np.array(v, dtype=np.int32))):
                if an != 'list' and any(abs(int(x)) >= 2 ** 31 for x in list(cx) + list(cy)):
                    continue
                try:
                    with no_variants():
                        alt = call(bct.partition_distance, conv(cx), conv(cy))
                    ctx.check(close(alt, (vin, mi)), 'partition_distance:label-container', 'result differs when the labels come as %s: %r' % (an, tolist(alt)), dict(case, container=an))
                except Exception as e:
                    ctx.fail('partition_distance:label-container', 'raised %r when the labels come as %s' % (e, an), dict(case, container=an))
        # storage types of the label vectors (boolean masks, small integers at the top of their range, uint64, strings, object arrays): both in
        # the same type, and one of them against int64
        if n >= 2 and ctx.rng.random() < 0.3:
            dx, dy = label_dtypes(canon(cx), ctx.rng), label_dtypes(canon(cy), ctx.rng)
            for dn in pick_dtypes(dx, ctx.rng, 3):
                for who, (gx, gy) in (('both', (dx[dn], dy.get(dn))), ('cx only', (dx[dn], ay.copy())), ('cy only', (ax.copy(), dy.get(dn)))):
                    if gx is None or gy is None:
                        continue
                    dcase = dict(case, label_dtype=dn, which=who, cx_as_given=as_given(gx), cy_as_given=as_given(gy))
                    ctx.count('partition_distance:label-dtype:' + dn)
                    try:
                        with no_variants():
                            alt = call(bct.partition_distance, gx, gy)
                        ctx.check(close([float(alt[0]), float(alt[1])], [vin, mi]), 'partition_distance:label-dtype',
                                  'labels stored as %s (%s): cx=%s cy=%s give %s, int64 labels give (%r, %r)' % (dn, who, dcase['cx_as_given'], dcase['cy_as_given'], tolist(alt), vin, mi), dcase)
                    except Exception as e:
                        ctx.fail('partition_distance:label-dtype', 'raised %r when the labels come as %s (%s); accepted at HEAD' % (e, dn, who), dcase)
        # layouts of the label vectors: N x 1 (as documented), 1 x N (what scipy.io.loadmat gives for a MATLAB row vector), 1-D.  The node
        # count is the number of LABELS and the two vectors are paired node by node, whatever their shapes: all nine layout pairs (1-D / 1-D is
        # the call above) must return the 1-D result.  Regression clause for /repo 903f1ee: before it N x 1 paired with 1-D / 1 x N was
        # broadcast into an N x N joint table (key partition_distance:mixed-layout: identical partitions gave (-1, 2))
        if n >= 2 and ctx.rng.random() < 0.2:
            lay = {'1-D': lambda v: np.array(v, dtype=np.int64), '1xN': lambda v: np.array(v, dtype=np.int64).reshape(1, -1),
                   'Nx1': lambda v: np.array(v, dtype=np.int64).reshape(-1, 1)}
            for la, lb in (('1xN', '1xN'), ('Nx1', 'Nx1'), ('1xN', '1-D'), ('1-D', '1xN'), ('Nx1', '1-D'), ('1-D', 'Nx1'), ('1xN', 'Nx1'), ('Nx1', '1xN')):
                lkey = 'partition_distance:mixed-layout' if (la == 'Nx1') != (lb == 'Nx1') else 'partition_distance:label-container'
                lcase = dict(case, layout=[la, lb])
                ctx.count('partition_distance:layout:%s,%s' % (la, lb))
                try:
                    with no_variants():
                        alt = call(bct.partition_distance, lay[la](cx), lay[lb](cy))
                    ok = np.shape(alt[0]) == () and np.shape(alt[1]) == () and close([float(alt[0]), float(alt[1])], [vin, mi])
                except Exception as e:
                    ctx.fail(lkey, 'raised %r when the labels come as %s / %s arrays' % (e, la, lb), lcase); continue
                ctx.check(ok, lkey, 'cx given as %s, cy as %s: (VIn, MIn) = %s, the same labels as 1-D vectors give (%r, %r)' % (la, lb, tolist(alt), vin, mi), lcase)
        if with_model:
            model('pd %s %s' % (enc_list(cx, enc_zb), enc_list(cy, enc_zb)), 'pd', case, (vin, mi, trivial))

    def argsort_cols(ci, chunks):
        """the argsort oracle of dummyvar, computed the way agreement calls it: per block of columns"""
        cols = []
        for a, b in chunks:
            ix = np.argsort(ci[:, a:b], axis=0)
            cols += [[int(x) for x in ix[:, t]] for t in range(b - a)]
        return cols

    def agree(cols, tag, buffs=()):
        n = len(cols[0]); m = len(cols)
        case = {'fn': 'agreement', 'partitions': [[int(x) for x in c] for c in cols]}
        ctx.case(case, nontrivial=any(len(set(c)) > 1 for c in cols))
        ctx.count('agreement:' + tag)
        ci = np.array(cols, dtype=np.int64).T
        try:
            D = call(bct.agreement, ci.copy())
        except Exception as e:
            ctx.fail('agreement:raises', 'raised %r' % (e,), case); return None
        want = [[0 if i == j else sum(1 for c in cols if c[i] == c[j]) for j in range(n)] for i in range(n)]
        ctx.check(np.array_equal(np.asarray(D), np.array(want).reshape(n, n)), 'agreement:formula', 'D[i,j] is not the number of partitions that put i and j together', case)
        # the stack in another storage type (every column the same partition as before): boolean (all columns <= 2 blocks), small integers at the
        # top of their range, uint64, strings, object arrays
        if ctx.rng.random() < 0.4:
            per = [label_dtypes(canon(c), ctx.rng, two_d=True) for c in cols]
            for dn in pick_dtypes({d: 1 for d in per[0] if all(d in q for q in per)}, ctx.rng, 3):
                cd = np.array([q[dn] for q in per]).T
                dcase = dict(case, label_dtype=dn, stack_as_given=[as_given(cd[:, t]) for t in range(m)])
                ctx.count('agreement:label-dtype:' + dn)
                try:
                    with no_variants():
                        Dd = call(bct.agreement, cd)
                    ctx.check(np.array_equal(np.asarray(Dd), np.asarray(D)), 'agreement:label-dtype', 'the stack stored as %s (%s) gives another matrix: %s vs %s'
                              % (dn, cd.dtype, tolist(Dd), tolist(D)), dcase)
                except Exception as e:
                    ctx.fail('agreement:label-dtype', 'raised %r when the stack comes as %s (%s); accepted at HEAD' % (e, dn, cd.dtype), dcase)
        # buffsz: 1, and values that split the stack unevenly (last block shorter), = m, > m
        bs = sorted(set([1] + [b for b in buffs if b >= 1])) if m >= 2 else []
        for B in bs:
            caseB = dict(case, buffsz=B)
            try:
                D2 = call(bct.agreement, ci.copy(), B)
            except Exception as e:
                ctx.fail('agreement:raises', 'raised %r with buffsz=%d' % (e, B), caseB); continue
            ctx.check(np.array_equal(np.asarray(D2), np.asarray(D)), 'agreement:buffsz', 'buffered evaluation (buffsz=%d) differs' % B, caseB)
            if B == 1 and m > 3 and not ctx.thorough:
                continue
            chunks = [(0, m)] if m <= B else [(a, min(a + B, m)) for a in range(0, m, B)]
            model('agree_stmt %d %s %s %d' % (n, enc_mat(cols, enc_zb), enc_mat(argsort_cols(ci, chunks)), B), 'agree', caseB, np.asarray(D2).tolist())
        model('agree %d %s' % (n, enc_mat(cols, enc_zb)), 'agree', case, np.asarray(D).tolist())
        # dummyvar itself: one 0/1 column per (partition, distinct label), partitions in order, labels ascending
        dcase = dict(case, fn='dummyvar')
        try:
            from bct.utils import dummyvar
            dv = np.asarray(call(dummyvar, ci.copy()))
            wantdv = []
            for i in range(n):
                row = []
                for c in cols:
                    u = sorted(set(c))
                    row += [1 if u[k] == c[i] else 0 for k in range(len(u))]
                wantdv.append(row)
            ctx.check(dv.shape == (n, len(wantdv[0])) and np.array_equal(dv, np.array(wantdv)), 'dummyvar:formula',
                      'dummyvar is not the indicator matrix of (partition, label): %s' % (tolist(dv),), dcase)
            ixs = argsort_cols(ci, [(0, m)])
            ctx.check(all(sorted(ix) == list(range(n)) and all(cols[p][ix[k]] <= cols[p][ix[k + 1]] for k in range(n - 1)) for p, ix in enumerate(ixs)),
                      'dummyvar:argsort-oracle', 'np.argsort(axis=0) did not return sorting permutations', dcase)
            model('dummyvar %d %s %s' % (n, enc_mat(cols, enc_zb), enc_mat(ixs)), 'dummyvar', dcase, dv.tolist())
        except Exception as e:
            ctx.fail('dummyvar:raises', 'raised %r' % (e,), dcase)
        return D

    # ---- corpus
    # witness of C14_gateway_coef_sign_refuted replayed on the implementation: one edge 0-1, blocks {0,1},{2}; the two
    # numberings of the blocks exchange the coefficients of nodes 0 and 1
    W3 = np.array([[0., 1., 0.], [1., 0., 0.], [0., 0., 0.]])
    wcase = {'fn': 'gateway_coef_sign', 'W': W3.tolist(), 'ci': [1, 1, 2], 'ci2': [2, 2, 1], 'witness_of': 'C14_gateway_coef_sign_refuted'}
    ctx.case(wcase, nontrivial=True)
    try:
        with np.errstate(all='ignore'):
            g1 = bct.gateway_coef_sign(W3.copy(), np.array([1, 1, 2]))[0]
            g2 = bct.gateway_coef_sign(W3.copy(), np.array([2, 2, 1]))[0]
        if not close(g1, g2):
            ctx.check(close(g1, [0.75, 0.4375, 0]) and close(g2, [0.4375, 0.75, 0]), 'gateway_coef_sign:witness',
                      'the implementation differs on the two labellings but not with the values of the Coq witness: %s %s' % (tolist(g1), tolist(g2)), wcase)
            ctx.fail('gateway_coef_sign:relabel', 'witness of C14_gateway_coef_sign_refuted reproduces: %s vs %s' % (tolist(g1), tolist(g2)), wcase)
    except Exception as e:
        ctx.fail('gateway_coef_sign:raises', 'raised %r on the witness' % (e,), wcase)
    # witness of C14_gateway_coef_sign_betweenness_refuted: 4-cycle with weights 1,3,1,2, blocks {0,1},{2,3}; the oracle vector
    # of the Coq witness is what betweenness_wei(invert(W)) returns
    W4 = np.array([[0., 1., 0., 2.], [1., 0., 3., 0.], [0., 3., 0., 1.], [2., 0., 1., 0.]])
    bcase = {'fn': 'gateway_coef_sign', 'W': W4.tolist(), 'ci': [1, 1, 2, 2], 'ci2': [2, 2, 1, 1], 'centrality': 'betweenness',
             'witness_of': 'C14_gateway_coef_sign_betweenness_refuted'}
    ctx.case(bcase, nontrivial=True)
    try:
        with np.errstate(all='ignore'):
            cb = bct.betweenness_wei(bct.invert(W4.copy()))
            g1 = bct.gateway_coef_sign(W4.copy(), np.array([1, 1, 2, 2]), 'betweenness')[0]
            g2 = bct.gateway_coef_sign(W4.copy(), np.array([2, 2, 1, 1]), 'betweenness')[0]
        ctx.check(np.array_equal(cb, [0, 2, 2, 0]), 'gateway_coef_sign[betweenness]:witness', 'betweenness_wei(invert(W)) is not the oracle vector [0,2,2,0] of the Coq witness: %s' % tolist(cb), bcase)
        if not close(g1, g2):
            ctx.check(close(g1, [380 / 441, 3 / 8, 151 / 196, 4 / 9]) and close(g2, [305 / 441, 3 / 8, 375 / 392, 4 / 9]), 'gateway_coef_sign[betweenness]:witness',
                      'the implementation differs on the two labellings but not with the values of the Coq witness: %s %s' % (tolist(g1), tolist(g2)), bcase)
            ctx.fail('gateway_coef_sign[betweenness]:relabel', 'witness of C14_gateway_coef_sign_betweenness_refuted reproduces: %s vs %s' % (tolist(g1), tolist(g2)), bcase)
    except Exception as e:
        ctx.fail('gateway_coef_sign[betweenness]:raises', 'raised %r on the witness' % (e,), bcase)
    pdist([1, 1, 1], [5, 5, 5], 'corpus')
    pdist([1, 2, 2, 3], [9, -4, -4, 0], 'corpus')
    # the same partition with permuted block order: binary64 gives VIn = -1.24e-16 (open finding partition_distance:VIn-roundoff);
    # one block against singletons, n = 5: VIn = 1.0000000000000002
    pdist([2, 2, 1, 2, 3, 4], [6, 6, 5, 6, 1, 3], 'corpus')
    pdist([1, 1, 1, 1, 1], [11, 12, 9, 10, 8], 'corpus')
    # many blocks (float bin edges of np.histogram, joint keys beyond 9)
    big = [int(x) for x in r.permutation(14)]
    pdist(big, [x // 2 for x in big], 'many-blocks')
    pdist([3 * x - 20 for x in big], [(x * 5) % 11 for x in big], 'many-blocks')
    # more than 1000 blocks (a joint key cx + 1000*cy instead of the complex key would merge blocks); direct oracle only
    sing = [int(x) for x in r.permutation(1100)]
    pdist(sing, [1 if x < 100 else 0 for x in sing], 'thousand-blocks', with_model=False)     # keys x + 1000 (x < 100) would meet 1000..1099
    # ci2ls / ls2ci: empty input, an index beyond the number of entries, a hand-made list with an empty block
    for nm_, fcall, line, want in [
            ('ls2ci([])', lambda: list(bct.ls2ci([])), 'ls2ci_run 0 0', []),
            ('ls2ci([], zeroindexed=True)', lambda: list(bct.ls2ci([], zeroindexed=True)), 'ls2ci_run 1 0', []),
            ('ls2ci(None)', lambda: list(bct.ls2ci(None)), None, []),
            ('ci2ls(np.array([]))', lambda: list(bct.ci2ls(np.array([]))), 'ci2ls_run 0', []),
            ('ci2ls([])', lambda: list(bct.ci2ls([])), 'ci2ls_run 0', []),
            ('ls2ci([[2,0],[],[1]])', lambda: [int(x) for x in bct.ls2ci([[2, 0], [], [1]])], 'ls2ci_run 0 ' + enc_mat([[2, 0], [], [1]]), [1, 3, 1]),
            ('ls2ci([[1],[0,2]], zeroindexed=True)', lambda: [int(x) for x in bct.ls2ci([[1], [0, 2]], zeroindexed=True)], 'ls2ci_run 1 ' + enc_mat([[1], [0, 2]]), [1, 0, 1]),
            ('ls2ci([[0,5]])', lambda: [int(x) for x in bct.ls2ci([[0, 5]])], 'ls2ci_run 0 ' + enc_mat([[0, 5]]), IndexError),
            ('ls2ci([[0],[3,1]])', lambda: [int(x) for x in bct.ls2ci([[0], [3, 1]])], 'ls2ci_run 0 ' + enc_mat([[0], [3, 1]]), IndexError)]:
        ecase = {'fn': nm_.split('(')[0], 'call': nm_}
        ctx.case(ecase, nontrivial=False); ctx.count('ls:edge-case')
        try:
            got = fcall()
        except IndexError:
            got = IndexError
        except Exception as e:
            ctx.fail(ecase['fn'] + ':raises', '%s raised %r' % (nm_, e), ecase); continue
        ctx.check(got == want, ecase['fn'] + ':edge-case', '%s gives %r, expected %r' % (nm_, got, 'IndexError' if want is IndexError else want), ecase)
        if line is not None:
            model(line, 'ls2ci' if nm_.startswith('ls2ci') else 'ci2ls', ecase, None if got is IndexError else got)
    # agreement: stacks that buffsz splits unevenly (7 = 3+3+1 = 2+2+2+1 = 5+2 = 4+3 ...), identical columns, one column
    for t in range(ctx.scale(6, 40)):
        n_ = int(r.randint(1, 7)); m_ = int(r.randint(2, 8))
        cols = [[int(x) for x in r.randint(-2, 3, size=n_)] for _ in range(m_)]
        if t % 3 == 0:
            cols[-1] = list(cols[0])
        agree(cols, 'chunks', buffs=sorted(set(int(x) for x in r.randint(2, m_ + 2, size=2)) | {m_ - 1, m_}))

    # ---- exhaustive partitions x relabellings
    nmax = ctx.scale(5, 6)
    reps = ctx.scale(1, 2)
    for n in range(1, nmax + 1):
        for base in set_partitions(n):
            for _ in range(reps if n >= 4 else 1):
                dg = bool(r.rand() < (0.3 if n > 1 else 0.5))
                ctx.count('diagonal:' + ('non-zero' if dg else 'zero'))
                W, Wd, Ws = rand_W(r, n, 'und', dg), rand_W(r, n, 'dir', dg), rand_W(r, n, 'sign', dg)
                consumers(base, W, Wd, Ws, 'exhaustive')
            # agreement: this partition stacked with random others, relabelled per column
            K = max(base)
            others = [[int(x) for x in r.randint(1, 4, size=n)] for _ in range(int(r.randint(0, 4)))]
            cols = [list(base)] + others
            D1 = agree(cols, 'exhaustive', buffs=(2, len(cols) - 1))
            cols2 = []
            for c in cols:
                kk = max(c)
                lab = relabellings(ctx.rng, kk)[ctx.rng.choice(['zero', 'neg', 'gaps', 'large', 'huge', 'perm', 'mix'])]
                cols2.append([lab[x - 1] for x in c])
            D2 = agree(cols2, 'relabelled')
            if D1 is not None and D2 is not None:
                ctx.check(np.array_equal(np.asarray(D1), np.asarray(D2)), 'agreement:relabel', 'agreement changes under per-partition relabelling',
                          {'fn': 'agreement', 'partitions': cols, 'relabelled': cols2})
    # ---- partition_distance: all pairs of partitions for small n, relabelled
    npd = ctx.scale(4, 5)
    for n in range(1, npd + 1):
        parts = list(set_partitions(n))
        for a in parts:
            for b in parts:
                pdist(a, b, 'all-pairs')
                ka, kb = max(a), max(b)
                la = relabellings(ctx.rng, ka)[ctx.rng.choice(['zero', 'neg', 'gaps', 'large', 'huge', 'perm', 'mix'])]
                lb = relabellings(ctx.rng, kb)[ctx.rng.choice(['zero', 'neg', 'gaps', 'large', 'huge', 'perm', 'mix'])]
                a2, b2 = [la[x - 1] for x in a], [lb[x - 1] for x in b]
                if n >= 3 or ctx.thorough:
                    pdist(a2, b2, 'all-pairs-relabelled')
                    if not (n == 1 or (ka == 1 and kb == 1)):
                        ctx.check(close(bct.partition_distance(np.array(a), np.array(b)), bct.partition_distance(np.array(a2), np.array(b2))),
                                  'partition_distance:relabel', 'result changes under relabelling', {'fn': 'partition_distance', 'cx': a, 'cy': b, 'cx2': a2, 'cy2': b2})
    # ---- random tier
    for t in range(ctx.scale(30, 400)):
        n = int(r.randint(6, 10))
        K = int(r.randint(1, min(n, 5) + 1))
        raw = [int(x) for x in r.randint(0, K, size=n)]
        first = {}
        base = [first.setdefault(x, len(first) + 1) for x in raw]
        dg = bool(r.rand() < 0.3)
        ctx.count('diagonal:' + ('non-zero' if dg else 'zero'))
        consumers(base, rand_W(r, n, 'und', dg), rand_W(r, n, 'dir', dg), rand_W(r, n, 'sign', dg), 'random')
        raw2 = [int(x) for x in r.randint(-2, 3, size=n)]
        pdist(base, raw2, 'random')
        # a refinement / coarsening pair and an identical-up-to-renaming pair
        coarse = [(x + 1) // 2 for x in base]
        pdist(base, coarse, 'refinement')
        pdist(base, [100 - 3 * x for x in base], 'renamed')
        agree([base, raw2, coarse][:int(r.randint(1, 4))], 'random', buffs=(2,))

    # ---------------- correspondence: extracted Coq model on the same inputs
    res = run_model(ID, lines)
    ctx.model_cases = len(lines)
    for (kind, case, impl), m in zip(pend, res):
        fn = case['fn'].split(':')[0]
        if is_err(m):
            ctx.mismatch('model-error', m['error'], case); continue
        if kind == 'vecq':
            mv = [float(dec_q(x)) for x in m]
            if not close(mv, impl):
                ctx.mismatch(fn, 'model and implementation differ', case, mv, impl)
        elif kind == 'pairvecq':
            mv = [[float(dec_q(x)) for x in part] for part in m]
            if not (close(mv[0], impl[0]) and close(mv[1], impl[1])):
                ctx.mismatch(fn, 'model and implementation differ', case, mv, impl)
        elif kind == 'dcs':
            ok = True; mvs = []
            for part, imp in zip(m, impl):
                P = [[dec_q(x) for x in row] for row in part]
                mcols = len(P[0]) if P else 0
                if mcols <= 1:
                    # a single module: log(m) = 0 in the denominator, the code returns nan (0/0)
                    ok = ok and bool(np.all(np.isnan(np.asarray(imp, dtype=float)))) and all(x == 1 for row in P for x in row)
                    mvs.append('nan'); continue
                mv = [-sum(float(x) * math.log(float(x)) for x in row) / math.log(mcols) for row in P]
                mvs.append(mv)
                ok = ok and all(x > 0 for row in P for x in row) and close(mv, imp)
            if not ok:
                ctx.mismatch(fn, 'model pnm matrices do not reproduce the implementation', case, mvs, tolist(impl))
        elif kind == 'gw':
            if case.get('centrality') == 'betweenness':
                fn = fn + '[betweenness]'
            if m is None or impl is None:
                if not (m is None and impl is None):
                    ctx.mismatch(fn, 'model and implementation disagree on IndexError', case, m, impl)
                continue
            mv = [[float(dec_q(x)) for x in part] for part in m]
            if not (close(mv[0], impl[0]) and close(mv[1], impl[1])):
                ctx.mismatch(fn, 'model and implementation differ', case, mv, impl)
        elif kind == 'mdz':
            mv = []
            for a, v in m:
                a, v = dec_q(a), dec_q(v)
                mv.append(0.0 if v == 0 else float(a) / math.sqrt(v))
            if not close(mv, impl):
                ctx.mismatch(fn, 'model and implementation differ', case, mv, impl)
        elif kind == 'q':
            mv = float(dec_q(m))
            if not close(mv, impl):
                ctx.mismatch(fn, 'model and implementation differ', case, mv, impl)
        elif kind in ('relabel', 'ci2ls', 'ls2ci'):
            if m != impl:
                ctx.mismatch(kind, 'model and implementation differ', case, m, impl)
        elif kind == 'dummyvar':
            mv = [[int(dec_q(x)) for x in row] for row in m[0]]
            R, nptr = m[1]
            cols_impl = len(impl[0]) if impl else 0
            if not (mv == impl and R == cols_impl and nptr == R + 1):
                ctx.mismatch('dummyvar', 'model (argsort oracle from the run) and implementation differ', case, [mv, R, nptr], impl)
        elif kind == 'agree':
            mv = [[float(dec_q(x)) for x in row] for row in m]
            if not np.array_equal(np.array(mv), np.array(impl, dtype=float)):
                ctx.mismatch(fn, 'model and implementation differ', case, mv, impl)
        elif kind == 'pd':
            vin, mi, trivial = impl
            if m[0] != trivial:
                ctx.mismatch(fn, 'model and harness disagree on the early-return branch', case, m[0], trivial); continue
            if trivial:
                if not (vin == 0 and mi == 1):
                    ctx.mismatch(fn, 'model returns (0, 1) on the early-return branch', case, [0, 1], [vin, mi])
                continue
            n = len(case['cx'])
            hs = [[dec_q(x) for x in h] for h in m[1:]]
            H = [-sum(float(c / n) * math.log(float(c / n)) for c in h) for h in hs]
            ok = all(sum(h) == n and all(c > 0 for c in h) for h in hs)
            mvin = (2 * H[2] - H[0] - H[1]) / math.log(n)
            mmi = 2 * (H[0] + H[1] - H[2]) / (H[0] + H[1])
            if not (ok and close(mvin, vin) and close(mmi, mi)):
                ctx.mismatch(fn, 'model histograms do not reproduce the implementation', case, [mvin, mmi, tolist(hs)], [vin, mi])
