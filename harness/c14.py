"""C14 — partition-consuming functions depend on the partition, not on label values."""
import itertools, math
from collections import Counter
from fractions import Fraction as F
import numpy as np
from common import *

ID = 'C14'
COQ_FILES = ['Base/Mat.v', 'Base/SumQ.v', 'Base/ListX.v', 'Model/Partition.v', 'Model/PartitionReal.v', 'Model/PartitionDG.v',
             'Proofs/Partition.v', 'Proofs/PartitionJoint.v', 'Proofs/PartitionVI.v', 'Proofs/PartitionDG.v',
             'Proofs/PartitionGW.v', 'Properties/C14.v']
THEOREMS = ['C14_relabel_injective_invariant', 'C14_relabel_canonical', 'C14_relabel_onto', 'C14_injective_same_part',
            'C14_participation_coef_partition_only', 'C14_participation_coef_formula',
            'C14_participation_coef_sign_partition_only', 'C14_module_degree_zscore_partition_only',
            'C14_module_degree_zscore_invariant', 'C14_modularity_und_partition_only',
            'C14_modularity_dir_partition_only', 'C14_modularity_und_sign_partition_only',
            'C14_agreement_counts', 'C14_agreement_partition_only', 'C14_partition_distance_symmetric',
            'C14_partition_distance_partition_only', 'C14_partition_distance_same', 'C14_VIn_nonneg',
            'C14_VIn_zero_same', 'C14_MIn_one_same', 'C14_partition_distance_exactly_when', 'C14_VIn_range_any_log', 'C14_VIn_range',
            'C14_partition_distance_ln_symmetric', 'C14_partition_distance_ln_partition_only',
            'C14_partition_distance_ln_same', 'C14_partition_distance_ln_exactly_when', 'C14_ci2ls_ls2ci_inverse',
            'C14_ci2ls_blocks', 'C14_diversity_coef_sign_partition_only', 'C14_gateway_coef_sign_refuted',
            'C14_gateway_coef_sign_statement_false', 'C14_gateway_witness_values',
            'C14_gateway_coef_sign_repaired_partition_only']
RULE = ('every set partition of n<=5 nodes (n<=6 thorough), written with restricted-growth labels 1..K, x the relabellings '
        '{zero-based, negative, gaps, large (2^40+), huge (adjacent int64 at +-2^62), permuted block order, random injective mix} x random matrices with small '
        'dyadic weights (undirected weighted / directed / signed, several densities, isolated nodes); pairs of partitions '
        '(all pairs n<=4, n<=5 thorough; random pairs beyond) for partition_distance; stacks of 1-4 partitions for agreement; '
        'random partitions of n<=9. non-trivial = at least two blocks and a relabelling that changes a label; '
        'distinct by hash of (function, matrix, labels)')
ASSUMES = ['weights are small dyadic rationals: the sums the model treats as exact are exact in binary64; quotients, sqrt and '
           'log are compared with relative tolerance 1e-9',
           'module_degree_zscore: the model yields (Koi - mean, variance) per node, the harness applies sqrt; '
           'partition_distance: the model yields the three histograms, the harness applies log exactly as '
           'Model/PartitionReal.v (partition_distanceR) does; diversity_coef_sign: the model yields the matrices pnm of the '
           'positive and negative part, the harness applies -sum(p log p)/log(m)',
           'gateway_coef_sign is modelled for centrality_type = degree (the default); the betweenness variant is not modelled',
           'the repaired form of gateway_coef_sign is compared with the source text of the function patched in memory with '
           'proposed_fixes/gateway_coef_sign.diff (skipped when the diff does not apply)',
           'np.histogram(c, bins=max(c)) of labels 1..K is the vector of label counts (checked by the correspondence)']
TRUSTED = ['C14_VIn_range_any_log / C14_VIn_range / C14_partition_distance_ln_* (real-valued entropies) depend on the standard-library axioms of Coq\'s real '
           'numbers (ClassicalDedekindReals.sig_forall_dec, sig_not_dec, FunctionalExtensionality.functional_extensionality_dep, '
           'Classical_Prop.classic through ln/exp); every other C14 theorem is closed under the global context',
           'gateway_coef_sign as the code is: C14_gateway_coef_sign_refuted (open finding gateway_coef_sign:relabel), the model '
           'reproduces the IndexError as None']

TOL = 1e-9


def enc_zb(x):
    """labels beyond OCaml's native int range go to the driver in binary (ocaml/common.ml: z_of_string)"""
    x = int(x)
    return str(x) if abs(x) < 2 ** 60 else ('-' if x < 0 else '') + '0b' + bin(abs(x))[2:]


def close(a, b):
    a = np.asarray(a, dtype=float); b = np.asarray(b, dtype=float)
    return a.shape == b.shape and bool(np.allclose(a, b, rtol=TOL, atol=TOL, equal_nan=True))


# ---------------------------------------------------------------- partitions and relabellings
def set_partitions(n):
    """restricted growth strings: labels 1..K, first occurrence order"""
    def rec(i, cur, k):
        if i == n:
            yield list(cur); return
        for c in range(1, k + 2):
            cur.append(c)
            yield from rec(i + 1, cur, max(k, c))
            cur.pop()
    yield from rec(0, [], 0)


def relabellings(rng, K):
    """name -> list of K pairwise distinct integer labels for blocks 1..K"""
    perm = list(range(1, K + 1)); rng.shuffle(perm)
    pool = [-(2 ** 33), -1000, -7, -2, -1, 0, 1, 2, 3, 5, 8, 13, 100, 2 ** 31 + 5, 2 ** 40 + 1, 2 ** 40 + 2]
    mix = rng.sample(pool, K) if K <= len(pool) else list(range(K))
    return {
        'zero': list(range(K)),
        'neg': [-(K - b) for b in range(K)],
        'neg-rev': [-(b + 1) for b in range(K)],
        'gaps': [3 + 7 * b * b for b in range(K)],
        'large': [2 ** 40 + 3 * b for b in range(K)],
        'huge': [2 ** 62 + b for b in range(K)] if K % 2 else [-(2 ** 62) - 5 * b for b in range(K)],   # adjacent int64 near the ends of the range: a detour through float would merge them
        'perm': perm,
        'mix': mix,
    }


def blocks_of(ci):
    d = {}
    for i, c in enumerate(ci):
        d.setdefault(c, []).append(i)
    return sorted(d.values())


def same_partition(a, b):
    return blocks_of(list(a)) == blocks_of(list(b))


# ---------------------------------------------------------------- matrices
VALS = [F(1), F(2), F(3), F(1, 2), F(3, 2), F(1, 4)]


def rand_W(r, n, kind):
    dens = float(r.choice([0.3, 0.6, 0.9, 1.0]))
    kv = int(r.randint(1, len(VALS) + 1))
    W = [[F(0)] * n for _ in range(n)]
    for i in range(n):
        for j in range(n):
            if i == j or (kind != 'dir' and j < i):
                continue
            if r.rand() < dens:
                v = VALS[int(r.randint(0, kv))]
                if kind == 'sign' and r.rand() < 0.4:
                    v = -v
                W[i][j] = v
                if kind != 'dir':
                    W[j][i] = v
    if n > 2 and r.rand() < 0.15:
        v = int(r.randint(0, n))
        for u in range(n):
            W[u][v] = W[v][u] = F(0)
    return W


def npm(W):
    n = len(W)
    return np.array([[float(x) for x in row] for row in W], dtype=float).reshape(n, n)


def sW(W):
    return [[str(x) for x in row] for row in W]


# ---------------------------------------------------------------- independent formulas (exact / float)
def o_participation(W, ci, transpose=False):
    n = len(W)
    if transpose:
        W = [[W[j][i] for j in range(n)] for i in range(n)]
    out = []
    for i in range(n):
        k = sum(W[i], F(0))
        if k == 0:
            out.append(0.0); continue
        per = {}
        for j in range(n):
            per[ci[j]] = per.get(ci[j], F(0)) + W[i][j]
        out.append(float(1 - sum(v * v for v in per.values()) / (k * k)))
    return out


def o_zscore(W, ci, flag):
    n = len(W)
    if flag == 2:
        W = [[W[j][i] for j in range(n)] for i in range(n)]
    elif flag == 3:
        W = [[W[i][j] + W[j][i] for j in range(n)] for i in range(n)]
    Z = [0.0] * n
    for blk in blocks_of(ci):
        k = {i: sum((W[i][j] for j in blk), F(0)) for i in blk}
        mean = sum(k.values(), F(0)) / len(blk)
        var = sum(((k[i] - mean) ** 2 for i in blk), F(0)) / len(blk)
        for i in blk:
            Z[i] = 0.0 if var == 0 else float(k[i] - mean) / math.sqrt(var)
    return Z


def o_mod_und(A, ci, gamma):
    n = len(A)
    k = [sum(A[i][j] for i in range(n)) for j in range(n)]
    m = sum(k)
    return float(sum(A[i][j] - gamma * k[i] * k[j] / m for i in range(n) for j in range(n) if ci[i] == ci[j]) / m)


def o_mod_dir(A, ci, gamma):
    n = len(A)
    ki = [sum(A[i][j] for i in range(n)) for j in range(n)]
    ko = [sum(A[i][j] for j in range(n)) for i in range(n)]
    m = sum(ki)
    return float(sum(A[i][j] - gamma * ko[i] * ki[j] / m for i in range(n) for j in range(n) if ci[i] == ci[j]) / m)


def o_mod_sign(W, ci, qt):
    n = len(W)
    W0 = [[max(x, 0) for x in row] for row in W]; W1 = [[max(-x, 0) for x in row] for row in W]
    s0 = sum(map(sum, W0)); s1 = sum(map(sum, W1))
    def part(Wx, s):
        if s == 0:
            return F(0)
        k = [sum(Wx[i]) for i in range(n)]
        return sum(Wx[i][j] - k[i] * k[j] / s for i in range(n) for j in range(n) if ci[i] == ci[j])
    Q0, Q1 = part(W0, s0), part(W1, s1)
    d0 = {'smp': lambda: F(1) / s0, 'gja': lambda: F(1) / (s0 + s1), 'sta': lambda: F(1) / s0, 'pos': lambda: F(1) / s0, 'neg': lambda: F(0)}
    d1 = {'smp': lambda: F(1) / s1, 'gja': lambda: F(1) / (s0 + s1), 'sta': lambda: F(1) / (s0 + s1), 'pos': lambda: F(0), 'neg': lambda: F(1) / s1}
    a = d0[qt]() if s0 else F(0)
    b = d1[qt]() if s1 else F(0)
    return float(a * Q0 - b * Q1)


def o_entropy(ci):
    n = len(ci)
    return -sum(c / n * math.log(c / n) for c in Counter(ci).values())


def o_pdist(cx, cy):
    n = len(cx)
    Hx, Hy, Hxy = o_entropy(list(cx)), o_entropy(list(cy)), o_entropy(list(zip(cx, cy)))
    vin = (2 * Hxy - Hx - Hy) / math.log(n) if n > 1 else float('nan')
    mi = 2 * (Hx + Hy - Hxy) / (Hx + Hy) if Hx + Hy > 0 else float('nan')
    return vin, mi


def o_diversity(W, ci):
    n = len(W)
    blocks = blocks_of(ci)
    m = len(blocks)
    def ent(Wx):
        out = []
        for i in range(n):
            S = sum(Wx[i])
            h = 0.0
            for blk in blocks:
                s = sum(Wx[i][j] for j in blk)
                if S != 0 and s != 0:
                    p = float(F(s) / S)
                    h -= p * math.log(p)
            out.append(h / math.log(m) if m > 1 else float('nan'))
        return out
    W0 = [[max(x, 0) for x in row] for row in W]; W1 = [[max(-x, 0) for x in row] for row in W]
    return ent(W0), ent(W1)


def repaired_gateway(bct):
    """gateway_coef_sign with proposed_fixes/gateway_coef_sign.diff applied to its source text (None if it does not apply)"""
    import inspect, os, sys
    try:
        src = inspect.getsource(bct.gateway_coef_sign)
        root = os.path.dirname(os.path.dirname(os.path.abspath(__file__)))
        diff = open(os.path.join(root, 'proposed_fixes', 'gateway_coef_sign.diff')).read().split('\n')
        blocks, minus, plus = [], [], []
        for ln in diff:
            if ln.startswith('---') or ln.startswith('+++'):
                continue
            if ln.startswith('-'):
                if plus:
                    blocks.append((minus, plus)); minus, plus = [], []
                minus.append(ln[1:])
            elif ln.startswith('+'):
                plus.append(ln[1:])
            elif minus or plus:
                blocks.append((minus, plus)); minus, plus = [], []
        if minus or plus:
            blocks.append((minus, plus))
        if not blocks:
            return None
        for m, pl in blocks:
            old, new = '\n'.join(m), '\n'.join(pl)
            if not m or src.count(old) != 1:
                return None
            src = src.replace(old, new)
        src = src[src.index('def gateway_coef_sign'):]
        ns = dict(vars(sys.modules[bct.gateway_coef_sign.__module__]))
        exec(compile(src, '<gateway_coef_sign repaired>', 'exec'), ns)
        return ns['gateway_coef_sign']
    except Exception:
        return None


# ---------------------------------------------------------------- the check
def run(ctx):
    import bct
    r = ctx.nprng
    lines, pend = [], []
    slow = {}          # function -> number of timeouts; after 2 the function is not called any more (keeps the check fast)
    gw_fixed = repaired_gateway(bct)
    ctx.count('gateway_coef_sign_repaired:' + ('available' if gw_fixed is not None else 'patch-does-not-apply'))

    def model(line, kind, case, impl):
        lines.append(line); pend.append((kind, case, impl))

    def consumers(base, W, Wd, Ws, tag):
        """all consumers on one partition (labels 1..K restricted growth) under every relabelling"""
        n = len(base)
        K = max(base)
        A, Ad, As = npm(W), npm(Wd), npm(Ws)
        rel = relabellings(ctx.rng, K)
        variants = [('base', list(base))] + [(nm, [lab[c - 1] for c in base]) for nm, lab in rel.items()]
        gamma = F(int(r.choice([1, 2, 4])), 2)
        qt = ['sta', 'pos', 'smp', 'gja', 'neg'][int(r.randint(0, 5))]
        flag = int(r.randint(0, 4))
        fns = [
            ('participation_coef', lambda c: bct.participation_coef(A, c), lambda c: o_participation(W, c)),
            ('participation_coef:in', lambda c: bct.participation_coef(Ad, c, 'in'), lambda c: o_participation(Wd, c, True)),
            ('participation_coef:out', lambda c: bct.participation_coef(Ad, c, 'out'), lambda c: o_participation(Wd, c)),
            ('participation_coef_sign', lambda c: bct.participation_coef_sign(As, c),
             lambda c: (o_participation([[max(x, 0) for x in row] for row in Ws], c), o_participation([[max(-x, 0) for x in row] for row in Ws], c))),
            ('module_degree_zscore', lambda c: bct.module_degree_zscore(Ad if flag else A, c, flag), lambda c: o_zscore(Wd if flag else W, c, flag)),
            ('modularity_und', lambda c: bct.modularity_und(A, float(gamma), kci=c)[1], lambda c: o_mod_und(W, c, gamma)),
            ('modularity_dir', lambda c: bct.modularity_dir(Ad, float(gamma), kci=c)[1], lambda c: o_mod_dir(Wd, c, gamma)),
            ('modularity_und_sign', lambda c: bct.modularity_und_sign(As, c, qt)[1], lambda c: o_mod_sign(Ws, c, qt)),
            ('diversity_coef_sign', lambda c: bct.diversity_coef_sign(As, c), lambda c: o_diversity(Ws, c)),
        ]
        has_edge = {'participation_coef': True, 'modularity_und': any(any(row) for row in W),
                    'modularity_dir': any(any(row) for row in Wd)}
        for fname, f, orc in fns:
            if fname in ('modularity_und', 'modularity_dir') and not has_edge[fname]:
                continue
            key0 = fname.split(':')[0]
            ref, ref_v = None, []
            for nm, labels in variants:
                c = np.array(labels, dtype=np.int64)
                c0 = c.copy()
                case = {'fn': fname, 'W': sW(Ws if 'sign' in fname else (Wd if ('dir' in fname or ':' in fname or (fname == 'module_degree_zscore' and flag)) else W)),
                        'ci': [int(x) for x in labels], 'relabelling': nm, 'base': list(base)}
                if fname == 'module_degree_zscore':
                    case['flag'] = flag
                if fname.startswith('modularity_'):
                    case['gamma'] = str(gamma); case['qtype'] = qt
                ctx.case(case, nontrivial=(K >= 2 and nm != 'base'))
                ctx.count('%s:%s' % (key0, nm)); ctx.count('n=%d' % n); ctx.count('blocks=%d' % K)
                if slow.get(fname, 0) >= 2:
                    continue
                try:
                    out = call(f, c, _t=3.0)
                except Timeout:
                    slow[fname] = slow.get(fname, 0) + 1
                    ctx.fail(key0 + ':relabel', 'no result within 3 s under the relabelling %s (running time depends on label values)' % nm, case); continue
                except Exception as e:
                    ctx.fail(key0 + ':raises', 'raised %r' % (e,), case); continue
                ctx.check(np.array_equal(c, c0), key0 + ':pure', 'the label vector was modified in place', case)
                # input-representation layer: the relabelled call is compared with the base call, and the model runs later -> the case
                # carries the representation(s) the two calls ran on
                tie_variants(case)
                if nm != 'base' and ref_v:
                    case['_input_variant'] = list(case.get('_input_variant') or []) + ref_v
                if nm == 'base':
                    ref = out
                    ref_v = list(case.get('_input_variant') or [])
                    want = orc(labels)
                    if fname == 'diversity_coef_sign' and K == 1:
                        pass            # log(1) = 0 in the denominator: undefined for a single module
                    else:
                        ctx.check(close(out, want), key0 + ':formula', 'differs from the independent partition-only formula: got %s want %s' % (tolist(out), want), case)
                    # hand the base case to the Coq model
                    if fname == 'participation_coef':
                        model('pc %s %s 0' % (enc_mat(W, enc_q), enc_list(labels, enc_zb)), 'vecq', case, out)
                    elif fname == 'participation_coef:in':
                        model('pc %s %s 1' % (enc_mat(Wd, enc_q), enc_list(labels, enc_zb)), 'vecq', case, out)
                    elif fname == 'participation_coef_sign':
                        model('pcs %s %s' % (enc_mat(Ws, enc_q), enc_list(labels, enc_zb)), 'pairvecq', case, out)
                    elif fname == 'module_degree_zscore':
                        model('mdz %s %s %d' % (enc_mat(Wd if flag else W, enc_q), enc_list(labels, enc_zb), flag), 'mdz', case, out)
                    elif fname == 'modularity_und':
                        model('mod 0 %s %s %s' % (enc_mat(W, enc_q), enc_q(gamma), enc_list(labels, enc_zb)), 'q', case, out)
                    elif fname == 'modularity_dir':
                        model('mod 1 %s %s %s' % (enc_mat(Wd, enc_q), enc_q(gamma), enc_list(labels, enc_zb)), 'q', case, out)
                    elif fname == 'modularity_und_sign':
                        model('mus %s %s %d' % (enc_mat(Ws, enc_q), enc_list(labels, enc_zb), ['sta', 'pos', 'smp', 'gja', 'neg'].index(qt)), 'q', case, out)
                    elif fname == 'diversity_coef_sign':
                        model('dcs %s %s' % (enc_mat(Ws, enc_q), enc_list(labels, enc_zb)), 'dcs', case, out)
                else:
                    ctx.check(ref is None or close(out, ref), key0 + ':relabel',
                              'result changes under the injective relabelling %s: %s vs %s' % (nm, tolist(out), tolist(ref)), case)
                    # a slice of the relabelled cases also goes through the model (it must canonicalise the same way)
                    if fname == 'participation_coef' and nm in ('perm', 'mix', 'large', 'huge'):
                        model('pc %s %s 0' % (enc_mat(W, enc_q), enc_list(labels, enc_zb)), 'vecq', case, out)
                    elif fname == 'module_degree_zscore' and nm in ('perm', 'neg'):
                        model('mdz %s %s %d' % (enc_mat(Wd if flag else W, enc_q), enc_list(labels, enc_zb), flag), 'mdz', case, out)
                    elif fname == 'modularity_und' and nm in ('zero', 'mix'):
                        model('mod 0 %s %s %s' % (enc_mat(W, enc_q), enc_q(gamma), enc_list(labels, enc_zb)), 'q', case, out)
                    elif fname == 'diversity_coef_sign' and nm in ('perm', 'neg', 'large'):
                        model('dcs %s %s' % (enc_mat(Ws, enc_q), enc_list(labels, enc_zb)), 'dcs', case, out)
                    elif fname == 'modularity_und_sign' and nm in ('perm', 'gaps'):
                        model('mus %s %s %d' % (enc_mat(Ws, enc_q), enc_list(labels, enc_zb), ['sta', 'pos', 'smp', 'gja', 'neg'].index(qt)), 'q', case, out)
        # gateway_coef_sign: known open finding (depends on label order / IndexError). The Coq model mirrors the code AS IT
        # IS (None <-> IndexError), every variant goes through it; the repaired form (proposed_fixes) is modelled as well
        # and compared with the source text patched in memory.
        Wg = [row[:] for row in Ws]
        if r.rand() < 0.3:
            for d in range(n):
                Wg[d][d] = VALS[int(r.randint(0, len(VALS)))] * int(r.choice([-1, 1]))      # the routine clears the diagonal
        Ag = npm(Wg)
        for cm in ('degree',):
            ref = None; ref_r = None; gref_v = []
            for nm, labels in variants:
                c = np.array(labels, dtype=np.int64)
                case = {'fn': 'gateway_coef_sign', 'W': sW(Wg), 'ci': [int(x) for x in labels], 'relabelling': nm, 'centrality': cm}
                ctx.case(case, nontrivial=(K >= 2 and nm != 'base'))
                ctx.count('gateway_coef_sign:%s' % nm)
                A0 = Ag.copy()
                try:
                    with np.errstate(all='ignore'):
                        out = call(bct.gateway_coef_sign, A0, c, cm)
                except IndexError as e:
                    out = None
                    ctx.fail('gateway_coef_sign:relabel', 'raised %r' % (e,), case)
                except Exception as e:
                    ctx.fail('gateway_coef_sign:raises', 'raised %r' % (e,), case); continue
                ctx.check(np.array_equal(A0, Ag), 'gateway_coef_sign:pure', 'the matrix was modified in place', case)
                tie_variants(case)
                if nm == 'base':
                    gref_v = list(case.get('_input_variant') or [])
                elif gref_v:
                    case['_input_variant'] = list(case.get('_input_variant') or []) + gref_v
                # monotone renamings give the same canonical labels: in the quick tier only those that can change the block
                # order (and one huge) go through the model
                if ctx.thorough or nm in ('base', 'neg-rev', 'perm', 'mix', 'huge'):
                    model('gw %s %s' % (enc_mat(Wg, enc_q), enc_list(labels, enc_zb)), 'gw', case, None if out is None else [tolist(out[0]), tolist(out[1])])
                if nm == 'base':
                    ref = out
                elif ref is not None and out is not None:
                    ctx.check(close(out, ref), 'gateway_coef_sign:relabel', 'result changes under the relabelling %s' % nm, case)
                if gw_fixed is not None and (ctx.thorough or nm in ('base', 'neg-rev', 'perm', 'mix', 'huge')):
                    case_r = dict(case, fn='gateway_coef_sign_repaired')
                    try:
                        with np.errstate(all='ignore'):
                            out_r = call(gw_fixed, Ag.copy(), c, cm)
                    except Exception as e:
                        ctx.fail('gateway_coef_sign_repaired:raises', 'the repaired form raised %r' % (e,), case_r); continue
                    if nm == 'base':
                        ref_r = out_r
                        model('gwr %s %s' % (enc_mat(Wg, enc_q), enc_list(labels, enc_zb)), 'pairvecq', case_r, [tolist(out_r[0]), tolist(out_r[1])])
                    else:
                        ctx.check(ref_r is None or close(out_r, ref_r), 'gateway_coef_sign_repaired:relabel',
                                  'the repaired form changes under the relabelling %s' % nm, case_r)
                        if nm in ('perm', 'mix'):
                            model('gwr %s %s' % (enc_mat(Wg, enc_q), enc_list(labels, enc_zb)), 'pairvecq', case_r, [tolist(out_r[0]), tolist(out_r[1])])
        # relabel itself and ci2ls / ls2ci
        for nm, labels in variants:
            c = np.array(labels, dtype=np.int64)
            case = {'fn': 'ci2ls', 'ci': [int(x) for x in labels], 'relabelling': nm}
            ctx.case(case, nontrivial=K >= 2)
            ls = bct.ci2ls(c.copy())
            ctx.check(sorted(map(sorted, ls)) == blocks_of(labels) and all(b == sorted(b) for b in ls), 'ci2ls:blocks', 'ci2ls does not list the blocks of the partition', case)
            back = bct.ls2ci(ls)
            ctx.check(same_partition(back, labels) and len(back) == n, 'ls2ci:inverse', 'ls2ci(ci2ls(ci)) is not ci up to renaming', case)
            back0 = bct.ls2ci(ls, zeroindexed=True)
            ctx.check(same_partition(back0, labels) and min(back0) == 0, 'ls2ci:inverse', 'ls2ci(zeroindexed=True) is not ci up to renaming starting at 0', case)
            ls2 = bct.ci2ls(np.array(back))
            ctx.check(ls2 == ls, 'ci2ls:inverse', 'ci2ls(ls2ci(ls)) differs from ls', case)
            inv = (np.unique(c, return_inverse=True)[1] + 1).tolist()
            model('relabel %s' % enc_list(labels, enc_zb), 'relabel', case, inv)
            model('ci2ls %s' % enc_list(labels, enc_zb), 'ci2ls', case, [[int(x) for x in b] for b in ls])
            model('ls2ci %s' % enc_mat(ls), 'ls2ci', case, [int(x) for x in back])

    def pdist(cx, cy, tag):
        n = len(cx)
        case = {'fn': 'partition_distance', 'cx': [int(x) for x in cx], 'cy': [int(x) for x in cy]}
        ctx.case(case, nontrivial=len(set(cx)) > 1 or len(set(cy)) > 1)
        ctx.count('partition_distance:' + tag)
        ax, ay = np.array(cx, dtype=np.int64), np.array(cy, dtype=np.int64)
        try:
            vin, mi = call(bct.partition_distance, ax.copy(), ay.copy())
            vin2, mi2 = call(bct.partition_distance, ay.copy(), ax.copy())
        except Exception as e:
            ctx.fail('partition_distance:raises', 'raised %r' % (e,), case); return
        vin, mi, vin2, mi2 = float(vin), float(mi), float(vin2), float(mi2)
        ctx.check(close(vin, vin2) and close(mi, mi2), 'partition_distance:symmetric', 'not symmetric: (%r,%r) vs (%r,%r)' % (vin, mi, vin2, mi2), case)
        same = same_partition(cx, cy)
        trivial = n == 1 or (len(set(cx)) == 1 and len(set(cy)) == 1)
        if trivial:
            # H(X) + H(Y) = 0 (or log n = 0): the quotients would be 0/0; the partitions coincide (fix b5787bf)
            ctx.check(same and vin == 0 and mi == 1, 'partition_distance:trivial-partition',
                      'identical one-block partitions do not give (VIn, MIn) = (0, 1): got (%r, %r)' % (vin, mi), case)
        else:
            wv, wm = o_pdist(cx, cy)
            ctx.check(close(vin, wv) and close(mi, wm), 'partition_distance:formula', 'differs from the entropies of the block sizes: got (%r,%r) want (%r,%r)' % (vin, mi, wv, wm), case)
            ctx.check(-1e-12 <= vin <= 1 + 1e-12, 'partition_distance:range', 'VIn=%r outside [0,1]' % vin, case)
            ctx.check((abs(vin) < 1e-12) == same, 'partition_distance:zero-iff-same', 'VIn=%r but same partition=%s' % (vin, same), case)
            ctx.check((abs(mi - 1) < 1e-12) == same, 'partition_distance:one-iff-same', 'MIn=%r but same partition=%s' % (mi, same), case)
        model('pd %s %s' % (enc_list(cx, enc_zb), enc_list(cy, enc_zb)), 'pd', case, (vin, mi, trivial))

    def agree(cols, tag):
        n = len(cols[0])
        case = {'fn': 'agreement', 'partitions': [[int(x) for x in c] for c in cols]}
        ctx.case(case, nontrivial=any(len(set(c)) > 1 for c in cols))
        ctx.count('agreement:' + tag)
        ci = np.array(cols, dtype=np.int64).T
        try:
            D = call(bct.agreement, ci.copy())
        except Exception as e:
            ctx.fail('agreement:raises', 'raised %r' % (e,), case); return None
        want = [[0 if i == j else sum(1 for c in cols if c[i] == c[j]) for j in range(n)] for i in range(n)]
        ctx.check(np.array_equal(np.asarray(D), np.array(want).reshape(n, n)), 'agreement:formula', 'D[i,j] is not the number of partitions that put i and j together', case)
        if len(cols) >= 2:
            D2 = call(bct.agreement, ci.copy(), 1)
            ctx.check(np.array_equal(np.asarray(D2), np.asarray(D)), 'agreement:buffsz', 'buffered evaluation differs', case)
        model('agree %d %s' % (n, enc_mat(cols, enc_zb)), 'agree', case, np.asarray(D).tolist())
        return D

    # ---- corpus
    # witness of C14_gateway_coef_sign_refuted replayed on the implementation: one edge 0-1, blocks {0,1},{2}; the two
    # numberings of the blocks exchange the coefficients of nodes 0 and 1
    W3 = np.array([[0., 1., 0.], [1., 0., 0.], [0., 0., 0.]])
    wcase = {'fn': 'gateway_coef_sign', 'W': W3.tolist(), 'ci': [1, 1, 2], 'ci2': [2, 2, 1], 'witness_of': 'C14_gateway_coef_sign_refuted'}
    ctx.case(wcase, nontrivial=True)
    try:
        with np.errstate(all='ignore'):
            g1 = bct.gateway_coef_sign(W3.copy(), np.array([1, 1, 2]))[0]
            g2 = bct.gateway_coef_sign(W3.copy(), np.array([2, 2, 1]))[0]
        if not close(g1, g2):
            ctx.check(close(g1, [0.75, 0.4375, 0]) and close(g2, [0.4375, 0.75, 0]), 'gateway_coef_sign:witness',
                      'the implementation differs on the two labellings but not with the values of the Coq witness: %s %s' % (tolist(g1), tolist(g2)), wcase)
            ctx.fail('gateway_coef_sign:relabel', 'witness of C14_gateway_coef_sign_refuted reproduces: %s vs %s' % (tolist(g1), tolist(g2)), wcase)
    except Exception as e:
        ctx.fail('gateway_coef_sign:raises', 'raised %r on the witness' % (e,), wcase)
    pdist([1, 1, 1], [5, 5, 5], 'corpus')
    pdist([1, 2, 2, 3], [9, -4, -4, 0], 'corpus')

    # ---- exhaustive partitions x relabellings
    nmax = ctx.scale(5, 6)
    reps = ctx.scale(1, 2)
    for n in range(2, nmax + 1):
        for base in set_partitions(n):
            for _ in range(reps if n >= 4 else 1):
                W, Wd, Ws = rand_W(r, n, 'und'), rand_W(r, n, 'dir'), rand_W(r, n, 'sign')
                consumers(base, W, Wd, Ws, 'exhaustive')
            # agreement: this partition stacked with random others, relabelled per column
            K = max(base)
            others = [[int(x) for x in r.randint(1, 4, size=n)] for _ in range(int(r.randint(0, 4)))]
            cols = [list(base)] + others
            D1 = agree(cols, 'exhaustive')
            cols2 = []
            for c in cols:
                kk = max(c)
                lab = relabellings(ctx.rng, kk)[ctx.rng.choice(['zero', 'neg', 'gaps', 'large', 'huge', 'perm', 'mix'])]
                cols2.append([lab[x - 1] for x in c])
            D2 = agree(cols2, 'relabelled')
            if D1 is not None and D2 is not None:
                ctx.check(np.array_equal(np.asarray(D1), np.asarray(D2)), 'agreement:relabel', 'agreement changes under per-partition relabelling',
                          {'fn': 'agreement', 'partitions': cols, 'relabelled': cols2})
    # ---- partition_distance: all pairs of partitions for small n, relabelled
    npd = ctx.scale(4, 5)
    for n in range(1, npd + 1):
        parts = list(set_partitions(n))
        for a in parts:
            for b in parts:
                pdist(a, b, 'all-pairs')
                ka, kb = max(a), max(b)
                la = relabellings(ctx.rng, ka)[ctx.rng.choice(['zero', 'neg', 'gaps', 'large', 'huge', 'perm', 'mix'])]
                lb = relabellings(ctx.rng, kb)[ctx.rng.choice(['zero', 'neg', 'gaps', 'large', 'huge', 'perm', 'mix'])]
                a2, b2 = [la[x - 1] for x in a], [lb[x - 1] for x in b]
                if n >= 3 or ctx.thorough:
                    pdist(a2, b2, 'all-pairs-relabelled')
                    if not (n == 1 or (ka == 1 and kb == 1)):
                        ctx.check(close(bct.partition_distance(np.array(a), np.array(b)), bct.partition_distance(np.array(a2), np.array(b2))),
                                  'partition_distance:relabel', 'result changes under relabelling', {'fn': 'partition_distance', 'cx': a, 'cy': b, 'cx2': a2, 'cy2': b2})
    # ---- random tier
    for t in range(ctx.scale(30, 400)):
        n = int(r.randint(6, 10))
        K = int(r.randint(1, min(n, 5) + 1))
        raw = [int(x) for x in r.randint(0, K, size=n)]
        first = {}
        base = [first.setdefault(x, len(first) + 1) for x in raw]
        consumers(base, rand_W(r, n, 'und'), rand_W(r, n, 'dir'), rand_W(r, n, 'sign'), 'random')
        raw2 = [int(x) for x in r.randint(-2, 3, size=n)]
        pdist(base, raw2, 'random')
        # a refinement / coarsening pair and an identical-up-to-renaming pair
        coarse = [(x + 1) // 2 for x in base]
        pdist(base, coarse, 'refinement')
        pdist(base, [100 - 3 * x for x in base], 'renamed')
        agree([base, raw2, coarse][:int(r.randint(1, 4))], 'random')

    # ---------------- correspondence: extracted Coq model on the same inputs
    res = run_model(ID, lines)
    ctx.model_cases = len(lines)
    for (kind, case, impl), m in zip(pend, res):
        fn = case['fn'].split(':')[0]
        if is_err(m):
            ctx.mismatch('model-error', m['error'], case); continue
        if kind == 'vecq':
            mv = [float(dec_q(x)) for x in m]
            if not close(mv, impl):
                ctx.mismatch(fn, 'model and implementation differ', case, mv, impl)
        elif kind == 'pairvecq':
            mv = [[float(dec_q(x)) for x in part] for part in m]
            if not (close(mv[0], impl[0]) and close(mv[1], impl[1])):
                ctx.mismatch(fn, 'model and implementation differ', case, mv, impl)
        elif kind == 'dcs':
            ok = True; mvs = []
            for part, imp in zip(m, impl):
                P = [[dec_q(x) for x in row] for row in part]
                mcols = len(P[0]) if P else 0
                if mcols <= 1:
                    # a single module: log(m) = 0 in the denominator, the code returns nan (0/0)
                    ok = ok and bool(np.all(np.isnan(np.asarray(imp, dtype=float)))) and all(x == 1 for row in P for x in row)
                    mvs.append('nan'); continue
                mv = [-sum(float(x) * math.log(float(x)) for x in row) / math.log(mcols) for row in P]
                mvs.append(mv)
                ok = ok and all(x > 0 for row in P for x in row) and close(mv, imp)
            if not ok:
                ctx.mismatch(fn, 'model pnm matrices do not reproduce the implementation', case, mvs, tolist(impl))
        elif kind == 'gw':
            if m is None or impl is None:
                if not (m is None and impl is None):
                    ctx.mismatch(fn, 'model and implementation disagree on IndexError', case, m, impl)
                continue
            mv = [[float(dec_q(x)) for x in part] for part in m]
            if not (close(mv[0], impl[0]) and close(mv[1], impl[1])):
                ctx.mismatch(fn, 'model and implementation differ', case, mv, impl)
        elif kind == 'mdz':
            mv = []
            for a, v in m:
                a, v = dec_q(a), dec_q(v)
                mv.append(0.0 if v == 0 else float(a) / math.sqrt(v))
            if not close(mv, impl):
                ctx.mismatch(fn, 'model and implementation differ', case, mv, impl)
        elif kind == 'q':
            mv = float(dec_q(m))
            if not close(mv, impl):
                ctx.mismatch(fn, 'model and implementation differ', case, mv, impl)
        elif kind in ('relabel', 'ci2ls', 'ls2ci'):
            if m != impl:
                ctx.mismatch(kind, 'model and implementation differ', case, m, impl)
        elif kind == 'agree':
            mv = [[float(dec_q(x)) for x in row] for row in m]
            if not np.array_equal(np.array(mv), np.array(impl, dtype=float)):
                ctx.mismatch(fn, 'model and implementation differ', case, mv, impl)
        elif kind == 'pd':
            vin, mi, trivial = impl
            if m[0] != trivial:
                ctx.mismatch(fn, 'model and harness disagree on the early-return branch', case, m[0], trivial); continue
            if trivial:
                if not (vin == 0 and mi == 1):
                    ctx.mismatch(fn, 'model returns (0, 1) on the early-return branch', case, [0, 1], [vin, mi])
                continue
            n = len(case['cx'])
            hs = [[dec_q(x) for x in h] for h in m[1:]]
            H = [-sum(float(c / n) * math.log(float(c / n)) for c in h) for h in hs]
            ok = all(sum(h) == n and all(c > 0 for c in h) for h in hs)
            mvin = (2 * H[2] - H[0] - H[1]) / math.log(n)
            mmi = 2 * (H[0] + H[1] - H[2]) / (H[0] + H[1])
            if not (ok and close(mvin, vin) and close(mmi, mi)):
                ctx.mismatch(fn, 'model histograms do not reproduce the implementation', case, [mvin, mmi, tolist(hs)], [vin, mi])
