"""C02 — community detectors return a valid partition 1..k and its true modularity."""
from fractions import Fraction as F
import random
import numpy as np
from common import *
import modq
from modq import ROUTINES, QTYPES, KINDS, GAMMAS, true_q, valid_labels, canon, close, pub

ID = 'C02'
COQ_FILES = ['Base/Mat.v', 'Base/SumQ.v', 'Base/ListX.v', 'Model/Modularity.v', 'Model/ModularityProb.v',
             'Model/ModularityGood.v', 'Proofs/ModularitySums.v', 'Proofs/ModularityQ.v', 'Proofs/ModularityGain.v',
             'Proofs/ModularityRun.v', 'Proofs/ModularityRunSign.v', 'Proofs/ModularityRunB.v', 'Proofs/ModularityProb.v',
             'Proofs/ModularityBound.v', 'Model/ModularitySelect.v', 'Proofs/ModularitySelect.v', 'Proofs/ModularityAuto.v',
             'Proofs/ModularityRunFull.v', 'Properties/C02.v']
THEOREMS = ['C02_relabel_range', 'C02_relabel_same_partition', 'C02_relabel_monotone', 'C02_q_closing_dir_eq_def',
            'C02_q_closing_und_eq_def', 'C02_q_closing_sign_eq_def', 'C02_q_closing_louvain_sign_eq_def',
            'C02_q_closing_louvainB_eq_def', 'C02_louvainB_modularity', 'C02_louvainB_potts',
            'C02_aggregate_preserves_Q', 'C02_aggregate_preserves_Qhalf', 'C02_aggregate_preserves_obj',
            'C02_level_pair_consistent', 'C02_given_partition_returns_Q_und', 'C02_given_partition_returns_Q_dir',
            'C02_given_partition_returns_Q_sign', 'C02_spectral_labels_partial', 'C02_run_finetune_dir_consistent',
            'C02_run_finetune_und_consistent', 'C02_louvain_dir_q_refuted',
            # whole multi-level runs, objective matrices, finetune_sign, probtune on an explicit draw stream
            'C02_louvain_und_run_q', 'C02_louvain_und_run_labels', 'C02_louvain_und_run_levels',
            'C02_louvain_und_sign_run_q', 'C02_louvain_und_sign_run_labels', 'C02_louvain_und_sign_run_levels',
            'C02_community_louvain_run_q', 'C02_community_louvain_run_labels', 'C02_community_louvain_run_levels',
            'C02_obj_builtin', 'C02_louvainB_negative_sym', 'C02_louvainB_negative_asym',
            'C02_run_finetune_sign_consistent', 'C02_run_finetune_sign_labels', 'C02_probtune_run_q',
            'C02_probtune_run_completes', 'C02_Qund_lower_bound', 'C02_louvain_und_run_q_domain',
            # run-level statements on the extracted functions; hierarchy slice and spectral recursion inside the model
            'C02_spectral_split_good', 'C02_run_spectral_oracle', 'C02_spectral_full_partial', 'C02_run_given_consistent',
            'C02_run_und_sign_consistent', 'C02_run_finetune_und_labels', 'C02_run_finetune_dir_labels',
            'C02_louvain_und_hierarchy', 'C02_louvain_dir_run_labels']
RULE = ('per routine: random structured networks (Erdos-Renyi at 3 densities, planted 2-3 groups, ring, star, two components, '
        'complete, one isolated node; optional self-loops), n=3..9 mostly, n in {1,2} and 10..16 in ~18 %; weights: integers 1..4 '
        '(binary for potts), dyadic k/4 (some below 1), integers up to 2^15, whole matrix scaled by 2^-26..2^-38, heavy self-loops; '
        'random sign flips for the signed routines; directed where the routine accepts it; gamma in {1, 3/4, 5/4, 13/10} or {0, '
        '1/2, 7/8, 3/2, 19/10}; all five qtypes / four built-in objectives; initial partition none / random / one block / shuffled '
        'singletons / non-contiguous and negative labels, as ndarray or list; float or integer dtype; seed int or None; '
        'hierarchy=True for the Louvain routines; a 44-node increasing-weight path (23..32 sweeps); 143..150-node sparse networks '
        'with > 127 modules (direct oracle); one 257..300-node sparse network (forty connected nodes at both ends of the numbering, '
        'three planted groups, half-integer weights, negative / one-way links where accepted) WITH a start partition of 3..5 groups '
        '(non-contiguous labels, ndarray or list) per routine that accepts one - the four fine-tuners, community_louvain, and '
        'modularity_und / _dir / _und_sign with the partition given (three per routine thorough; direct oracle: labels 1..k, q of '
        'the returned partition from the definition, a raise is <fn>:raises); given-partition and spectral cases n=1..12; non-trivial = at least one accepted node '
        'move; distinct by hash of (routine, matrix, gamma, type, initial partition, seed)')
ASSUMES = ['weights are integers or dyadic rationals with total weight < 2^23: every sum of weights the model treats as exact is exact in binary64; quantities '
           'obtained by division are compared with tolerance 1e-9',
           'which node moves where (node order, argmax, > 1e-10, number of levels) is decided by the implementation on '
           'floats and handed to the model as the recorded move list; the theorems hold for every move list',
           'domain: positive total weight (signed routines: s0+s1 > 0; community_louvain negative_*: s0 > 0 and sum(W) > 0)']
TRUSTED = ['spectral bisection of modularity_und/_dir without kci: the DECISION per module (LAPACK eig/eigh + Kernighan-Lin sweep) is '
           'an oracle recorded from the run (scipy.linalg.eig/eigh and ls2ci wrapped); the recursion around it (null-module test, '
           'where(+-1) selections, DFS order, ls2ci, closing statement) is modelled, proved for every oracle and re-executed',
           'hook events of bct.utils._verif (BCTPY_VERIF=1) are trusted to be the state of the run']


def check_pair(ctx, case, ci, q, key_fn, what, n):
    """direct oracle on one (labels, q) pair of the implementation"""
    ok = ctx.check(valid_labels(ci, n), key_fn + ':labels', what + ': labels are not exactly 1..k: %s' % list(ci), pub(case))
    tq = true_q(case, [int(x) for x in ci])
    ok &= ctx.check(close(tq, q), key_fn + ':q', what + ': returned q=%r but the modularity of the returned partition is %s (%.12g)'
                    % (q, tq, float(tq)), pub(case))
    return ok


def run(ctx):
    import bct
    lines, pend = [], []
    per = ctx.scale(70, 2000)
    for fn in ROUTINES:
        R = ROUTINES[fn]
        done = 0
        tries = 0
        while done < per and tries < per * 5:
            tries += 1
            case = modq.make_case(ctx, fn)
            if case is None:
                continue
            done += 1
            n = case['n']
            hier = fn in ('modularity_louvain_und', 'modularity_louvain_dir')
            try:
                ci, q, levels = modq.call_impl(case, hierarchy=False)
                if hier:
                    cih, qh, levels_h = modq.call_impl(case, hierarchy=True)
            except Timeout:
                ctx.fail(fn + ':terminates', 'no result within 20 s', pub(case))
                continue
            except Exception as e:
                ctx.fail(fn + ':raises', 'raised %r' % (e,), pub(case))
                continue
            nmoves = sum(len(L['moves']) for L in levels)
            ctx.case(pub(case), nontrivial=nmoves > 0, sample_every=97)
            ctx.count('fn:' + fn); ctx.count('family:' + case['family']); ctx.count('n=%d' % n)
            ctx.count('gamma=' + case['gamma']); ctx.count('levels=%d' % len(levels))
            if 'ci_kind' in case:
                ctx.count('ci:' + case['ci_kind'])
            if case.get('qtype'):
                ctx.count('qtype:' + case['qtype'])
            if case.get('kind'):
                ctx.count('objective:' + case['kind'] + (':dir' if case.get('directed') else ':und'))
            # ---- direct oracle: final pair
            check_pair(ctx, case, ci, q, fn, 'final result', n)
            # ---- hierarchical output: every level is a consistent pair
            if hier:
                ctx.check(len(cih) == len(qh), fn + ':hierarchy_shape', 'ci and q lists differ in length', pub(case))
                for lvl, (c, qq) in enumerate(zip(cih, qh)):
                    check_pair(ctx, case, c, qq, fn, 'hierarchy level %d' % (lvl + 1), n)
                if len(qh):
                    ctx.check(np.array_equal(cih[-1], ci) and qh[-1] == q, fn + ':hierarchy_last',
                              'hierarchy=False does not return the last retained level', pub(case))
                ctx.count('hier_levels=%d' % len(qh))
            # community_louvain / louvain_und_sign: the per-level hook pairs must be consistent too
            if fn in ('community_louvain', 'modularity_louvain_und_sign'):
                s = sum(map(sum, case['_W']))
                for lvl, L in enumerate(levels):
                    ql = L['q'] / s if (fn == 'community_louvain' and case['kind'] in ('modularity', 'potts')) else L['q']
                    check_pair(ctx, case, L['labels'] if fn == 'community_louvain' else canon(L['labels']), ql, fn,
                               'internal level %d' % (lvl + 1), n)
            lines.append(modq.model_line(case, levels))
            pend.append(('run', case, ci, q, levels))
            if fn == 'modularity_louvain_und':
                # hierarchy=True: the model's own slice ci[1:-1], q[1:-1] (run_louvain_und_hier) against the returned lists
                lines.append('louvain_und_hier' + modq.model_line(case, levels)[len('louvain_und'):])
                pend.append(('hier', case, [[int(x) for x in c] for c in cih], [float(x) for x in qh], None))
            # modularity_probtune_und_sign once more with a recording RandomState: the whole loop (permutation, every
            # random_sample / randint draw) is re-executed by the extracted model run_probtune on the explicit stream
            if fn == 'modularity_probtune_und_sign':
                pp = ctx.rng.choice([0.45, 0.45, 0.2, 0.8, 0.0, 1.0])
                case2 = dict(case); case2['p'] = pp
                try:
                    ci2, q2, steps, line = modq.probtune_stream(case2, pp)
                except Timeout:
                    ctx.fail(fn + ':terminates', 'no result within 20 s', pub(case2)); continue
                except Exception as e:
                    ctx.fail(fn + ':raises', 'raised %r' % (e,), pub(case2)); continue
                ctx.case(pub(case2), nontrivial=len(steps) > 0, sample_every=97)
                ctx.count('fn:%s(stream)' % fn); ctx.count('p=%s' % pp); ctx.count('random_moves', sum(1 for st in steps if st[1]))
                check_pair(ctx, case2, ci2, q2, fn, 'draw-stream run', n)
                lines.append(line)
                pend.append(('probtune', case2, ci2, q2, steps))

    # ---------------- networks with more than 127 nodes AND more than 127 modules in the result (direct oracle only: the
    # module vectors / returned labels must not be held in a narrow integer type). A few weighted edges among the first
    # nodes, everything else isolated: isolated nodes are never moved, so the result has > 127 modules.
    r = ctx.rng
    for fn in (['modularity_louvain_und', 'modularity_louvain_und_sign', 'modularity_finetune_und', 'community_louvain']
               + (['modularity_finetune_dir', 'modularity_finetune_und_sign', 'modularity_louvain_dir'] if ctx.thorough else [])):
        case = modq.big_sparse_case(r, fn)
        n = case['n']
        try:
            ci, q, levels = modq.call_impl(case)
        except Timeout:
            ctx.fail(fn + ':terminates', 'no result within 20 s', pub(case)); continue
        except Exception as e:
            ctx.fail(fn + ':raises', 'raised %r' % (e,), pub(case)); continue
        ctx.case(pub(case), nontrivial=True)
        ctx.count('fn:' + fn); ctx.count('family:big-sparse'); ctx.count('modules>127', int(len(set(int(x) for x in ci)) > 127))
        check_pair(ctx, case, ci, q, fn, 'final result (n=%d, %d modules)' % (n, len(set(int(x) for x in ci))), n)

    # ---------------- more than 256 nodes WITH a start partition, every optimiser that accepts one (direct oracle only); then the
    # given-partition routines on such a network.  Own random stream: the draws of every other family stay what they were.
    r2 = random.Random(ctx.seed * 1000003 + 2257)
    for rep in range(ctx.scale(1, 3)):
        for fn in [f for f in ROUTINES if ROUTINES[f].takes_ci]:
            case = modq.over256_case(r2, fn)
            n = case['n']
            try:
                ci, q, levels = modq.call_impl(case)
            except Timeout:
                ctx.fail(fn + ':terminates', 'no result within 20 s', pub(case)); continue
            except Exception as e:
                ctx.fail(fn + ':raises', 'raised %r' % (e,), pub(case)); continue
            nmoves = sum(len(L['moves']) for L in levels)
            ctx.case(pub(case), nontrivial=nmoves > 0)
            ctx.count('fn:' + fn); ctx.count('family:over-256-with-ci'); ctx.count('over256:moves', nmoves)
            check_pair(ctx, case, ci, q, fn, 'final result (n=%d, start partition of %d groups, %d moves)' % (n, len(set(case['ci'])), nmoves), n)
        for which in ('und', 'dir', 'sign'):
            base = modq.over256_case(r2, {'und': 'modularity_finetune_und', 'dir': 'modularity_finetune_dir', 'sign': 'modularity_finetune_und_sign'}[which])
            Wx, n, g, kci = base['_W'], base['n'], base['_g'], base['ci']
            A = np.array([[float(x) for x in row] for row in Wx], dtype=float)
            name = 'modularity_und_sign' if which == 'sign' else 'modularity_' + which
            case = {'fn': name, 'n': n, 'family': 'over-256-with-ci', 'W': base['W'], 'gamma': str(g), 'kci' if which != 'sign' else 'ci': kci}
            try:
                if which == 'sign':
                    case['qtype'] = base['qtype']; case.pop('gamma')
                    ci, q = call(bct.modularity_und_sign, A, np.array(kci), qtype=base['qtype'], _t=20.0)
                    tq = modq.q_sign(Wx, kci, F(1), base['qtype'])
                else:
                    ci, q = call(bct.modularity_dir if which == 'dir' else bct.modularity_und, A, gamma=float(g), kci=np.array(kci), _t=20.0)
                    tq = modq.q_def(Wx, kci, g, und=(which == 'und'))
            except Exception as e:
                tie_variants(case)
                ctx.fail(name + ':raises', 'raised %r' % (e,), case); continue
            tie_variants(case)
            ctx.case(case, nontrivial=True)
            ctx.count('fn:%s(kci)' % name if which != 'sign' else 'fn:' + name); ctx.count('family:over-256-with-ci')
            if which == 'sign':
                ctx.check(valid_labels(ci, n) and list(ci) == canon(kci), name + ':labels', 'returned labels are not the given partition relabelled 1..k', case)
            else:
                ctx.check(len(ci) == n and canon([int(x) for x in ci]) == canon(kci), name + ':given_partition', 'the given partition is not returned', case)
            ctx.check(close(tq, q), name + ':q', 'q=%r, modularity of the given partition is %s (%.12g)' % (q, tq, float(tq)), case)

    # ---------------- given partition: modularity_und / modularity_dir / modularity_und_sign; spectral und/dir
    for t in range(ctx.scale(60, 600)):
        n = r.randint(1, 12) if r.random() < 0.25 else r.randint(2, 9)
        for which in ('und', 'dir', 'sign'):
            wmode = r.choice(['int', 'int', 'dyadic', 'selfloops'])
            Wx, fam = modq.gen_graph(r, n, which == 'dir', signed=(which == 'sign'), wmode=wmode)
            W0, W1, s0, s1 = modq.parts(Wx)
            if (which == 'sign' and s0 + s1 == 0) or (which != 'sign' and s0 <= 0):
                continue
            g = r.choice(GAMMAS) if r.random() < 0.75 else r.choice(modq.GAMMAS_WIDE)
            kci, how = modq.gen_ci(r, n)
            if kci is None:
                kci = [r.randint(1, 3) for _ in range(n)]
            A = np.array([[float(x) for x in row] for row in Wx], dtype=float)
            W = modq.jsonable(Wx)            # exact (dyadic) values as JSON numbers; Wx keeps the Fractions for the oracle
            ctx.count('given:weights:' + wmode)
            if which == 'sign':
                qt = r.choice(QTYPES)
                case = {'fn': 'modularity_und_sign', 'W': W, 'ci': kci, 'qtype': qt}
                ci, q = bct.modularity_und_sign(A, np.array(kci), qtype=qt)
                tie_variants(case)
                ctx.case(case, nontrivial=True)
                ctx.count('fn:modularity_und_sign')
                ctx.check(valid_labels(ci, n) and list(ci) == canon(kci), 'modularity_und_sign:labels',
                          'returned labels are not the given partition relabelled 1..k', case)
                tq = modq.q_sign(Wx, kci, F(1), qt)
                ctx.check(close(tq, q), 'modularity_und_sign:q', 'q=%r, modularity of the given partition is %s' % (q, tq), case)
                lines.append('und_sign ' + enc_mat(Wx, modq.enc_qb) + ' %d ' % modq.QTYPES_IDX[qt] + enc_list(kci))
                pend.append(('und_sign', case, list(ci), q, None))
            else:
                f = bct.modularity_dir if which == 'dir' else bct.modularity_und
                name = 'modularity_' + which
                case = {'fn': name, 'W': W, 'gamma': str(g), 'kci': kci}
                ci, q = f(A, gamma=float(g), kci=np.array(kci))
                tie_variants(case)
                ctx.case(case, nontrivial=True)
                ctx.count('fn:%s(kci)' % name)
                ctx.check(canon(list(ci)) == canon(kci), name + ':given_partition', 'the given partition is not returned', case)
                tq = modq.q_def(Wx, kci, g, und=(which == 'und'))
                ctx.check(close(tq, q), name + ':q', 'q=%r, modularity of the given partition is %s' % (q, tq), case)
                lines.append('given %d ' % (which == 'dir') + enc_mat(Wx, modq.enc_qb) + ' ' + enc_q(g) + ' ' + enc_list(kci))
                pend.append(('given', case, None, q, None))
                # spectral optimisation (no kci): the partition is LAPACK's business; labels 1..k and q consistent
                case2 = {'fn': name, 'W': W, 'gamma': str(g), 'kci': None}
                try:
                    ci, q, table = modq.spectral_capture(f, A, float(g))
                except Timeout:
                    ctx.fail(name + ':terminates', 'no result within 20 s', case2)
                    continue
                except Exception as e:
                    ctx.fail(name + ':raises', 'raised %r' % (e,), case2)
                    continue
                tie_variants(case2)
                ctx.case(case2, nontrivial=len(set(ci)) > 1)
                ctx.count('fn:%s(spectral)' % name)
                ctx.check(valid_labels(ci, n), name + ':labels', 'labels are not exactly 1..k: %s' % list(ci), case2)
                tq = modq.q_def(Wx, [int(x) for x in ci], g, und=(which == 'und'))
                ctx.check(close(tq, q), name + ':q', 'q=%r, modularity of the returned partition is %s' % (q, tq), case2)
                lines.append('given %d ' % (which == 'dir') + enc_mat(Wx, modq.enc_qb) + ' ' + enc_q(g) + ' ' + enc_list([int(x) for x in ci]))
                pend.append(('given', case2, None, q, None))
                # the recursion around the numeric kernel (recur from arange(n), null-module test, where(mod_asgn == +-1), DFS
                # order, ls2ci, closing statement) re-executed by the extracted run_spectral_table on the recorded decisions
                lines.append(modq.spectral_line(which == 'dir', Wx, g, table))
                pend.append(('spectral', case2, [int(x) for x in ci], q, None))
                ctx.count('spectral_splits', sum(1 for _, a in table if a is not None))

    # ---------------- correspondence: the extracted Coq model replays every run
    res = run_model(ID, lines)
    ctx.model_cases = len(lines)
    for (kind, case, ci, q, levels), m in zip(pend, res):
        if is_err(m):
            ctx.mismatch('model-error', m['error'], pub(case)); continue
        fn = case['fn']
        if kind == 'given':
            if not close(dec_q(m[0]), q):
                ctx.mismatch(fn + ':q', 'closing formula: model %s impl %r' % (dec_q(m[0]), q), case, str(dec_q(m[0])), q)
            if dec_q(m[0]) != dec_q(m[1]):
                ctx.mismatch(fn + ':theorem', 'model closing formula differs from model definitional Q', case)
            continue
        if kind == 'spectral':
            if m[0] != ci or not close(dec_q(m[1]), q):
                ctx.mismatch(fn + ':recursion', 'spectral recursion on the recorded decisions: model (%s, %s) impl (%s, %r)'
                             % (m[0], dec_q(m[1]), ci, q), case, m[0], ci)
            if dec_q(m[1]) != dec_q(m[2]):
                ctx.mismatch(fn + ':theorem', 'model closing formula differs from model definitional Q', case)
            continue
        if kind == 'hier':
            mq = [dec_q(x) for x in m[1]]
            if m[0] != ci or len(mq) != len(q) or not all(close(a, b) for a, b in zip(mq, q)):
                ctx.mismatch(fn + ':hierarchy', 'hierarchy=True returns (%s, %s), the model\'s slice is (%s, %s)'
                             % (ci, q, m[0], [float(x) for x in mq]), pub(case), m[0], ci)
            continue
        if kind == 'probtune':
            if m is None:
                ctx.mismatch(fn + ':stream', 'the model could not consume the recorded draw stream', pub(case)); continue
            if m[0] != levels:
                ctx.mismatch(fn + ':stream_moves', 'moves made on the recorded draw stream differ', pub(case), m[0], levels)
            if m[1] != [int(x) for x in ci] or not close(dec_q(m[2]), q):
                ctx.mismatch(fn + ':stream_result', 'model (%s, %s) impl (%s, %r)' % (m[1], dec_q(m[2]), list(ci), q), pub(case))
            if dec_q(m[2]) != dec_q(m[3]):
                ctx.mismatch(fn + ':theorem', 'model: returned q %s != definitional Qsign %s of the returned labels' % (dec_q(m[2]), dec_q(m[3])), pub(case))
            continue
        if kind == 'und_sign':
            if m[0] != ci or not close(dec_q(m[1]), q):
                ctx.mismatch(fn, 'model (%s, %s) impl (%s, %r)' % (m[0], dec_q(m[1]), ci, q), case)
            if dec_q(m[1]) != dec_q(m[2]) and np.array_equal(np.array(case['W']), np.array(case['W']).T):
                ctx.mismatch(fn + ':theorem', 'model closing formula differs from model definitional Q', case)
            continue
        M = modq.dec_result(m)
        pc = pub(case)
        if M['ci'] != [int(x) for x in ci]:
            ctx.mismatch(fn + ':ci', 'returned labels differ', pc, M['ci'], [int(x) for x in ci])
        if not close(M['q'], q):
            ctx.mismatch(fn + ':q', 'returned q differs: model %s (%.12g) impl %r' % (M['q'], float(M['q']), q), pc, str(M['q']), q)
        if len(M['levels']) != len(levels):
            ctx.mismatch(fn + ':levels', 'number of levels differs', pc); continue
        if ROUTINES[fn].levels:
            for lvl, (LM, LI) in enumerate(zip(M['levels'], levels)):
                if LM['labels'] != LI['labels']:
                    ctx.mismatch(fn + ':level_labels', 'labels of level %d differ' % (lvl + 1), pc, LM['labels'], LI['labels'])
                if not close(LM['q'], LI['q']):
                    ctx.mismatch(fn + ':level_q', 'q of level %d differs: model %s impl %r' % (lvl + 1, LM['q'], LI['q']), pc,
                                 str(LM['q']), LI['q'])
        # in-model cross-check of the theorems (closing formula == definitional Q) on this very run; louvain_dir is the
        # refuted routine, and the undirected closing formulas need a symmetric W
        if fn != 'modularity_louvain_dir':
            # whole-run theorems: returned q IS the definitional quality of the returned labels on the original matrix
            # (modularity_louvain_und returns a computed level only when at least two levels were computed)
            if fn == 'modularity_louvain_und':
                # hypothesis [stop_rule_ok] of C02_louvain_und_run_q_domain on the model's EXACT level q's: every level but
                # the last passed q[h]-q[h-1] >= 1e-10, the last did not (1e-13 guard band around the float-decided threshold)
                qs = [F(-1)] + [LM['q'] for LM in M['levels']]
                dif = [b - a for a, b in zip(qs, qs[1:])]
                thr, band = F(1, 10 ** 10), F(1, 10 ** 13)
                if any(d < thr - band for d in dif[:-1]) or (dif and dif[-1] >= thr + band):
                    ctx.mismatch(fn + ':stop_rule', 'exact level q differences %s do not obey the stopping rule' % [float(d) for d in dif], pc)
                if len(levels) < 2:
                    ctx.mismatch(fn + ':single_level', 'only one level computed (q[1] < -1 + 1e-10): excluded by C02_Qund_lower_bound for gamma <= 19/10', pc)
            if not (fn == 'modularity_louvain_und' and len(levels) < 2) and M['q'] != M['qd']:
                ctx.mismatch(fn + ':theorem', 'model: returned q %s != definitional Q %s of the returned labels' % (M['q'], M['qd']), pc)
            for lvl, LM in enumerate(M['levels']):
                lq = LM['q']
                if fn == 'community_louvain' and case['kind'] in ('modularity', 'potts'):
                    lq = lq / sum(map(sum, case['_W']))
                if lq != LM['qd']:
                    ctx.mismatch(fn + ':theorem', 'model: closing formula %s != definitional Q %s at level %d' % (lq, LM['qd'], lvl + 1), pc)
