"""C06 — signed null models keep each node's positive/negative degree and all weights.

randmio_dir_signed / randmio_und_signed / null_model_dir_sign / null_model_und_sign
(bct/algorithms/reference.py) and pick_four_unique_nodes_quickly (bct/utils/miscellaneous_utilities.py).

Direct oracle (independent of the library) on every clause of the property, on the final output and on
the matrix after EVERY accepted swap ('swap' hook events).  Correspondence by stream replay: the extracted
Coq model is fed the recorded rng.randint / rng.permutation draws (common.Rec) and the float-decided values
captured by a recording proxy for the `np` name of bct.algorithms.reference (np.argsort results, the result of
np.allclose(W, W.T), the result of np.round(1/wei_freq); run time only, nothing in /repo is edited); it must then
reproduce the implementation's matrices EXACTLY, consume exactly the recorded draws, and end the same way
(return / BCTParamError; any other exception is a violation).
"""
import math
from fractions import Fraction as F
import numpy as np
from common import *

ID = 'C06'
COQ_FILES = ['Base/Mat.v', 'Base/ListX.v', 'Model/Signed.v', 'Model/NullModel.v', 'Proofs/Signed.v',
             'Proofs/NullModelLists.v', 'Proofs/NullModel.v', 'Proofs/NullModelTop.v', 'Proofs/NullModelCorr.v',
             'Proofs/SignedFull.v', 'Proofs/NullModelCorrRange.v', 'Proofs/NullModelTotal.v', 'Properties/C06.v']
THEOREMS = ['C06_pick4_distinct', 'C06_pick4_digits', 'C06_pick4_needs_4', 'C06_signed_step_inv', 'C06_signed_step_inv_general',
            'C06_signed_run_inv', 'C06_signed_run_inv_general', 'C06_deal_multiset_corr_def',
            'C06_null_model_inv_general', 'C06_null_model_rewiring_inv', 'C06_null_model_und_rejects',
            'C06_corr3_var', 'C06_corr3_cov',
            'C06_signed_run_diag_empty', 'C06_signed_run_selfloop_kept', 'C06_randmio_diag_refuted',
            'C06_randmio_small_n_returns_input', 'C06_randmio_ret_sound', 'C06_null_model_total', 'C06_period_domain',
            'C06_period_exact', 'C06_null_model_param_error_iff', 'C06_corr_cauchy_schwarz', 'C06_corr_r_squared_range',
            'C06_corr_equal_seq', 'C06_null_model_corr_range', 'C06_null_model_corr_one', 'C06_null_model_checked_symmetry']
RULE = ('signed matrices, n = 1..16 (mostly 4..9; n <= 3: returned unchanged by the rewiring), weights: integers 1..4, dyadic k/8 (k = 1..40), '
        'integers up to 1000, float or integer dtype; densities 0.3-1.0, directed for *_dir / symmetric for *_und; families: both signs '
        '(mixed), one sign only, fully connected positive support (rewiring skipped), sparse, all-equal magnitudes (ties), nonzero input '
        'diagonal, nearly symmetric (np.allclose decides) and asymmetric input for the *_und routines; itr/bin_swaps in {0,1,2,3,5,10}; '
        'wei_freq in {0, 16 fixed values, uniform(0.02,1], 1.2, 1.5}; exhaustive small tier: all 3^6 sign patterns of a symmetric n=4 '
        'network x all 24 first quads (randmio_und_signed; thorough: all, quick: a slice), every sign class of the four cells read by '
        'the swap condition x 24 quads (randmio_dir_signed), all 3^6 patterns through null_model_und_sign. '
        'non-trivial = at least one accepted swap or at least two weights dealt; distinct by hash of (function, matrix, parameters, seed)')
ASSUMES = ['weights are dyadic rationals k/2^m with small k: every float operation the model treats as exact (moves, sign tests, s*w, W0+W0.T) is exact in binary64; the model runs on the integers k (fixed-point reading of Z)',
           'the recorded stream splits by kind: every rng.randint precedes the first rng.permutation (checked on each run)',
           'np.argsort(P.flat[Lij]) is a float-decided order and is taken from the run (oracle); the model checks only that it is a permutation; the P / S / Si / So updates feeding it are not modelled',
           'np.allclose(W, W.T) and np.round(1/wei_freq) are float decisions taken from the run (oracles); the model checks the second against the exact quotient (within 1) and ignores the first for exactly symmetric input',
           'returned correlations are compared with cxy/sqrt(cxx*cyy) of the exact rational strength sequences at relative tolerance 1e-9; NaN iff cxx*cyy = 0',
           'itr / bin_swaps are non-negative integers (float values such as 0.5 are accepted by the code and not modelled)']
TRUSTED = ['recording proxy for the module global `np` of bct.algorithms.reference during null_model_* calls (forwards every attribute, logs argsort / allclose / round results)',
           'scripted first draw (a RandomState subclass returning a chosen randint first) in the exhaustive small tier']


# ---------------------------------------------------------------- instrumentation
class NpProxy(object):
    """stands in for the name `np` inside bct.algorithms.reference while a null model runs"""

    def __init__(self, real, log):
        self._r = real
        self._log = log

    def __getattr__(self, k):
        return getattr(self._r, k)

    def argsort(self, *a, **k):
        r = self._r.argsort(*a, **k)
        self._log['argsort'].append(np.asarray(r).tolist())
        return r

    def allclose(self, *a, **k):
        r = self._r.allclose(*a, **k)
        self._log['allclose'].append(bool(r))
        return r

    def round(self, *a, **k):
        r = self._r.round(*a, **k)
        self._log['round'].append(r)
        return r


def with_np_log(f, *a, **k):
    """(result, exception, log): the call under the recording proxy"""
    import bct.algorithms.reference as ref
    log = {'argsort': [], 'allclose': [], 'round': []}
    old = ref.np
    ref.np = NpProxy(old, log)
    out = exc = None

    def forget():                      # (input-representation layer: a converted call that raised is repeated on the arguments as given)
        for v in log.values():
            del v[:]
    try:
        with variant_retry(forget):
            out = call(f, *a, _t=30.0, **k)
    except Timeout:
        raise
    except BaseException as e:
        if isinstance(e, KeyboardInterrupt):
            raise
        exc = e
    finally:
        ref.np = old
    return out, exc, log


class Scripted(Rec):
    """Rec whose first randint results are prescribed (exhaustive tier: the first quad is chosen)"""

    def __init__(self, seed, script):
        super().__init__(seed)
        self.script = list(script)

    def randint(self, *a, **k):
        if self.script:
            v = self.script.pop(0)
            self.log.append(('randint', a, k, int(v)))
            return v
        return super().randint(*a, **k)


# ---------------------------------------------------------------- generators
def pick_n(r):
    u = r.rand()
    if u < 0.05:
        return int(r.randint(1, 4))
    if u < 0.13:
        return int(r.randint(10, 17))
    return int(r.randint(4, 10))


def gen_matrix(ctx, und, fam=None, n=None, allow_int=True):
    """-> dict(A = array handed to the routine, Z = the same matrix in units of 1/scale (python ints), scale, fam, isint)"""
    r = ctx.nprng
    n = n or pick_n(r)
    fam = fam or str(r.choice(['mixed', 'mixed', 'mixed', 'dense', 'sparse', 'pos_only', 'neg_only', 'pos_full', 'ties', 'diag']))
    kind = str(r.choice(['int', 'int', 'dyadic', 'dyadic', 'big']))
    scale = 8 if kind == 'dyadic' else 1
    hi = {'int': 5, 'dyadic': 41, 'big': 1001}[kind]
    dens = {'mixed': float(r.choice([0.4, 0.6, 0.8])), 'dense': 1.0, 'sparse': 0.3, 'pos_only': 0.6, 'neg_only': 0.6,
            'pos_full': 1.0, 'ties': 0.7, 'diag': 0.6}[fam]
    tie = int(r.randint(1, hi))
    Z = np.zeros((n, n), dtype=np.int64)
    for i in range(n):
        for j in range(n):
            if i == j or (und and j < i):
                continue
            if r.rand() < dens:
                mag = tie if fam == 'ties' else int(r.randint(1, hi))
                sg = 1 if fam in ('pos_only', 'pos_full') else -1 if fam == 'neg_only' else (1 if r.rand() < 0.55 else -1)
                Z[i, j] = sg * mag
    if und:
        Z = Z + Z.T
    if fam == 'diag':
        for i in range(n):
            Z[i, i] = int(r.randint(-2, 3)) * (4 if kind == 'dyadic' else 1)
    isint = bool(allow_int and scale == 1 and r.rand() < 0.3)
    A = Z.astype(r.choice([np.int64, np.int32]) if isint else float)
    if scale != 1:
        A = A / float(scale)
    return {'A': A, 'Z': Z.tolist(), 'scale': scale, 'fam': fam, 'isint': isint, 'kind': kind}


def gen_nearsym(ctx):
    """symmetric base with entries m*1024 (m = 1..4) and a few upper-triangle cells off by 1/128 or 2/128:
    np.allclose (atol 1e-8, rtol 1e-5) accepts a difference of 1/128 always and of 2/128 only for m >= 2"""
    r = ctx.nprng
    n = int(r.randint(4, 9))
    scale = 128
    Z = np.zeros((n, n), dtype=np.int64)
    for i in range(n):
        for j in range(i + 1, n):
            if r.rand() < 0.7:
                Z[i, j] = Z[j, i] = (1 if r.rand() < 0.55 else -1) * int(r.randint(1, 5)) * 1024 * scale
    cells = [(i, j) for i in range(n) for j in range(i + 1, n) if Z[i, j] != 0]
    for k in range(int(r.randint(1, 4))):
        if cells:
            i, j = cells[int(r.randint(len(cells)))]
            d = int(r.choice([1, 1, 1, -1, 2]))
            if r.rand() < 0.5:
                Z[i, j] += d
            else:
                Z[j, i] += d
    return {'A': Z.astype(float) / scale, 'Z': Z.tolist(), 'scale': scale, 'fam': 'nearsym', 'isint': False, 'kind': 'nearsym'}


def pattern_und4(code, mags):
    """symmetric 4x4 matrix whose six upper cells carry the signs given by the base-3 digits of code (0: absent, 1: +, 2: -)"""
    Z = np.zeros((4, 4), dtype=np.int64)
    k = 0
    for i in range(4):
        for j in range(i + 1, 4):
            d = code // 3 ** k % 3
            Z[i, j] = Z[j, i] = (0, 1, -1)[d] * mags[k]
            k += 1
    return Z


# ---------------------------------------------------------------- direct oracle (property text)
def degs(M):
    n = len(M)
    return ([sum(1 for j in range(n) if M[i][j] > 0) for i in range(n)], [sum(1 for j in range(n) if M[i][j] < 0) for i in range(n)],
            [sum(1 for i in range(n) if M[i][j] > 0) for j in range(n)], [sum(1 for i in range(n) if M[i][j] < 0) for j in range(n)])


def oracle_matrix(ctx, fn, A, R, und, case, what='', selfloops='cleared'):
    """every matrix clause of the property for output R against input A (lists of python numbers; weights are compared
    exactly: the routines only move them).  selfloops: what the routine does with input self-connections --
    'cleared' (null models; A is given with the diagonal already cleared) or 'kept' (randmio_*_signed)."""
    n = len(A)
    ok = True
    da, dr = degs(A), degs(R)
    for k, nm in enumerate(('pos_out', 'neg_out', 'pos_in', 'neg_in')):
        ok &= ctx.check(da[k] == dr[k], fn + ':degree', what + '%s degrees differ: input %s output %s' % (nm, da[k], dr[k]), case)
    for sg, nm in ((1, 'positive'), (-1, 'negative')):
        a = sorted(x for row in A for x in row if x * sg > 0)
        b = sorted(x for row in R for x in row if x * sg > 0)
        ok &= ctx.check(a == b, fn + ':weights', what + 'multiset of %s weights differs: input %s output %s' % (nm, a, b), case)
    if not all(R[i][i] == 0 for i in range(n)):
        # the property text asks for an empty diagonal.  randmio_*_signed keep input self-connections (C06_randmio_diag_refuted):
        # that exact behaviour on an input WITH self-connections is the recorded finding; anything else is a fresh violation
        if selfloops == 'kept' and any(A[i][i] != 0 for i in range(n)) and all(R[i][i] == A[i][i] for i in range(n)):
            ctx.fail(fn + ':diag_selfloop_input', what + 'input self-connections are kept: the diagonal of the output is not empty', case)
        else:
            ok = False
            ctx.fail(fn + ':diag', what + 'diagonal not empty', case)
    if und:
        ok &= ctx.check(all(R[i][j] == R[j][i] for i in range(n) for j in range(n)), fn + ':sym', what + 'symmetric input gave asymmetric output', case)
    return ok


def corr3(x, y):
    n = len(x)
    sx, sy = sum(x), sum(y)
    return (n * sum(a * b for a, b in zip(x, y)) - sx * sy, n * sum(a * a for a in x) - sx * sx, n * sum(b * b for b in y) - sy * sy)


def strengths(M):
    """the four strength sequences (pos_in, pos_out, neg_in, neg_out), exact"""
    n = len(M)
    M = [[F(x) for x in row] for row in M]
    pin = [sum(M[i][j] for i in range(n) if M[i][j] > 0) for j in range(n)]
    pou = [sum(M[i][j] for j in range(n) if M[i][j] > 0) for i in range(n)]
    nin = [sum(-M[i][j] for i in range(n) if M[i][j] < 0) for j in range(n)]
    nou = [sum(-M[i][j] for j in range(n) if M[i][j] < 0) for i in range(n)]
    return pin, pou, nin, nou


def corr_value(c3):
    cxy, cxx, cyy = c3
    if cxx * cyy == 0:
        return float('nan')
    sc = 1
    q = F(cxx * cyy)
    return float(F(cxy)) / math.sqrt(float(q)) if q < 10 ** 300 else float(F(cxy) / F(math.isqrt(int(q))))


def corr_close(c3, x):
    cxy, cxx, cyy = c3
    if cxx * cyy == 0:
        return bool(np.isnan(x))
    if not np.isfinite(x):
        return False
    return abs(corr_value(c3) - float(x)) <= 1e-9


def clear_diag(A):
    return [[0 if i == j else A[i][j] for j in range(len(A))] for i in range(len(A))]


def unscale(M, scale):
    return (np.array(M, dtype=float) / scale) if scale != 1 else np.array(M, dtype=float)


WFS = [0.0, 0.0, 0.05, 0.1, 0.1, 0.15, 0.2, 0.25, 0.3, 1 / 3., 0.4, 0.5, 0.5, 0.6, 2 / 3., 0.7, 0.75, 0.9, 1.0, 1.0, 2 / 7., 2 / 9., 1.2, 1.5]
ITRS = [0, 1, 1, 2, 2, 3, 5, 10]


# ---------------------------------------------------------------- main
def run(ctx):
    import bct
    from bct.utils import _verif
    from bct.utils.miscellaneous_utilities import pick_four_unique_nodes_quickly
    r = ctx.nprng
    lines, pend = [], []

    # ---------- pick_four_unique_nodes_quickly
    for t in range(ctx.scale(500, 3000)):
        n = int(r.choice([4, 4, 5, 6, 7, 9, 12, 16, 30]))
        rec = Rec(int(r.randint(1 << 30)))
        q = call(pick_four_unique_nodes_quickly, n, rec)
        draws = [int(e[3]) for e in rec.log]
        case = {'fn': 'pick_four_unique_nodes_quickly', 'n': n, 'draws': draws}
        ctx.case(case, nontrivial=True)
        ctx.count('pick4:n=%d' % n)
        ctx.count('pick4:retries>0' if len(draws) > 1 else 'pick4:retries=0')
        q = tuple(int(x) for x in q)
        ctx.check(len(set(q)) == 4 and all(0 <= x < n for x in q), 'pick_four_unique_nodes_quickly:distinct', 'returned %s: not four distinct nodes < n' % (q,), case)
        k = draws[-1]
        ctx.check(all(e[0] == 'randint' and tuple(e[1]) == (n ** 4,) for e in rec.log) and q == (k % n, k // n % n, k // n ** 2 % n, k // n ** 3 % n),
                  'pick_four_unique_nodes_quickly:digits', 'not the base-n digits of the last randint(n**4) draw', case)
        lines.append('pick4 %d %s' % (n, enc_list(draws)))
        pend.append(('pick4', case, q, None))

    # ---------- randmio_dir_signed / randmio_und_signed
    def one_randmio(und, g, itr, rec, seed, tag=None):
        fn = 'randmio_und_signed' if und else 'randmio_dir_signed'
        A, Zm, scale, fam = g['A'], g['Z'], g['scale'], g['fam']
        n = len(A)
        _verif.reset()
        case = {'fn': fn, 'W': A.tolist(), 'dtype': str(A.dtype), 'itr': itr, 'seed': seed, 'family': fam}
        if tag:
            case['first_draw'] = tag
        exc = None
        try:
            R, eff = call(getattr(bct, fn), A.copy(), itr, seed=rec, _t=30.0)
        except Timeout:
            ctx.case(case, nontrivial=False)
            ctx.fail(fn + ':raises', 'does not return within 30 s', case)
            return
        except Exception as e:
            exc = e
        tie_variants(case)
        ctx.count('%s:%s' % (fn, fam)); ctx.count('%s:n=%d' % (fn, n)); ctx.count('%s:itr=%d' % (fn, itr))
        ctx.count('%s:weights=%s' % (fn, g['kind'])); ctx.count('%s:dtype=%s' % (fn, 'int' if g['isint'] else 'float'))
        draws = [int(e[3]) for e in rec.log]
        shape_ok = all(e[0] == 'randint' and tuple(e[1]) == (n ** 4,) for e in rec.log)
        if exc is not None:
            ctx.case(case, nontrivial=False)
            ctx.fail(fn + ':raises', 'raised %r on a %d-node %s network instead of returning' % (exc, n, A.dtype), case)
            if shape_ok:
                lines.append('rs %d %s %d %s' % (und, enc_mat(Zm), itr, enc_list(draws)))
                pend.append(('rs_raise', case, type(exc).__name__, None))
            return
        events = [ev[1] for ev in _verif.LOG if ev[0] == 'swap']
        ctx.case(case, nontrivial=eff > 0)
        ctx.count('%s:accepted_swaps' % fn, int(eff))
        if fam not in ('asym', 'nearsym'):     # outside the quantifier (symmetric input for *_und): correspondence only
            ok = oracle_matrix(ctx, fn, A.tolist(), R.tolist(), und, case, selfloops='kept')
            ctx.check(all(R[i, i] == A[i, i] for i in range(n)), fn + ':diag_written', 'a diagonal entry was written', case)
            if ok:   # every intermediate state as well
                for k, ev in enumerate(events):
                    if not oracle_matrix(ctx, fn, A.tolist(), ev['R'].tolist(), und, case, what='after swap %d %s: ' % (k, tuple(int(x) for x in ev['abcd'])), selfloops='kept'):
                        break
        ctx.check(eff == len(events), fn + ':eff', 'eff=%s but %d swaps were made' % (eff, len(events)), case)
        if not shape_ok:
            ctx.mismatch(fn + ':stream', 'draws other than randint(n**4) were made', case)
            return
        lines.append('rs %d %s %d %s' % (und, enc_mat(Zm), itr, enc_list(draws)))
        pend.append(('rs', case, (R, int(eff), events, scale), None))

    for t in range(ctx.scale(130, 1000)):
        for und in (0, 1):
            u = r.rand()
            if und and u < 0.04:
                g = gen_nearsym(ctx)
            elif und and u < 0.08:
                g = gen_matrix(ctx, 0, 'mixed'); g['fam'] = 'asym'
            else:
                g = gen_matrix(ctx, und)
            itr = int(r.choice(ITRS))
            if len(g['A']) > 9 and itr > 3:
                itr = 2
            seed = int(r.randint(1 << 30))
            one_randmio(und, g, itr, Rec(seed), seed)

    # ---------- exhaustive small tier (n = 4): the first quad is prescribed, the rest of the stream is random
    quads = [(a, b, c, d) for a in range(4) for b in range(4) for c in range(4) for d in range(4) if len({a, b, c, d}) == 4]
    step = ctx.scale(24, 1)
    off = int(r.randint(step))
    for code in range(3 ** 6):
        for qi, q in enumerate(quads):
            if (code * 7 + qi) % step != off % step:
                continue
            Z = pattern_und4(code, [int(x) for x in r.permutation(6) + 1])
            g = {'A': Z.astype(float) / 2, 'Z': Z.tolist(), 'scale': 2, 'fam': 'exh4', 'isint': False, 'kind': 'dyadic'}
            seed = int(r.randint(1 << 30))
            k = q[0] + 4 * q[1] + 16 * q[2] + 64 * q[3]
            one_randmio(1, g, 1, Scripted(seed, [k]), seed, tag=k)
    step = ctx.scale(6, 1)
    off = int(r.randint(step))
    for qi, q in enumerate(quads):
        a, b, c, d = q
        for code in range(81):
            if (qi * 81 + code) % step != off % step:
                continue
            Z = np.zeros((4, 4), dtype=np.int64)
            mags = [int(x) for x in r.permutation(12) + 1]
            cells = [(i, j) for i in range(4) for j in range(4) if i != j]
            for (i, j), m in zip(cells, mags):
                Z[i, j] = int(r.choice([0, 1, -1])) * m
            for kk, (i, j) in enumerate(((a, b), (c, d), (a, d), (c, b))):
                Z[i, j] = (0, 1, -1)[code // 3 ** kk % 3] * mags[cells.index((i, j))]
            g = {'A': Z.astype(float) / 2, 'Z': Z.tolist(), 'scale': 2, 'fam': 'exh4', 'isint': False, 'kind': 'dyadic'}
            seed = int(r.randint(1 << 30))
            k = a + 4 * b + 16 * c + 64 * d
            one_randmio(0, g, 1, Scripted(seed, [k]), seed, tag=k)

    # ---------- null_model_dir_sign / null_model_und_sign
    def one_null(und, g, bs, wf, seed):
        fn = 'null_model_und_sign' if und else 'null_model_dir_sign'
        A, Zm, scale, fam = g['A'], g['Z'], g['scale'], g['fam']
        n = len(A)
        rec = Rec(seed)
        _verif.reset()
        case = {'fn': fn, 'W': A.tolist(), 'dtype': str(A.dtype), 'bin_swaps': bs, 'wei_freq': wf, 'seed': seed, 'family': fam}
        out, exc, log = with_np_log(getattr(bct, fn), A.copy(), bs, wf, seed=rec)
        tie_variants(case)               # input-representation layer: the model comparison of this case is batched and comes later
        ctx.count('%s:%s' % (fn, fam)); ctx.count('%s:n=%d' % (fn, n)); ctx.count('%s:bin_swaps=%d' % (fn, bs))
        ctx.count('%s:wei_freq=%s' % (fn, wf if wf in WFS else 'random'))
        ctx.count('%s:weights=%s' % (fn, g['kind'])); ctx.count('%s:dtype=%s' % (fn, 'int' if g['isint'] else 'float'))
        kinds = [e[0] for e in rec.log]
        ni = sum(1 for kd in kinds if kd == 'randint')
        stream_ok = kinds == ['randint'] * ni + ['permutation'] * (len(kinds) - ni) and all(tuple(e[1]) == (n ** 4,) for e in rec.log[:ni])
        ints = [int(e[3]) for e in rec.log[:ni]]
        perms = [[int(x) for x in e[3]] for e in rec.log[ni:]]
        close = bool(log['allclose'][-1]) if log['allclose'] else False
        wfq = F(wf)                                    # the exact value of the binary64 argument
        # np.round(1/wei_freq) is the LAST np.round of the call, provided the dealing phase was reached
        reached = exc is None or not isinstance(exc, (RecursionError, bct.utils.BCTParamError))
        pf = 0 if wf == 0 else int(log['round'][-1]) if (reached and log['round']) else int(np.round(1 / wf))
        if wf != 0 and pf != int(round_half_even(1 / wfq)):
            ctx.count('nm:float_period_differs_from_exact_rounding')
        # the two float decisions handed to the model as oracles are cross-checked against an independent evaluation of
        # the same binary64 expressions (deterministic, so no borderline cases)
        if wf != 0 and pf != int(np.round(1 / wf)):
            ctx.mismatch(fn + ':period', 'the run used wei_period=%d, np.round(1/wei_freq) is %d' % (pf, int(np.round(1 / wf))), case, int(np.round(1 / wf)), pf)
        if und:
            want = bool(np.allclose(A, A.T))
            got = not isinstance(exc, bct.utils.BCTParamError) if exc is not None else True
            if log['allclose'] and (close != want or got != want):
                ctx.mismatch(fn + ':allclose', 'input %s by np.allclose(W, W.T) but the routine %s it' % ('symmetric' if want else 'not symmetric', 'accepted' if got else 'rejected'), case, want, got)
        line = 'nm %d %s %d %d %s %d %s %s %s' % (und, enc_mat(Zm), close, bs, enc_q(wfq), pf, enc_list(ints), enc_mat(log['argsort']), enc_mat(perms))
        symmetric = all(Zm[i][j] == Zm[j][i] for i in range(n) for j in range(n))
        if exc is not None:
            ctx.case(case, nontrivial=False)
            nm = type(exc).__name__
            if isinstance(exc, bct.utils.BCTParamError) and und and not symmetric:
                ctx.count('null_model_und_sign:rejected')          # the contract: asymmetric input is refused
            else:
                ctx.fail(fn + ':raises', 'raised %r on a %d-node %s network instead of returning' % (exc, n, A.dtype), case)
            if stream_ok:
                lines.append(line)
                pend.append(('nm_raise', case, nm, None))
            return
        W0, cc = out
        events = [ev[1] for ev in _verif.LOG if ev[0] == 'swap']
        Ac = clear_diag(A.tolist())
        nw = sum(1 for row in Ac for x in row if x != 0)
        ctx.case(case, nontrivial=len(events) > 0 or nw >= 2)
        ctx.count('%s:accepted_swaps' % fn, len(events))
        if und and not symmetric:
            ctx.count('null_model_und_sign:asymmetric_accepted_by_allclose')     # outside the quantifier: correspondence only
        else:
            ok = oracle_matrix(ctx, fn, Ac, W0.tolist(), und, case)
            # the rewired sign pattern (every intermediate state of the inner rewiring) keeps the invariant too
            if ok:
                for k, ev in enumerate(events):
                    if not oracle_matrix(ctx, fn, Ac, ev['R'].tolist(), und, case, what='rewiring state %d: ' % k):
                        break
            # returned correlations = corrcoef of the strength sequences of (diagonal-cleared) input and output, and lie in [-1, 1]
            if ok:
                sa, so = strengths(Ac), strengths(W0.tolist())
                for k, nm in enumerate(('rpos_in', 'rpos_out', 'rneg_in', 'rneg_out')):
                    c3 = corr3(sa[k], so[k])
                    ctx.check(corr_close(c3, cc[k]), fn + ':corr', '%s returned %r, corrcoef of the strength sequences is %s' % (nm, float(cc[k]), corr_value(c3)), case)
                    ctx.check(bool(np.isnan(cc[k])) or -1 - 1e-12 <= float(cc[k]) <= 1 + 1e-12, fn + ':corr', '%s = %r outside [-1, 1]' % (nm, float(cc[k])), case)
                    if sa[k] == so[k] and c3[1] != 0:
                        ctx.count('nm:strengths_kept')
                        ctx.check(abs(float(cc[k]) - 1) <= 1e-9, fn + ':corr', '%s = %r although the strength sequence is unchanged' % (nm, float(cc[k])), case)
        if not stream_ok:
            ctx.mismatch(fn + ':stream', 'recorded draws are not randint(n**4)* permutation*', case, None, kinds[:50])
            return
        lines.append(line)
        pend.append(('nm', case, (W0, cc, events, scale), None))

    for t in range(ctx.scale(200, 1500)):
        for und in (0, 1):
            u = r.rand()
            g = gen_nearsym(ctx) if (und and u < 0.06) else gen_matrix(ctx, und)
            bs = int(r.choice([0, 1, 1, 2, 3, 5, 10]))
            if len(g['A']) > 9 and bs > 3:
                bs = 2
            wf = float(WFS[int(r.randint(len(WFS)))]) if r.rand() < 0.8 else float(r.uniform(0.02, 1.0))
            one_null(und, g, bs, wf, int(r.randint(1 << 30)))
    # all sign patterns of a symmetric 4-node network through the undirected null model
    step = ctx.scale(8, 1)
    off = int(r.randint(step))
    for code in range(3 ** 6):
        if code % step != off:
            continue
        Z = pattern_und4(code, [int(x) for x in r.permutation(6) + 1])
        g = {'A': Z.astype(float) / 2, 'Z': Z.tolist(), 'scale': 2, 'fam': 'exh4', 'isint': False, 'kind': 'dyadic'}
        one_null(1, g, 1, float(WFS[code % len(WFS)]), int(r.randint(1 << 30)))

    # ---------- rejection clause: asymmetric input to the undirected null model
    for t in range(ctx.scale(10, 60)):
        g = gen_matrix(ctx, 0, 'mixed', n=int(r.randint(4, 10)), allow_int=False)
        A = g['A']
        if np.array_equal(A, A.T):
            continue
        case = {'fn': 'null_model_und_sign', 'W': A.tolist(), 'malformed': 'asymmetric'}
        ctx.case(case, nontrivial=True)
        ctx.count('null_model_und_sign:rejected')
        try:
            call(bct.null_model_und_sign, A.copy(), 1, 0.5, seed=Rec(1), _t=20.0)
            ctx.fail('null_model_und_sign:reject', 'asymmetric input accepted', case)
        except bct.utils.BCTParamError:
            pass
        except Exception as e:
            ctx.fail('null_model_und_sign:reject', 'raised %r instead of BCTParamError' % (e,), case)
        lines.append('nm 1 %s 0 1 1/2 2 0 0 0' % enc_mat(g['Z']))
        pend.append(('nm_raise', case, 'BCTParamError', None))

    # ---------------- correspondence: extracted Coq model on the same inputs and draws
    if os.environ.get("C06_DUMP"): open(os.environ["C06_DUMP"], "w").write("\n".join(lines) + "\n")
    res = run_model(ID, lines)
    ctx.model_cases = len(lines)
    EXC = {'BCTParamError': 'ParamError'}
    for (kind, case, impl, _), m in zip(pend, res):
        fn = case['fn']
        if is_err(m):
            ctx.mismatch('model-error', m['error'], case)
            continue
        if kind == 'pick4':
            if m is None or tuple(m[0]) != impl or m[1] != 0:
                ctx.mismatch(fn, 'model %s / impl %s (unread draws must be 0)' % (m, impl), case, m, impl)
            continue
        if kind == 'rs_raise':
            # the model of randmio_*_signed has no way to raise (None only when the recorded draws run out)
            ctx.mismatch(fn + ':raises', 'implementation raised %s, model %s' % (impl, 'returns' if m is not None else 'runs out of recorded draws'), case, None, impl)
            continue
        if kind == 'nm_raise':
            got = m.get('raise') if isinstance(m, dict) else 'returns'
            if EXC.get(impl) != got:
                ctx.mismatch(fn + ':raises', 'implementation raised %s, model outcome %s' % (impl, got), case, got, impl)
            else:
                ctx.count('nm:raise_replayed:' + got)
            continue
        if kind == 'rs':
            R, eff, events, scale = impl
            if m is None:
                ctx.mismatch(fn, 'model: the recorded draws run out but the implementation returned', case)
                continue
            Rm, effm, rest, tr = m
            if not np.array_equal(unscale(Rm, scale).reshape(R.shape), R):
                ctx.mismatch(fn, 'final matrices differ', case, Rm, R)
            elif effm != eff or rest != 0:
                ctx.mismatch(fn + ':eff', 'model eff=%d unread=%d / impl eff=%d' % (effm, rest, eff), case, effm, eff)
            else:
                cmp_trace(ctx, fn, case, tr, events, scale)
            continue
        if kind == 'nm':
            W0, cc, events, scale = impl
            if isinstance(m, dict):
                ctx.mismatch(fn, 'model outcome %s on the recorded orders/draws but the implementation returned' % m.get('raise'), case)
                continue
            Wm, corr, Wr, tr, unread = m
            if not cmp_trace(ctx, fn, case, tr, events, scale):
                continue
            if events and not np.array_equal(unscale(Wr, scale), events[-1]['R']):
                ctx.mismatch(fn + ':rewired', 'rewired matrix differs from the last swap event', case, Wr, events[-1]['R'])
                continue
            if not np.array_equal(unscale(Wm, scale).reshape(W0.shape), W0):
                ctx.mismatch(fn + ':deal', 'dealt matrices differ (same draws, same argsort orders)', case, Wm, W0)
                continue
            if list(unread) != [0, 0, 0]:
                ctx.mismatch(fn + ':stream', 'model leaves recorded randint/argsort/permutation results unread: %s' % (unread,), case, unread, [0, 0, 0])
                continue
            for k, c in enumerate(corr):
                c3 = tuple(dec_z(x) for x in c)
                if not corr_close(c3, cc[k]):
                    ctx.mismatch(fn + ':corr', 'correlation %d: model (cxy,cxx,cyy)=%s impl %r' % (k, c3, float(cc[k])), case, c3, float(cc[k]))
                    break
            else:
                ctx.count('nm:exact_replay_ok')


def cmp_trace(ctx, fn, case, tr, events, scale=1):
    if len(tr) != len(events):
        ctx.mismatch(fn + ':swaps', 'model accepted %d swaps, implementation %d' % (len(tr), len(events)), case, len(tr), len(events))
        return False
    for k, ((q, M), ev) in enumerate(zip(tr, events)):
        if tuple(q) != tuple(int(x) for x in ev['abcd']) or not np.array_equal(unscale(M, scale), ev['R']):
            ctx.mismatch(fn + ':swap', 'state after accepted swap %d differs: model abcd=%s impl abcd=%s' % (k, q, tuple(int(x) for x in ev['abcd'])), case, M, ev['R'])
            return False
    return True


def round_half_even(x):
    f = math.floor(x)
    r = x - f
    if r < F(1, 2):
        return f
    if r > F(1, 2):
        return f + 1
    return f if f % 2 == 0 else f + 1


def replay(ctx, payload):
    """./check C06 --replay <file>: re-run the recorded case on the current tree and re-evaluate the oracle"""
    import bct, json
    from bct.utils import _verif
    case = payload.get('case') or payload.get('detail', {}).get('case')
    if not case:
        print(json.dumps(payload, indent=1)); return 0
    fn = case['fn']
    print('replaying', json.dumps(case))
    if fn == 'pick_four_unique_nodes_quickly':
        class Fixed(object):
            def __init__(self, xs): self.xs = list(xs)
            def randint(self, *a, **k): return self.xs.pop(0)
        import bct.utils.miscellaneous_utilities as mu
        old = mu.get_rng; mu.get_rng = lambda s=None: s
        try:
            q = tuple(int(x) for x in mu.pick_four_unique_nodes_quickly(case['n'], Fixed(case['draws'])))
        finally:
            mu.get_rng = old
        ok = len(set(q)) == 4 and all(0 <= x < case['n'] for x in q)
        print('returned', q, 'OK' if ok else 'VIOLATED: not four distinct nodes < n')
        return 0 if ok else 1
    A = np.array(case['W'], dtype=np.dtype(case.get('dtype', 'float64')))
    n = len(A)
    und = fn.endswith('und_signed') or fn.endswith('und_sign')
    _verif.reset()
    if case.get('malformed'):
        try:
            bct.null_model_und_sign(A.astype(float), 1, 0.5, seed=Rec(1)); print('VIOLATED: asymmetric input accepted'); return 1
        except bct.utils.BCTParamError:
            print('rejected: OK'); return 0
    rec = Scripted(case['seed'], [case['first_draw']]) if 'first_draw' in case else Rec(case['seed'])
    try:
        if fn.startswith('randmio'):
            R, eff = getattr(bct, fn)(A.copy(), case['itr'], seed=rec)
            oracle_matrix(ctx, fn, A.tolist(), R.tolist(), und, case, selfloops='kept')
            ctx.check(all(R[i, i] == A[i, i] for i in range(n)), fn + ':diag_written', 'a diagonal entry was written', case)
            print('output', R.tolist(), 'eff', eff)
        else:
            W0, cc = getattr(bct, fn)(A.copy(), case['bin_swaps'], case['wei_freq'], seed=rec)
            Ac = clear_diag(A.tolist())
            if oracle_matrix(ctx, fn, Ac, W0.tolist(), und, case):
                sa, so = strengths(Ac), strengths(W0.tolist())
                for k in range(4):
                    ctx.check(corr_close(corr3(sa[k], so[k]), cc[k]), fn + ':corr', 'correlation %d differs from corrcoef of the strength sequences' % k, case)
            print('output', W0.tolist(), 'corr', [float(x) for x in cc])
    except Exception as e:
        nm = type(e).__name__
        ctx.fail(fn + ':raises', 'raised %s: %s' % (nm, str(e)[:160]), case)
    for f in ctx.oracle_fail:
        print('VIOLATED', f['key'], f['what'])
    for k, h in ctx.known_hits.items():
        print('KNOWN-FINDING', k, h['what'])
    if not ctx.oracle_fail:
        print('all clauses hold on this input' if not ctx.known_hits else 'no violation other than the known findings above')
    return 1 if ctx.oracle_fail else 0
