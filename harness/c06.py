"""C06 — signed null models keep each node's positive/negative degree and all weights.

randmio_dir_signed / randmio_und_signed / null_model_dir_sign / null_model_und_sign
(bct/algorithms/reference.py) and pick_four_unique_nodes_quickly (bct/utils/miscellaneous_utilities.py).

Direct oracle (independent of the library) on every clause of the property, on the final output and on
the matrix after EVERY accepted swap ('swap' hook events).  Correspondence by stream replay: the extracted
Coq model is fed the recorded rng.randint / rng.permutation draws (common.Rec) and, for the dealing phase,
the np.argsort results captured by a recording proxy for the `np` name of bct.algorithms.reference (run
time only, nothing in /repo is edited); it must then reproduce the implementation's matrices EXACTLY.
"""
import math
from fractions import Fraction as F
import numpy as np
from common import *

ID = 'C06'
COQ_FILES = ['Base/Mat.v', 'Base/ListX.v', 'Model/Signed.v', 'Model/NullModel.v', 'Proofs/Signed.v',
             'Proofs/NullModelLists.v', 'Proofs/NullModel.v', 'Proofs/NullModelTop.v', 'Proofs/NullModelCorr.v',
             'Properties/C06.v']
THEOREMS = ['C06_pick4_distinct', 'C06_pick4_digits', 'C06_pick4_needs_4', 'C06_signed_step_inv', 'C06_signed_step_inv_general',
            'C06_signed_run_inv', 'C06_signed_run_inv_general', 'C06_deal_multiset_corr_def',
            'C06_null_model_inv_general', 'C06_null_model_rewiring_inv', 'C06_null_model_und_rejects',
            'C06_corr3_var', 'C06_corr3_cov']
RULE = ('signed integer matrices, weights in -4..4 \\ {0}, n = 4..9, densities 0.3-1.0, directed for *_dir / symmetric for '
        '*_und; families: both signs present (mixed), one sign only, fully connected positive support (rewiring skipped), '
        'sparse, all-equal magnitudes (many ties), nonzero input diagonal (null_model clears it); itr/bin_swaps in {0,1,2,5}, '
        'wei_freq in {0, 0.1, 0.25, 0.3, 0.4, 0.5, 1}; plus asymmetric input to null_model_und_sign (rejection). '
        'non-trivial = at least one accepted swap or at least two weights dealt; distinct by hash of (function, matrix, parameters, seed)')
ASSUMES = ['weights are small integers: every float operation the model treats as exact (moves, sign tests, s*w, W0+W0.T, sums of strengths) is exact in binary64',
           'the recorded stream splits by kind: every rng.randint precedes the first rng.permutation (checked on each run)',
           'np.argsort(P.flat[Lij]) is a float-decided order and is taken from the run (oracle); the model checks only that it is a permutation; the P / S / Si / So updates feeding it are not modelled',
           'wei_freq values are such that np.round(1/wei_freq) equals the exact half-to-even rounding of the rational (checked per case)',
           'returned correlations are compared with cxy/sqrt(cxx*cyy) of the exact integer strength sequences at relative tolerance 1e-9; NaN iff cxx*cyy = 0']
TRUSTED = ['recording proxy for the module global `np` of bct.algorithms.reference during null_model_* calls (forwards every attribute, logs argsort results)']


# ---------------------------------------------------------------- instrumentation
class NpProxy(object):
    """stands in for the name `np` inside bct.algorithms.reference while a null model runs"""

    def __init__(self, real, log):
        self._r = real
        self._log = log

    def __getattr__(self, k):
        return getattr(self._r, k)

    def argsort(self, *a, **k):
        r = self._r.argsort(*a, **k)
        self._log.append(np.asarray(r).tolist())
        return r


def with_argsort_log(f, *a, **k):
    import bct.algorithms.reference as ref
    log = []
    old = ref.np
    ref.np = NpProxy(old, log)
    try:
        out = call(f, *a, _t=20.0, **k)
    finally:
        ref.np = old
    return out, log


# ---------------------------------------------------------------- generators
def gen_matrix(ctx, und, fam=None):
    r = ctx.nprng
    n = int(r.randint(4, 10))
    fam = fam or str(r.choice(['mixed', 'mixed', 'mixed', 'dense', 'sparse', 'pos_only', 'neg_only', 'pos_full', 'ties', 'diag']))
    dens = {'mixed': float(r.choice([0.4, 0.6, 0.8])), 'dense': 1.0, 'sparse': 0.3, 'pos_only': 0.6, 'neg_only': 0.6,
            'pos_full': 1.0, 'ties': 0.7, 'diag': 0.6}[fam]
    W = np.zeros((n, n), dtype=int)
    for i in range(n):
        for j in range(n):
            if i == j or (und and j < i):
                continue
            if r.rand() < dens:
                mag = 2 if fam == 'ties' else int(r.randint(1, 5))
                sg = 1 if fam in ('pos_only', 'pos_full') else -1 if fam == 'neg_only' else (1 if r.rand() < 0.55 else -1)
                W[i, j] = sg * mag
    if und:
        W = W + W.T
    if fam == 'diag':
        for i in range(n):
            W[i, i] = int(r.randint(-2, 3))
    return W, fam


# ---------------------------------------------------------------- direct oracle (property text)
def degs(M):
    n = len(M)
    return ([sum(1 for j in range(n) if M[i][j] > 0) for i in range(n)], [sum(1 for j in range(n) if M[i][j] < 0) for i in range(n)],
            [sum(1 for i in range(n) if M[i][j] > 0) for j in range(n)], [sum(1 for i in range(n) if M[i][j] < 0) for j in range(n)])


def oracle_matrix(ctx, fn, A, R, und, case, what='', diag_clause='empty'):
    """every matrix clause of the property for output R against input A (lists of python ints/floats)"""
    n = len(A)
    Ai = [[int(x) for x in row] for row in A]
    ok = True
    if not all(float(x) == int(x) for row in R for x in row):
        ctx.fail(fn + ':weights', what + 'non-integer entry in the output of an integer input', case)
        return False
    Ri = [[int(x) for x in row] for row in R]
    da, dr = degs(Ai), degs(Ri)
    for k, nm in enumerate(('pos_out', 'neg_out', 'pos_in', 'neg_in')):
        ok &= ctx.check(da[k] == dr[k], fn + ':degree', what + '%s degrees differ: input %s output %s' % (nm, da[k], dr[k]), case)
    for sg, nm in ((1, 'positive'), (-1, 'negative')):
        a = sorted(x for row in Ai for x in row if x * sg > 0)
        b = sorted(x for row in Ri for x in row if x * sg > 0)
        ok &= ctx.check(a == b, fn + ':weights', what + 'multiset of %s weights differs: input %s output %s' % (nm, a, b), case)
    if diag_clause == 'empty':
        ok &= ctx.check(all(Ri[i][i] == 0 for i in range(n)), fn + ':diag', what + 'diagonal not empty', case)
    else:
        ok &= ctx.check(all(Ri[i][i] == Ai[i][i] for i in range(n)), fn + ':diag', what + 'diagonal changed', case)
    if und:
        ok &= ctx.check(all(Ri[i][j] == Ri[j][i] for i in range(n) for j in range(n)), fn + ':sym', what + 'symmetric input gave asymmetric output', case)
    return ok


def corr3(x, y):
    n = len(x)
    sx, sy = sum(x), sum(y)
    return (n * sum(a * b for a, b in zip(x, y)) - sx * sy, n * sum(a * a for a in x) - sx * sx, n * sum(b * b for b in y) - sy * sy)


def strengths(M):
    """the four strength sequences (pos_in, pos_out, neg_in, neg_out) of an integer matrix"""
    n = len(M)
    pin = [sum(M[i][j] for i in range(n) if M[i][j] > 0) for j in range(n)]
    pou = [sum(M[i][j] for j in range(n) if M[i][j] > 0) for i in range(n)]
    nin = [sum(-M[i][j] for i in range(n) if M[i][j] < 0) for j in range(n)]
    nou = [sum(-M[i][j] for j in range(n) if M[i][j] < 0) for i in range(n)]
    return pin, pou, nin, nou


def corr_close(c3, x):
    cxy, cxx, cyy = c3
    if cxx * cyy == 0:
        return bool(np.isnan(x))
    if not np.isfinite(x):
        return False
    return abs(cxy / math.sqrt(cxx * cyy) - float(x)) <= 1e-9


def clear_diag(A):
    return [[0 if i == j else int(A[i][j]) for j in range(len(A))] for i in range(len(A))]


# ---------------------------------------------------------------- main
def run(ctx):
    import bct
    from bct.utils import _verif
    from bct.utils.miscellaneous_utilities import pick_four_unique_nodes_quickly
    r = ctx.nprng
    lines, pend = [], []

    # ---------- pick_four_unique_nodes_quickly
    for t in range(ctx.scale(600, 6000)):
        n = int(r.choice([4, 4, 5, 6, 7, 9, 12, 30]))
        rec = Rec(int(r.randint(1 << 30)))
        q = call(pick_four_unique_nodes_quickly, n, rec)
        draws = [int(e[3]) for e in rec.log]
        case = {'fn': 'pick_four_unique_nodes_quickly', 'n': n, 'draws': draws}
        ctx.case(case, nontrivial=True)
        ctx.count('pick4:n=%d' % n)
        ctx.count('pick4:retries>0' if len(draws) > 1 else 'pick4:retries=0')
        q = tuple(int(x) for x in q)
        ctx.check(len(set(q)) == 4 and all(0 <= x < n for x in q), 'pick_four_unique_nodes_quickly:distinct', 'returned %s: not four distinct nodes < n' % (q,), case)
        k = draws[-1]
        ctx.check(all(e[0] == 'randint' and tuple(e[1]) == (n ** 4,) for e in rec.log) and q == (k % n, k // n % n, k // n ** 2 % n, k // n ** 3 % n),
                  'pick_four_unique_nodes_quickly:digits', 'not the base-n digits of the last randint(n**4) draw', case)
        lines.append('pick4 %d %s' % (n, enc_list(draws)))
        pend.append(('pick4', case, q, None))

    # ---------- randmio_dir_signed / randmio_und_signed
    for t in range(ctx.scale(150, 1500)):
        for und in (0, 1):
            fn = 'randmio_und_signed' if und else 'randmio_dir_signed'
            A, fam = gen_matrix(ctx, und)
            n = len(A)
            itr = int(r.choice([0, 1, 1, 2, 2, 5]))
            seed = int(r.randint(1 << 30))
            rec = Rec(seed)
            _verif.reset()
            case = {'fn': fn, 'W': A.tolist(), 'itr': itr, 'seed': seed, 'family': fam}
            try:
                R, eff = call(getattr(bct, fn), A.astype(float), itr, seed=rec, _t=30.0)
            except Exception as e:
                ctx.case(case, nontrivial=False)
                ctx.fail(fn + ':raises', 'raised %r' % (e,), case)
                continue
            events = [ev[1] for ev in _verif.LOG if ev[0] == 'swap']
            ctx.case(case, nontrivial=eff > 0)
            ctx.count('%s:%s' % (fn, fam)); ctx.count('%s:n=%d' % (fn, n)); ctx.count('%s:itr=%d' % (fn, itr))
            ctx.count('%s:accepted_swaps' % fn, int(eff))
            dc = 'same' if fam == 'diag' else 'empty'
            ok = oracle_matrix(ctx, fn, A.tolist(), R.tolist(), und, case, diag_clause=dc)
            ctx.check(eff == len(events), fn + ':eff', 'eff=%s but %d swaps were made' % (eff, len(events)), case)
            if ok:   # every intermediate state as well
                for k, ev in enumerate(events):
                    if not oracle_matrix(ctx, fn, A.tolist(), ev['R'].tolist(), und, case, what='after swap %d %s: ' % (k, tuple(int(x) for x in ev['abcd'])), diag_clause=dc):
                        break
            shape_ok = all(e[0] == 'randint' and tuple(e[1]) == (n ** 4,) for e in rec.log)
            if not shape_ok:
                ctx.mismatch(fn + ':stream', 'draws other than randint(n**4) were made', case)
                continue
            draws = [int(e[3]) for e in rec.log]
            lines.append('rs %d %s %d %s' % (und, enc_mat(A), itr, enc_list(draws)))
            pend.append(('rs', case, (R, int(eff), events), None))

    # ---------- null_model_dir_sign / null_model_und_sign
    wfs = [(F(0), 0.0), (F(1, 10), 0.1), (F(1, 2), 0.5), (F(1), 1.0), (F(2, 5), 0.4), (F(1, 4), 0.25), (F(3, 10), 0.3)]
    for t in range(ctx.scale(250, 2500)):
        for und in (0, 1):
            fn = 'null_model_und_sign' if und else 'null_model_dir_sign'
            A, fam = gen_matrix(ctx, und)
            n = len(A)
            bs = int(r.choice([0, 1, 2, 5]))
            wfq, wf = wfs[int(r.randint(len(wfs)))]
            seed = int(r.randint(1 << 30))
            rec = Rec(seed)
            _verif.reset()
            case = {'fn': fn, 'W': A.tolist(), 'bin_swaps': bs, 'wei_freq': wf, 'seed': seed, 'family': fam}
            try:
                (W0, cc), olog = with_argsort_log(getattr(bct, fn), A.astype(float), bs, wf, seed=rec)
            except Exception as e:
                ctx.case(case, nontrivial=False)
                ctx.fail(fn + ':raises', 'raised %r' % (e,), case)
                continue
            events = [ev[1] for ev in _verif.LOG if ev[0] == 'swap']
            Ac = clear_diag(A)
            nw = sum(1 for row in Ac for x in row if x != 0)
            ctx.case(case, nontrivial=len(events) > 0 or nw >= 2)
            ctx.count('%s:%s' % (fn, fam)); ctx.count('%s:n=%d' % (fn, n)); ctx.count('%s:bin_swaps=%d' % (fn, bs)); ctx.count('%s:wei_freq=%s' % (fn, wf))
            ctx.count('%s:accepted_swaps' % fn, len(events))
            ok = oracle_matrix(ctx, fn, Ac, W0.tolist(), und, case)
            # the rewired sign pattern (every intermediate state of the inner rewiring) keeps the invariant too
            if ok:
                for k, ev in enumerate(events):
                    if not oracle_matrix(ctx, fn, Ac, ev['R'].tolist(), und, case, what='rewiring state %d: ' % k):
                        break
            # returned correlations = corrcoef of the strength sequences of (diagonal-cleared) input and output
            if ok:
                sa, so = strengths(Ac), strengths([[int(x) for x in row] for row in W0.tolist()])
                for k, nm in enumerate(('rpos_in', 'rpos_out', 'rneg_in', 'rneg_out')):
                    c3 = corr3(sa[k], so[k])
                    ctx.check(corr_close(c3, cc[k]), fn + ':corr', '%s returned %r, corrcoef of the strength sequences is %s' % (
                        nm, float(cc[k]), 'nan' if c3[1] * c3[2] == 0 else c3[0] / math.sqrt(c3[1] * c3[2])), case)
            kinds = [e[0] for e in rec.log]
            ni = sum(1 for kd in kinds if kd == 'randint')
            if kinds != ['randint'] * ni + ['permutation'] * (len(kinds) - ni) or not all(tuple(e[1]) == (n ** 4,) for e in rec.log[:ni]):
                ctx.mismatch(fn + ':stream', 'recorded draws are not randint(n**4)* permutation*', case, None, kinds[:50])
                continue
            if wf != 0 and int(np.round(1 / wf)) != int(round_half_even(1 / wfq)):
                continue
            ints = [int(e[3]) for e in rec.log[:ni]]
            perms = [[int(x) for x in e[3]] for e in rec.log[ni:]]
            lines.append('nm %d %s %d %s %s %s %s' % (und, enc_mat(A), bs, enc_q(wfq), enc_list(ints), enc_mat(olog), enc_mat(perms)))
            pend.append(('nm', case, (W0, cc, events), None))

    # ---------- rejection clause: asymmetric input to the undirected null model
    for t in range(ctx.scale(10, 60)):
        A, fam = gen_matrix(ctx, 0, 'mixed')
        if np.array_equal(A, A.T):
            continue
        case = {'fn': 'null_model_und_sign', 'W': A.tolist(), 'malformed': 'asymmetric'}
        ctx.case(case, nontrivial=True)
        ctx.count('null_model_und_sign:rejected')
        try:
            call(bct.null_model_und_sign, A.astype(float), 1, 0.5, seed=Rec(1), _t=20.0)
            ctx.fail('null_model_und_sign:reject', 'asymmetric input accepted', case)
        except bct.utils.BCTParamError:
            pass
        except Exception as e:
            ctx.fail('null_model_und_sign:reject', 'raised %r instead of BCTParamError' % (e,), case)
        lines.append('nm 1 %s 1 1/2 0 0 0' % enc_mat(A))
        pend.append(('nm_reject', case, None, None))

    # ---------------- correspondence: extracted Coq model on the same inputs and draws
    res = run_model(ID, lines)
    ctx.model_cases = len(lines)
    for (kind, case, impl, _), m in zip(pend, res):
        fn = case['fn']
        if is_err(m):
            ctx.mismatch('model-error', m['error'], case)
            continue
        if kind == 'pick4':
            if m is None or tuple(m[0]) != impl or m[1] != 0:
                ctx.mismatch(fn, 'model %s / impl %s (unread draws must be 0)' % (m, impl), case, m, impl)
            continue
        if kind == 'nm_reject':
            if m is not None:
                ctx.mismatch(fn + ':reject', 'model accepts asymmetric input', case)
            continue
        if kind == 'rs':
            R, eff, events = impl
            Rm, effm, rest, tr = m
            if not np.array_equal(np.array(Rm).reshape(R.shape), R):
                ctx.mismatch(fn, 'final matrices differ', case, Rm, R)
            elif effm != eff or rest != 0:
                ctx.mismatch(fn + ':eff', 'model eff=%d unread=%d / impl eff=%d' % (effm, rest, eff), case, effm, eff)
            else:
                cmp_trace(ctx, fn, case, tr, events)
            continue
        if kind == 'nm':
            W0, cc, events = impl
            if m is None:
                ctx.mismatch(fn, 'model rejects the recorded orders/draws (None) but the implementation returned', case)
                continue
            Wm, corr, Wr, tr = m
            if not cmp_trace(ctx, fn, case, tr, events):
                continue
            if events and not np.array_equal(np.array(Wr), events[-1]['R']):
                ctx.mismatch(fn + ':rewired', 'rewired matrix differs from the last swap event', case, Wr, events[-1]['R'])
                continue
            if not np.array_equal(np.array(Wm).reshape(W0.shape), W0):
                ctx.mismatch(fn + ':deal', 'dealt matrices differ (same draws, same argsort orders)', case, Wm, W0)
                continue
            for k, c in enumerate(corr):
                c3 = tuple(dec_z(x) for x in c)
                if not corr_close(c3, cc[k]):
                    ctx.mismatch(fn + ':corr', 'correlation %d: model (cxy,cxx,cyy)=%s impl %r' % (k, c3, float(cc[k])), case, c3, float(cc[k]))
                    break
            else:
                ctx.count('nm:exact_replay_ok')


def cmp_trace(ctx, fn, case, tr, events):
    if len(tr) != len(events):
        ctx.mismatch(fn + ':swaps', 'model accepted %d swaps, implementation %d' % (len(tr), len(events)), case, len(tr), len(events))
        return False
    for k, ((q, M), ev) in enumerate(zip(tr, events)):
        if tuple(q) != tuple(int(x) for x in ev['abcd']) or not np.array_equal(np.array(M), ev['R']):
            ctx.mismatch(fn + ':swap', 'state after accepted swap %d differs: model abcd=%s impl abcd=%s' % (k, q, tuple(int(x) for x in ev['abcd'])), case, M, ev['R'])
            return False
    return True


def round_half_even(x):
    f = math.floor(x)
    r = x - f
    if r < F(1, 2):
        return f
    if r > F(1, 2):
        return f + 1
    return f if f % 2 == 0 else f + 1


def replay(ctx, payload):
    """./check C06 --replay <file>: re-run the recorded case on the current tree and re-evaluate the oracle"""
    import bct, json
    from bct.utils import _verif
    case = payload.get('case') or payload.get('detail', {}).get('case')
    if not case:
        print(json.dumps(payload, indent=1)); return 0
    fn = case['fn']
    print('replaying', json.dumps(case))
    if fn == 'pick_four_unique_nodes_quickly':
        class Fixed(object):
            def __init__(self, xs): self.xs = list(xs)
            def randint(self, *a, **k): return self.xs.pop(0)
        import bct.utils.miscellaneous_utilities as mu
        old = mu.get_rng; mu.get_rng = lambda s=None: s
        try:
            q = tuple(int(x) for x in mu.pick_four_unique_nodes_quickly(case['n'], Fixed(case['draws'])))
        finally:
            mu.get_rng = old
        ok = len(set(q)) == 4 and all(0 <= x < case['n'] for x in q)
        print('returned', q, 'OK' if ok else 'VIOLATED: not four distinct nodes < n')
        return 0 if ok else 1
    A = np.array(case['W'])
    und = fn.endswith('und_signed') or fn.endswith('und_sign')
    _verif.reset()
    if case.get('malformed'):
        try:
            bct.null_model_und_sign(A.astype(float), 1, 0.5, seed=Rec(1)); print('VIOLATED: asymmetric input accepted'); return 1
        except bct.utils.BCTParamError:
            print('rejected: OK'); return 0
    if fn.startswith('randmio'):
        R, eff = getattr(bct, fn)(A.astype(float), case['itr'], seed=Rec(case['seed']))
        oracle_matrix(ctx, fn, A.tolist(), R.tolist(), und, case, diag_clause='same' if case.get('family') == 'diag' else 'empty')
        print('output', R.tolist(), 'eff', eff)
    else:
        W0, cc = getattr(bct, fn)(A.astype(float), case['bin_swaps'], case['wei_freq'], seed=Rec(case['seed']))
        Ac = clear_diag(A)
        if oracle_matrix(ctx, fn, Ac, W0.tolist(), und, case):
            sa, so = strengths(Ac), strengths([[int(x) for x in row] for row in W0.tolist()])
            for k in range(4):
                ctx.check(corr_close(corr3(sa[k], so[k]), cc[k]), fn + ':corr', 'correlation %d differs from corrcoef of the strength sequences' % k, case)
        print('output', W0.tolist(), 'corr', [float(x) for x in cc])
    for f in ctx.oracle_fail:
        print('VIOLATED', f['key'], f['what'])
    for k, h in ctx.known_hits.items():
        print('KNOWN-FINDING', k, h['what'])
    if not ctx.oracle_fail:
        print('all clauses hold on this input')
    return 1 if ctx.oracle_fail else 0
