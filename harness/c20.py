"""C20 — synthetic generators deliver the requested size, edge count, symmetry, degree sequences, band structure."""
import io, contextlib, inspect
from fractions import Fraction as F
import numpy as np
from common import *

ID = 'C20'
COQ_FILES = ['Base/Mat.v', 'Base/ListX.v', 'Base/SumQ.v', 'Model/Generators.v', 'Model/GeneratorsExt.v',
             'Proofs/GeneratorsBase.v', 'Proofs/Generators.v', 'Proofs/GeneratorsRing.v', 'Proofs/GeneratorsDeg.v',
             'Proofs/GeneratorsTemplate.v', 'Proofs/GeneratorsProfile.v', 'Proofs/GeneratorsDomain.v',
             'Proofs/GeneratorsRepair.v', 'Proofs/GeneratorsLive.v', 'Properties/C20.v']
THEOREMS = ['C20_makerand_dir_count', 'C20_makerand_und_sym_count', 'C20_ringlattice_bands', 'C20_ringlattice_feasible_returns',
            'C20_toeplitz_exact_K', 'C20_fractal_count', 'C20_even_count', 'C20_even_clusters_only',
            'C20_degfixed_rowcol', 'C20_degfixed_invariant', 'C20_upper_cells', 'C20_template_levels',
            'C20_even_clusters_blocks', 'C20_fractal_clusters_blocks',
            'C20_toeplitz_template_shape', 'C20_toeplitz_template_sum', 'C20_toeplitz_profile_exact_K',
            'C20_toeplitz_first_accepted', 'C20_toeplitz_raise_justified', 'C20_even_exact_K_refuted',
            'C20_makerand_signed_K', 'C20_even_signed_K', 'C20_ring_negative_K', 'C20_ringlattice_infeasible_K_refuted',
            'C20_degfixed_raise_justified', 'C20_degfixed_raised', 'C20_degfixed_repair_not_raised',
            'C20_toeplitz_feasible_stream']
RULE = ('every (N,K) with N<=8 and K feasible (0..N^2-N directed, 0..N(N-1)/2 undirected) for makerandCIJ_dir/_und and '
        'makeringlatticeCIJ, 3 (thorough 10) seeds each, plus a sparse slice N in {9..12,16,33,40} (K in {0,1,band-1,band,band+1,'
        'middle,max-1,max}) and N in {130,150} (ring fully replayed, dir/und with the K-prefix of the permutation); makeevenCIJ for N in '
        '{4,8,16} (32 thorough), every cluster size, every K in 0..N^2-N at N<=8 (a slice above), 3 (10) seeds; makefractalCIJ for '
        'mx_lvl in {2,3} (4 thorough), E in {1,2,3,5,1.5,0.5}, every cluster size; maketoeplitzCIJ for N=2..12 and {16,24,40}, '
        's in {0.5,1,2,4,8}, K over the whole range for which the rejection loop still terminates, three forced-raise runs '
        '(10001 recorded draws each; two replayed in quick, all in thorough, the direct oracle on all), and a large-K family '
        '(N=400..600, K>=100000, wide s; direct oracle only: exact count, 0/1, diagonal; 3 runs quick, 20 thorough/escalated); makerandCIJdegreesfixed on the in/out degree sequences of random digraphs '
        'N=2..8 at densities .15-.7, sparse digraphs N=9..40 and N=150 (graphical by construction). Out-of-domain slice '
        '(K<0, K>cells, infeasible ring K, N not a power of two, sz_cl<=0 or >mx, mx_lvl<2, sum(inv)!=sum(outv), '
        'len(outv)<len(inv)): model and code must still agree (correspondence only, no property oracle). The draws of '
        'each call are recorded with common.Rec and replayed into the extracted model: outputs must be IDENTICAL. '
        'non-trivial = K>0 (at least one connection requested); distinct by hash of (function, parameters, seed)')
ASSUMES = ['rng.permutation(m) returns a permutation of 0..m-1, rng.randint(k) a value in [0,k), rng.random_sample values in [0,1) '
           '(hypotheses of the theorems; checked on every recorded stream of every generator)',
           'maketoeplitzCIJ: scipy.stats.norm.pdf is a numeric kernel (an arbitrary function pf of the distance in the theorems); '
           'the template the code really builds is captured (proxy around scipy.linalg.toeplitz) and must be the Toeplitz matrix of '
           '(0, pf) scaled in place; the rounded product pf*(K/sum) is compared with the exact model within 1e-9, the replay uses the '
           'captured doubles as exact rationals. makefractalCIJ: the floats 1/E**e are handed to the model as exact rationals '
           '(the theorems hold for ANY values)',
           'outside the documented domain (property quantifier: feasible K, powers of two, graphical pairs): K > number of admissible '
           'cells, K < 0, K below the cluster cells of makeevenCIJ (documented warning branch), N not a power of two, sz_cl <= 0 or '
           '> log2 N, mx_lvl < 2, E = 0, degree lists of different sum or length. The model mirrors the code there and both are run '
           '(family ood:*), but nothing there counts as a violation of C20']
TRUSTED = ['makerandCIJdegreesfixed may raise BCTParamError on a graphical pair when the repair loop has tried every stub '
           '(documented: "not guaranteed to terminate"); such runs are counted (degfixed:unresolved), replayed in the model '
           '(which must also report Raised; C20_degfixed_raise_justified: then every stub had an occupied target cell) and are '
           'not violations: the theorem is about runs that return',
           'maketoeplitzCIJ may raise BCTParamError after 10000 rejected samples (C20_toeplitz_raise_justified); the harness '
           'checks on the recorded stream that really 10001 draws were made and the first 10000 were all rejected']


def quiet(f, *a, **k):
    buf = io.StringIO()
    with contextlib.redirect_stdout(buf):
        return call(f, *a, **k), buf.getvalue()


def is01(C):
    C = np.asarray(C)
    return bool(np.all((C == 0) | (C == 1)))


def perm_ok(p, m):
    return sorted(p) == list(range(m))


def dec_mat(m):
    return np.array(dec_deep(m, dec_z), dtype=float)


def fq(x):
    return F(float(x))


def enc_qb(x):
    f = F(x)
    return '%s/%s' % (bin(f.numerator) if f.numerator else '0', bin(f.denominator))


def enc_f(x):
    """binary64 -> exact rational token (fast path of enc_qb(fq(x)))"""
    a, b = float(x).as_integer_ratio()
    return '%s/%s' % (bin(a) if a else '0', bin(b))


def blen(x):
    return int(x).bit_length()


class RecA(Rec):
    """Rec that keeps random_sample draws as arrays (the toeplitz exception path records 10001 of them)"""

    def random_sample(self, *a, **k):
        r = np.random.RandomState.random_sample(self, *a, **k)
        self.log.append(('random_sample', a, k, r))
        return r


class NpProxy:
    """stands in for the module global `np` of bct.algorithms.reference during one call: records every array np.ones
    returns (the hierarchical template of makeevenCIJ / makefractalCIJ is one of them, updated in place)"""

    def __init__(self, real):
        self._real = real
        self.ones_log = []

    def __getattr__(self, name):
        return getattr(self._real, name)

    def ones(self, *a, **k):
        r = self._real.ones(*a, **k)
        self.ones_log.append(r)
        return r


def with_np_proxy(f, *a, **k):
    g = inspect.unwrap(f).__globals__        # (bct functions reach the harness through the input-variant proxy of common.py)
    real = g.get('np')
    px = NpProxy(real)
    g['np'] = px
    try:
        return quiet(f, *a, **k), px
    finally:
        g['np'] = real


def captured_template(px, n):
    """the first n x n array np.ones produced: created in the last loop iteration and modified in place up to
    `CIJ -= ones + mx_lvl*eye`; later n x n products of np.ones are temporaries that stay all-ones"""
    for A in px.ones_log:
        if getattr(A, 'shape', None) == (n, n):
            return A
    return None


class ScipyCapture:
    """records what scipy.stats.norm.pdf and scipy.linalg.toeplitz return inside maketoeplitzCIJ; the array toeplitz
    returns is the very object the code scales in place and compares the samples with"""

    def __enter__(self):
        from scipy import linalg, stats
        self.linalg, self.stats = linalg, stats
        self.pdf, self.tpl, self.unscaled = [], [], []
        self._t = linalg.toeplitz
        self._had = 'pdf' in vars(stats.norm)
        self._p = stats.norm.pdf

        def toeplitz(*a, **k):
            r = self._t(*a, **k)
            self.tpl.append(r); self.unscaled.append(np.array(r, copy=True))
            return r

        def pdf(x, *a, **k):
            r = self._p(x, *a, **k)
            self.pdf.append(np.array(r, copy=True))
            return r
        linalg.toeplitz = toeplitz
        stats.norm.pdf = pdf
        return self

    def __exit__(self, *exc):
        self.linalg.toeplitz = self._t
        if self._had:
            self.stats.norm.pdf = self._p
        else:
            try:
                del self.stats.norm.pdf
            except AttributeError:
                pass
        return False


def run(ctx):
    import bct
    from bct.utils import BCTParamError
    r = ctx.nprng
    lines, pend = [], []
    nseeds = ctx.scale(3, 10)

    def seeds(k=nseeds):
        return [int(r.randint(1 << 30)) for _ in range(k)]

    def ringD(n):
        return np.array([[min((i - j) % n, (j - i) % n) for j in range(n)] for i in range(n)]).reshape(n, n)

    # ------------------------------------------------------------ makerandCIJ_dir / _und / ring lattice
    def one_dir(n, K, sd, prefix=False):
        rec = Rec(sd)
        C = call(bct.makerandCIJ_dir, n, K, seed=rec, _t=30.0)
        case = {'fn': 'makerandCIJ_dir', 'n': n, 'k': K, 'seed': sd}
        ctx.case(case, nontrivial=K > 0); ctx.count('rand_dir:n=%d' % n if n <= 8 else 'rand_dir:n>8')
        ok = ctx.check(C.shape == (n, n), 'makerandCIJ_dir:shape', 'not N x N', case)
        if ok:
            ctx.check(is01(C), 'makerandCIJ_dir:binary', 'entries outside {0,1}', case)
            ctx.check(int(C.sum()) == K, 'makerandCIJ_dir:count', '%d connections instead of %d' % (int(C.sum()), K), case)
            ctx.check(not np.any(np.diag(C)), 'makerandCIJ_dir:diagonal', 'diagonal not empty', case)
        rp = [e[3] for e in rec.log if e[0] == 'permutation']
        if len(rp) == 1 and perm_ok(rp[0], n * n - n):
            lines.append('rand_dir %d %d %s' % (n, K, enc_list(rp[0][:K] if prefix else rp[0]))); pend.append(('mat', 'makerandCIJ_dir', case, C))
        else:
            ctx.mismatch('makerandCIJ_dir:stream', 'expected exactly one permutation(n^2-n) draw', case, None, [len(x) for x in rp])

    def one_und(n, K, sd, prefix=False):
        rec = Rec(sd)
        C = call(bct.makerandCIJ_und, n, K, seed=rec, _t=30.0)
        case = {'fn': 'makerandCIJ_und', 'n': n, 'k': K, 'seed': sd}
        ctx.case(case, nontrivial=K > 0); ctx.count('rand_und:n=%d' % n if n <= 8 else 'rand_und:n>8')
        ok = ctx.check(C.shape == (n, n), 'makerandCIJ_und:shape', 'not N x N', case)
        if ok:
            ctx.check(is01(C), 'makerandCIJ_und:binary', 'entries outside {0,1}', case)
            ctx.check(np.array_equal(C, C.T), 'makerandCIJ_und:symmetric', 'not symmetric', case)
            ctx.check(int(np.triu(C, 1).sum()) == K and int(C.sum()) == 2 * K, 'makerandCIJ_und:count',
                      '%d undirected connections (%d entries) instead of %d (%d)' % (int(np.triu(C, 1).sum()), int(C.sum()), K, 2 * K), case)
            ctx.check(not np.any(np.diag(C)), 'makerandCIJ_und:diagonal', 'diagonal not empty', case)
        rp = [e[3] for e in rec.log if e[0] == 'permutation']
        if len(rp) == 1 and perm_ok(rp[0], (n * n - n) // 2):
            lines.append('rand_und %d %d %s' % (n, K, enc_list(rp[0][:K] if prefix else rp[0]))); pend.append(('mat', 'makerandCIJ_und', case, C))
        else:
            ctx.mismatch('makerandCIJ_und:stream', 'expected exactly one permutation(n(n-1)/2) draw', case)

    def one_ring(n, K, sd, D=None):
        rec = Rec(sd)
        case = {'fn': 'makeringlatticeCIJ', 'n': n, 'k': K, 'seed': sd}
        ctx.case(case, nontrivial=K > 0); ctx.count('ring:n=%d' % n if n <= 8 else 'ring:n>8')
        try:
            C = call(bct.makeringlatticeCIJ, n, K, seed=rec, _t=30.0)
        except Exception as e:
            ctx.fail('makeringlatticeCIJ:raises', 'raised %r on a feasible K' % (e,), case)
            return
        D = ringD(n) if D is None else D
        ok = ctx.check(C.shape == (n, n), 'makeringlatticeCIJ:shape', 'not N x N', case)
        # number of bands needed for K cells and the size of the outermost one (independent of the code)
        c = 0
        while K > 0 and int(((D >= 1) & (D <= c)).sum()) < K:
            c += 1
        if ok:
            ctx.check(is01(C), 'makeringlatticeCIJ:binary', 'entries outside {0,1}', case)
            ctx.check(int(C.sum()) == K, 'makeringlatticeCIJ:count', '%d connections instead of %d' % (int(C.sum()), K), case)
            ctx.check(not np.any(np.diag(C)), 'makeringlatticeCIJ:diagonal', 'diagonal not empty', case)
            if K > 0 and np.any(C):
                dmax = int(D[C != 0].max())
                full = all(np.all(C[D == b] == 1) for b in range(1, dmax))
                ctx.check(full, 'makeringlatticeCIJ:bands', 'a band nearer than the outermost used band (ring distance %d) is not full' % dmax, case)
                ctx.check(dmax <= c, 'makeringlatticeCIJ:bands', 'ring distance %d used although %d bands hold K cells' % (dmax, c), case)
                ctx.count('ring:partial_last_band' if not np.all(C[D == dmax] == 1) else 'ring:full_last_band')
        rp = [e[3] for e in rec.log if e[0] == 'permutation']
        if len(rp) <= 1:
            if rp:
                ctx.check(perm_ok(rp[0], int((D == c).sum())), 'stream:permutation',
                          'ring: the draw is not a permutation of the %d cells of the outermost band' % int((D == c).sum()), case)
            lines.append('ring %d %d %s' % (n, K, enc_list(rp[0] if rp else []))); pend.append(('optmat', 'makeringlatticeCIJ', case, C))
        else:
            ctx.mismatch('makeringlatticeCIJ:stream', 'more than one permutation draw', case)

    for n in range(1, 9):
        D = ringD(n)
        for K in range(0, n * n - n + 1):
            for sd in seeds():
                one_dir(n, K, sd)
                one_ring(n, K, sd, D)
                if K <= (n * n - n) // 2:
                    one_und(n, K, sd)

    # sparse slice above the exhaustive grid (the models are polynomial): band boundaries, extremes, a middle value
    big = [9, 10, 11, 12, 16, 33, 40] if ctx.thorough else [int(x) for x in r.choice([9, 10, 11, 12], 2, replace=False)] + [16, 33, 40]
    for n in big:
        D = ringD(n)
        b1 = int((D == 1).sum())
        cells = n * n - n
        Ks = sorted(set([0, 1, b1 - 1, b1, b1 + 1, int(r.randint(b1 + 2, cells - 1)), cells - 1, cells]))
        if not ctx.thorough and n >= 33:
            Ks = sorted(set([b1 + 1, int(r.randint(b1 + 2, cells - 1)), cells - 1, cells]))
        for K in Ks:
            sd = seeds(1)[0]
            one_dir(n, K, sd)
            one_ring(n, K, sd, D)
            Ku = K // 2
            one_und(n, Ku, sd)
    # n >= 128 (index dtypes): the ring is replayed in full; dir/und send the model only the K-prefix of the permutation it reads
    for n in ((130, 150) if ctx.thorough else (int(r.choice([130, 150])),)):
        D = ringD(n)
        for K in (2 * n - 1, 2 * n + 7, int(r.randint(2 * n, 6 * n))):
            one_ring(n, K, seeds(1)[0], D)
        for K in (0, 1, int(r.randint(2, 200))):
            sd = seeds(1)[0]
            one_dir(n, K, sd, prefix=True)
            one_und(n, K, sd, prefix=True)
        for K in (n * n - n, n * n - n - 3):      # direct oracle only at full density (the permutation is too long to transmit)
            rec = Rec(seeds(1)[0])
            C = call(bct.makerandCIJ_dir, n, K, seed=rec, _t=30.0)
            case = {'fn': 'makerandCIJ_dir', 'n': n, 'k': K, 'note': 'oracle only'}
            ctx.case(case); ctx.count('rand_dir:n>8')
            ctx.check(C.shape == (n, n) and is01(C) and int(C.sum()) == K and not np.any(np.diag(C)), 'makerandCIJ_dir:count',
                      'large N: shape/binary/count/diagonal', case)
            C = call(bct.makerandCIJ_und, n, K // 2, seed=rec, _t=30.0)
            case = {'fn': 'makerandCIJ_und', 'n': n, 'k': K // 2, 'note': 'oracle only'}
            ctx.case(case); ctx.count('rand_und:n>8')
            ctx.check(C.shape == (n, n) and is01(C) and int(C.sum()) == 2 * (K // 2) and not np.any(np.diag(C)) and np.array_equal(C, C.T),
                      'makerandCIJ_und:count', 'large N: shape/binary/count/diagonal/symmetry', case)

    # int seed path (get_rng builds the RandomState itself): same matrix as with the recording RandomState
    for fn, args in ((bct.makerandCIJ_dir, (6, 11)), (bct.makerandCIJ_und, (6, 7)), (bct.makeringlatticeCIJ, (7, 17))):
        sd = seeds(1)[0]
        A, B = call(fn, *args, seed=sd), call(fn, *args, seed=Rec(sd))
        case = {'fn': fn.__name__, 'args': list(args), 'seed': sd}
        ctx.case(case); ctx.count('seed:int')
        if not np.array_equal(A, B):
            ctx.mismatch(fn.__name__ + ':seed', 'seed=<int> and seed=<recording RandomState(int)> give different matrices', case)

    # ------------------------------------------------------------ hierarchical template + makeevenCIJ
    def tpl_case(fn, mx, px):
        """the template the implementation built (captured through the np proxy) against the model's"""
        n = 2 ** mx
        T = captured_template(px, n)
        if T is None:
            ctx.count('template:not-captured'); return
        key = (fn, mx)
        if key in tpl_seen:
            if not np.array_equal(tpl_seen[key], T):
                ctx.mismatch('template', 'the template of %s differs between two calls with the same mx_lvl' % fn, {'fn': fn, 'mx': mx})
            return
        tpl_seen[key] = np.array(T, copy=True)
        ctx.count('template:captured')
        lines.append('template %d' % mx); pend.append(('template', 'template', {'fn': fn, 'mx': mx}, (mx, tpl_seen[key])))
    tpl_seen = {}

    def one_even(n, K, sz, sd, ood=False):
        rec = Rec(sd)
        case = {'fn': 'makeevenCIJ', 'n': n, 'k': K, 'sz_cl': sz, 'seed': sd}
        ctx.case(case, nontrivial=K > 0 and not ood); ctx.count('ood:even' if ood else 'even:n=%d' % n)
        mx = n.bit_length() - 1 if n > 0 else 0
        n2 = 2 ** mx
        try:
            (C, outp), px = with_np_proxy(bct.makeevenCIJ, n, K, sz, seed=rec)
        except Exception as e:
            if ood:
                lines.append('even_z %d %d %d 0' % (n, K, sz)); pend.append(('optmat', 'makeevenCIJ', case, None)); return
            ctx.fail('makeevenCIJ:raises', 'raised %r' % (e,), case); return
        tpl_case('makeevenCIJ', mx, px)
        C = np.asarray(C).astype(float)
        rp = [e[3] for e in rec.log if e[0] == 'permutation']
        if not ood:
            cl = np.array([[1 if i != j and blen(i ^ j) <= sz else 0 for j in range(n)] for i in range(n)])
            ncl = int(cl.sum())
            ok = ctx.check(C.shape == (n, n), 'makeevenCIJ:shape', 'not N x N', case)
            if ok:
                ctx.check(is01(C), 'makeevenCIJ:binary', 'entries outside {0,1}', case)
                ctx.check(not np.any(np.diag(C)), 'makeevenCIJ:diagonal', 'diagonal not empty', case)
                ctx.check(np.all(C[cl == 1] == 1), 'makeevenCIJ:clusters', 'a cluster of size 2^sz_cl is not fully connected', case)
                if K >= ncl:
                    ctx.check(int(C.sum()) == K, 'makeevenCIJ:count', '%d connections instead of %d' % (int(C.sum()), K), case)
                    ctx.count('even:K>=clusters')
                    ctx.check(len(rp) == 1 and perm_ok(rp[0], n * n - n - ncl), 'stream:permutation',
                              'even: the draw is not a permutation of the %d free cells' % (n * n - n - ncl), case)
                else:   # documented: warning, clusters only
                    ctx.check(np.array_equal(C, cl) and 'Warning' in outp, 'makeevenCIJ:clusters-only',
                              'K below the cluster cells must give the clusters only (with a warning)', case)
                    ctx.count('even:clusters_only')
            lines.append('even %d %d %d %s' % (n, K, sz, enc_list(rp[0] if rp else []))); pend.append(('optmat', 'makeevenCIJ', case, C))
        else:
            if n2 != n and 'power of 2' not in outp:
                ctx.mismatch('makeevenCIJ:warning', 'no warning for an N that is not a power of two', case)
            if C.shape != (n2, n2):
                ctx.mismatch('makeevenCIJ', 'shape %s, model says %d x %d' % (C.shape, n2, n2), case)
            else:
                lines.append('even_z %d %d %d %s' % (n, K, sz, enc_list(rp[0] if rp else []))); pend.append(('optmat', 'makeevenCIJ', case, C))

    for n in ((4, 8, 16, 32) if ctx.thorough else (4, 8, 16)):
        mx = n.bit_length() - 1
        for sz in range(1, mx + 1):
            ncl = n * (2 ** sz - 1)
            Ks = list(range(0, n * n - n + 1))
            if n >= 16:
                Ks = sorted(set([0, ncl - 1, ncl, ncl + 1, n * n - n] + [int(x) for x in r.randint(0, n * n - n + 1, 40 if ctx.thorough and n == 16 else 6)]))
            elif not ctx.thorough and n == 8:
                Ks = sorted(set([0, ncl - 1, ncl, ncl + 1, n * n - n - 1, n * n - n] + [int(x) for x in r.randint(0, n * n - n + 1, 14)]))
            for K in Ks:
                if K < 0 or K > n * n - n:
                    continue
                for sd in seeds(nseeds if n <= 8 else max(1, nseeds // 3)):
                    one_even(n, K, sz, sd)
    # outside the documented domain: the model (even_z) mirrors the code; correspondence only
    for (n, K, sz) in [(5, 6, 1), (6, 3, 2), (7, 12, 1), (12, 20, 1), (12, 56, 3), (9, 30, 2),                 # N not a power of two
                       (8, 60, 4), (8, 70, 4), (8, 64, 5), (4, 3, 3), (8, 20, 0), (8, 20, -1), (4, 0, 0), (4, 12, -2),   # sz_cl > mx, <= 0
                       (8, -3, 1), (8, -1, 3), (4, -5, 2), (8, 57, 1), (8, 60, 2), (4, 13, 1), (4, 99, 2),             # K < 0, K > cells
                       (3, 2, 1), (2, 2, 1), (1, 0, 1), (0, 0, 1)]:                                                  # mx_lvl < 2
        one_even(n, K, sz, seeds(1)[0], ood=True)

    # ------------------------------------------------------------ makefractalCIJ
    def one_fractal(mx, E, sz, sd, ood=False):
        n = 2 ** mx
        rec = Rec(sd)
        case = {'fn': 'makefractalCIJ', 'mx_lvl': mx, 'E': E, 'sz_cl': sz, 'seed': sd}
        ctx.case(case, nontrivial=not ood); ctx.count('ood:fractal' if ood else 'fractal:mx=%d' % mx)
        top = mx - min(sz, 1) + 2              # largest exponent that can occur is mx - sz_cl + 1 (on the diagonal)
        pw = [fq((1 / E ** np.array([float(e)]))[0]) for e in range(0, top + 1)]
        try:
            (res, _), px = with_np_proxy(bct.makefractalCIJ, mx, E, sz, seed=rec)
            C, k = res
        except Exception as e:
            if ood:
                lines.append('fractal %d %s %d 0' % (mx, enc_list(pw, enc_qb), sz)); pend.append(('fractal', 'makefractalCIJ', case, None)); return
            ctx.fail('makefractalCIJ:raises', 'raised %r' % (e,), case); return
        tpl_case('makefractalCIJ', mx, px)
        ok = ctx.check(C.shape == (n, n), 'makefractalCIJ:shape', 'not 2^mx_lvl square', case)
        if ok:
            ctx.check(is01(C), 'makefractalCIJ:binary', 'entries outside {0,1}', case)
            ctx.check(int(k) == int(np.count_nonzero(C)), 'makefractalCIJ:count', 'reports %s connections, matrix has %d' % (k, int(np.count_nonzero(C))), case)
            ctx.check(not np.any(np.diag(C)), 'makefractalCIJ:diagonal', 'diagonal not empty', case)
            if sz >= 1:
                cl = np.array([[1 if i != j and blen(i ^ j) <= sz else 0 for j in range(n)] for i in range(n)])
                ctx.check(np.all(C[cl == 1] == 1), 'makefractalCIJ:clusters', 'a cluster is not fully connected', case)
        smp = [e[3] for e in rec.log if e[0] == 'random_sample']
        if len(smp) == 1:
            ctx.check(all(0 <= x < 1 for row in smp[0] for x in row), 'stream:random_sample', 'sample outside [0,1)', case)
            lines.append('fractal %d %s %d %s' % (mx, enc_list(pw, enc_qb), sz, enc_mat(smp[0], enc_f)))
            pend.append(('fractal', 'makefractalCIJ', case, (C, int(k))))
        else:
            ctx.mismatch('makefractalCIJ:stream', 'expected one random_sample((n,n)) draw', case)

    for mx in ((2, 3, 4) if ctx.thorough else (2, 3)):
        for E in (1, 2, 3, 5, 1.5, 0.5):
            for sz in range(1, mx + 1):
                for sd in seeds(nseeds * 2 if isinstance(E, int) else nseeds):
                    one_fractal(mx, E, sz, sd)
    for (mx, E, sz) in [(3, 2, 0), (3, 2, -1), (2, 3, -2), (3, 2, 4), (3, 2, 5), (2, 2, 3), (1, 2, 1), (0, 2, 1), (1, 3, 0)]:
        one_fractal(mx, E, sz, seeds(1)[0], ood=True)

    # ------------------------------------------------------------ maketoeplitzCIJ
    budget = [ctx.scale(500000, 3000000)]          # sample entries sent to the model over the whole run

    def one_toeplitz(n, K, s, sd, force_replay=False, ood=False):
        rec = RecA(sd)
        case = {'fn': 'maketoeplitzCIJ', 'n': n, 'k': K, 's': s, 'seed': sd}
        ctx.case(case, nontrivial=K > 0 and not ood); ctx.count('ood:toeplitz' if ood else ('toeplitz:n=%d' % n if n <= 12 else 'toeplitz:n>12'))
        status, C = 0, None
        with ScipyCapture() as cap:
            try:
                C = call(bct.maketoeplitzCIJ, n, K, s, seed=rec, _t=60.0)
            except BCTParamError:
                status = 1; ctx.count('toeplitz:raised')
            except Timeout:
                ctx.fail('maketoeplitzCIJ:timeout', 'did not return within 60 s', case); return
            except Exception as e:
                ctx.fail('maketoeplitzCIJ:raises', 'raised %r' % (e,), case); return
        smp = [e[3] for e in rec.log if e[0] == 'random_sample']
        m = len(smp)
        ctx.count('toeplitz:draws', m)
        S = np.array(smp).reshape(m, n, n) if m else np.zeros((0, n, n))
        ctx.check(bool(np.all((S >= 0) & (S < 1))), 'stream:random_sample', 'sample outside [0,1)', case)
        # ---- the template the code built (lines 857-859)
        if len(cap.tpl) == 1 and len(cap.pdf) == 1 and cap.tpl[0].shape == (n, n):
            T, U, pf = cap.tpl[0], cap.unscaled[0], np.asarray(cap.pdf[0], dtype=float).ravel()
            ctx.count('toeplitz:template-captured')
        else:   # refactored source: fall back to the same expressions as the implementation
            from scipy import linalg, stats
            pf = stats.norm.pdf(range(1, n), .5, s)
            U = linalg.toeplitz(np.append((0,), pf), r=np.append((0,), pf))
            T = U * (K / np.sum(U))
            ctx.count('toeplitz:template-recomputed')
        idx = np.abs(np.subtract.outer(np.arange(n), np.arange(n)))
        col = np.append((0.,), pf)
        if len(pf) == n - 1:
            ctx.check(np.array_equal(U, col[idx]), 'maketoeplitzCIJ:template', 'unscaled template is not the Toeplitz matrix of (0, pdf(1..n-1))', case)
        else:
            ctx.mismatch('maketoeplitzCIJ:template', 'profile has %d values instead of n-1' % len(pf), case)
        Tz = np.where(np.isnan(T), 0.0, T)          # nan (zero sum) compares False against every sample, like 0
        row = Tz[0] if n else np.zeros(0)
        ctx.check(np.array_equal(Tz, row[idx]) and bool(np.all(np.diag(Tz) == 0)), 'maketoeplitzCIJ:template',
                  'scaled template is not symmetric Toeplitz with a zero diagonal', case)
        if not ood and K > 0 and np.all(np.isfinite(T)):
            ctx.check(abs(float(T.sum()) - K) <= 1e-9 * max(1, K), 'maketoeplitzCIJ:template', 'template sums to %r instead of K' % float(T.sum()), case)
        # ---- direct oracle on the recorded stream: the first sample with exactly K ones is returned; a raise needs 10000 rejections
        cnt = (S < T).sum(axis=(1, 2)) if m else np.zeros(0, dtype=int)
        if status == 0:
            C = np.asarray(C).astype(float)
            ok = ctx.check(C.shape == (n, n), 'maketoeplitzCIJ:shape', 'not N x N', case)
            if ok:
                ctx.check(is01(C), 'maketoeplitzCIJ:binary', 'entries outside {0,1}', case)
                ctx.check(int(C.sum()) == K, 'maketoeplitzCIJ:count', '%d connections instead of %d' % (int(C.sum()), K), case)
                ctx.check(not np.any(np.diag(C)), 'maketoeplitzCIJ:diagonal', 'diagonal not empty', case)
                if m:
                    ctx.check(bool(np.all(cnt[:-1] != K)) and np.array_equal(C, (S[-1] < T).astype(float)), 'maketoeplitzCIJ:first-accepted',
                              'the returned matrix is not the first sample with exactly K connections', case)
                else:
                    ctx.check(K == 0, 'maketoeplitzCIJ:first-accepted', 'returned without drawing although K != 0', case)
        else:
            ctx.check(m == 10001 and bool(np.all(cnt[:10000] != K)) and K != 0, 'maketoeplitzCIJ:raises-early',
                      'BCTParamError after %d draws (10001 needed), %d of them had exactly K connections' % (m, int((cnt[:10000] == K).sum())), case)
        # ---- replay into the model (profile = the captured scaled row, q = 1; position 0 is zeroed by the model itself)
        if not np.array_equal(Tz, row[idx]):
            return
        size = m * n * n
        if force_replay or (size <= 60000 and size <= budget[0]):
            budget[0] -= size
            ctx.count('toeplitz:replayed'); ctx.count('toeplitz:replayed_draws', m)
            lines.append('toeplitz_pf %d %d %s 1 %s' % (n, K, enc_list([1.0] + [float(x) for x in row[1:]], enc_f),
                                                        ' '.join([str(m)] + [enc_mat(X, enc_f) for X in S])))
            pend.append(('toeplitz', 'maketoeplitzCIJ', case, (status, m, C)))
            if len(pf) == n - 1 and n >= 2 and np.all(np.isfinite(T)) and (n, K, s) not in ttpl_seen and \
                    (n <= 12 or ctx.thorough or n == 16) and len(ttpl_seen) < ctx.scale(24, 400):
                ttpl_seen.add((n, K, s))
                lines.append('toep_template %d %d %s' % (n, K, enc_list([1.0] + [float(x) for x in pf], enc_f)))
                pend.append(('toep_template', 'maketoeplitzCIJ:template', case, T))
        else:
            ctx.count('toeplitz:oracle-only')
    ttpl_seen = set()

    nt = ctx.scale(60, 400)
    for t in range(nt):
        n = int(r.randint(2, 13)); s = float(r.choice([0.5, 1.0, 2.0, 4.0, 8.0]))
        cells = n * n - n
        # the loop terminates quickly only while no template entry has to exceed 1: about 2.5*n*s (all cells when s is wide)
        hi = cells if s >= n / 2 else min(cells, int(2.2 * n * s))
        if t % 6 == 0:
            hi = cells                            # whole feasible range, whatever happens (may raise after 10001 draws)
        K = int(r.randint(0, max(1, int(0.8 * hi)) + 1))
        if t % 6 == 0 and n > 8:
            n = int(r.randint(2, 9)); K = int(r.randint(0, n * n - n + 1))
        one_toeplitz(n, K, s, int(r.randint(1 << 30)))
    for n in ((16, 24, 40, 40) if not ctx.thorough else (16, 16, 24, 24, 33, 40, 40, 64)):
        s = float(r.choice([2.0, 4.0]))
        K = int(n * s * float(r.choice([0.5, 1.0, 1.5])))
        one_toeplitz(n, K, s, int(r.randint(1 << 30)))
    # forced raises, 10001 recorded draws each, replayed: an unreachable feasible K, K > cells, K < 0
    one_toeplitz(3, 6, 0.25, int(r.randint(1 << 30)), force_replay=ctx.thorough)     # quick: direct oracle only (90000 sample entries)
    one_toeplitz(2, 3, 1.0, int(r.randint(1 << 30)), force_replay=True, ood=True)
    one_toeplitz(3 if ctx.thorough else 2, -1, 1.0, int(r.randint(1 << 30)), force_replay=True, ood=True)
    one_toeplitz(1, 0, 1.0, int(r.randint(1 << 30)), ood=True)

    # large K (>= 1e5): direct oracle only, plain integer seed (no recording, no replay) - a tolerance in the loop test of
    # the rejection loop (np.isclose has rtol 1e-5) only shows from K = 100000 on; s is wide so that a sample is accepted quickly
    bigK = [(400, 100000, 300.0)] if not ctx.thorough else [(400, 100000, 300.0), (500, 100000, 400.0), (450, 120000, 500.0), (600, 150000, 500.0)]
    for (n, K, s) in bigK:
        for sd in seeds(3 if not ctx.thorough else 5):
            case = {'fn': 'maketoeplitzCIJ', 'n': n, 'k': K, 's': s, 'seed': sd, 'note': 'oracle only'}
            ctx.case(case); ctx.count('toeplitz:K>=1e5')
            try:
                C = call(bct.maketoeplitzCIJ, n, K, s, seed=sd, _t=120.0)
            except BCTParamError:
                ctx.count('toeplitz:raised'); continue
            except Timeout:
                ctx.fail('maketoeplitzCIJ:timeout', 'did not return within 120 s', case); continue
            except Exception as e:
                ctx.fail('maketoeplitzCIJ:raises', 'raised %r' % (e,), case); continue
            C = np.asarray(C)
            if ctx.check(C.shape == (n, n), 'maketoeplitzCIJ:shape', 'not N x N', case):
                ctx.check(is01(C), 'maketoeplitzCIJ:binary', 'entries outside {0,1}', case)
                ctx.check(int(np.count_nonzero(C)) == K, 'maketoeplitzCIJ:count', '%d connections instead of %d' % (int(np.count_nonzero(C)), K), case)
                ctx.check(not np.any(np.diag(C)), 'maketoeplitzCIJ:diagonal', 'diagonal not empty', case)

    # ------------------------------------------------------------ makerandCIJdegreesfixed
    def one_deg(inv, outv, sd, ood=False, aslist=False):
        n = len(inv)
        rec = Rec(sd)
        case = {'fn': 'makerandCIJdegreesfixed', 'inv': [int(x) for x in inv], 'outv': [int(x) for x in outv], 'seed': sd}
        k = int(np.sum(inv))
        ctx.case(case, nontrivial=k > 0 and not ood); ctx.count('ood:degfixed' if ood else ('degfixed:n=%d' % n if n <= 8 else 'degfixed:n>8'))
        status, C = 0, None
        a, b = (list(case['inv']), list(case['outv'])) if aslist else (np.array(inv).copy(), np.array(outv).copy())
        try:
            C = call(bct.makerandCIJdegreesfixed, a, b, seed=rec, _t=60.0)
        except BCTParamError:
            status = 1; ctx.count('degfixed:unresolved')
        except Timeout:
            ctx.fail('makerandCIJdegreesfixed:timeout', 'did not return within 60 s', case); return
        except IndexError as e:
            if not ood:
                ctx.fail('makerandCIJdegreesfixed:raises', 'raised %r on a graphical degree pair' % (e,), case); return
            status = 3
        except Exception as e:
            ctx.fail('makerandCIJdegreesfixed:raises', 'raised %r on a graphical degree pair' % (e,), case); return
        if C is not None and not ood:
            ok = ctx.check(C.shape == (n, n), 'makerandCIJdegreesfixed:shape', 'not N x N', case)
            if ok:
                ctx.check(is01(C), 'makerandCIJdegreesfixed:binary', 'entries outside {0,1}', case)
                ctx.check(np.array_equal(C.sum(axis=0), inv) and np.array_equal(C.sum(axis=1), outv), 'makerandCIJdegreesfixed:degrees',
                          'column/row sums %s/%s are not the requested in/out degrees' % (C.sum(axis=0).tolist(), C.sum(axis=1).tolist()), case)
                ctx.check(not np.any(np.diag(C)), 'makerandCIJdegreesfixed:diagonal', 'diagonal not empty', case)
        rp = [e[3] for e in rec.log if e[0] == 'permutation']
        draws = [int(e[3]) for e in rec.log if e[0] == 'randint']
        ctx.count('degfixed:repair_draws', len(draws))
        if draws:
            ctx.count('degfixed:needed_repair')
        if status == 3:
            lines.append('degfixed_chk %s %s 0 0' % (enc_list(inv), enc_list(outv)))
            pend.append(('degfixed', 'makerandCIJdegreesfixed', case, (status, C)))
        elif len(rp) == 1 and perm_ok(rp[0], k) and all(0 <= x < k for x in draws):
            lines.append('%s %s %s %s %s' % ('degfixed_chk' if ood else 'degfixed', enc_list(inv), enc_list(outv), enc_list(rp[0]), enc_list(draws)))
            pend.append(('degfixed', 'makerandCIJdegreesfixed', case, (status, C)))
        else:
            ctx.mismatch('makerandCIJdegreesfixed:stream', 'unexpected draw sequence', case)

    nd = ctx.scale(300, 3000)
    for t in range(nd):
        n = int(r.randint(2, 9)); dens = float(r.choice([0.15, 0.3, 0.5, 0.7]))
        A = (r.rand(n, n) < dens).astype(int); np.fill_diagonal(A, 0)
        if t % 25 == 0:
            A = np.ones((n, n), dtype=int) - np.eye(n, dtype=int)       # complete digraph: every cell forced
        one_deg(A.sum(axis=0), A.sum(axis=1), int(r.randint(1 << 30)), aslist=(t % 40 == 7))
    # sparse digraphs above the small grid; n >= 128 exercises the dtype of the stub arrays
    for n in [int(x) for x in r.randint(9, 41, ctx.scale(6, 40))] + ([150, 130, 200] if ctx.thorough else [130]):
        deg = (float(r.choice([1.0, 2.0, 3.0])) if ctx.thorough else 0.8) if n > 60 else float(r.choice([1.5, 3.0, 5.0]))
        A = (r.rand(n, n) < deg / n).astype(int); np.fill_diagonal(A, 0)
        one_deg(A.sum(axis=0), A.sum(axis=1), int(r.randint(1 << 30)))
    # outside the documented domain: different sums (slices clamp / zero padding), non-graphical pairs, shorter outv
    for t in range(ctx.scale(30, 200)):
        n = int(r.randint(2, 7))
        A = (r.rand(n, n) < 0.4).astype(int); np.fill_diagonal(A, 0)
        inv, outv = A.sum(axis=0), A.sum(axis=1)
        kind = t % 3
        if kind == 0:
            outv = outv.copy(); outv[int(r.randint(n))] += int(r.randint(1, 3))
        elif kind == 1:
            inv = inv.copy(); inv[int(r.randint(n))] += int(r.randint(1, 3))
        else:
            inv = r.permutation(inv)
        one_deg(inv, outv, int(r.randint(1 << 30)), ood=True)
    one_deg(np.array([1, 1, 1]), np.array([1, 1]), int(r.randint(1 << 30)), ood=True)
    one_deg(np.array([1, 1, 1]), np.array([1, 1, 1, 0]), int(r.randint(1 << 30)), ood=True)
    one_deg(np.array([3, 0, 0]), np.array([1, 1, 1]), int(r.randint(1 << 30)), ood=True)

    # ------------------------------------------------------------ out-of-domain K for dir / und / ring (model: *_z)
    for (n, K) in [(3, -2), (3, -9), (3, 9), (4, -1), (5, 23), (6, -29), (6, -31), (1, 1), (1, -1), (2, 5)]:
        for fn, name, cells in ((bct.makerandCIJ_dir, 'rand_dir_z', n * n - n), (bct.makerandCIJ_und, 'rand_und_z', (n * n - n) // 2)):
            sd = seeds(1)[0]; rec = Rec(sd)
            case = {'fn': fn.__name__, 'n': n, 'k': K, 'seed': sd}
            ctx.case(case, nontrivial=False); ctx.count('ood:' + name)
            C = call(fn, n, K, seed=rec)
            rp = [e[3] for e in rec.log if e[0] == 'permutation']
            if len(rp) == 1 and perm_ok(rp[0], cells):
                lines.append('%s %d %d %s' % (name, n, K, enc_list(rp[0]))); pend.append(('mat', fn.__name__, case, C))
            else:
                ctx.mismatch(fn.__name__ + ':stream', 'expected exactly one permutation draw', case)
    for (n, K) in [(4, 13), (4, 16), (4, 20), (4, 21), (4, 30), (3, 7), (3, 8), (3, 13), (5, 21), (5, 28), (6, 31), (6, 40), (2, 3), (2, 4), (1, 1), (0, 0), (4, -1), (0, -2)]:
        sd = seeds(1)[0]; rec = Rec(sd)
        case = {'fn': 'makeringlatticeCIJ', 'n': n, 'k': K, 'seed': sd}
        ctx.case(case, nontrivial=False); ctx.count('ood:ring_z')
        try:
            C = call(bct.makeringlatticeCIJ, n, K, seed=rec)
            if np.any(C > 1):
                ctx.count('ood:ring_entry_above_1')
        except (IndexError, UnboundLocalError):
            C = None
        rp = [e[3] for e in rec.log if e[0] == 'permutation']
        lines.append('ring_z %d %d %s' % (n, K, enc_list(rp[0] if rp else []))); pend.append(('optmat', 'makeringlatticeCIJ', case, C))

    # ------------------------------------------------------------ correspondence with the extracted Coq model
    res = run_model(ID, lines)
    ctx.model_cases = len(lines)
    for (kind, fn, case, impl), m in zip(pend, res):
        if is_err(m):
            ctx.mismatch(fn + ':model-error', m['error'], case); continue
        if kind == 'template':
            mx, T = impl; n = 2 ** mx
            M = dec_mat(m).reshape(n, n)
            if not np.array_equal(M, T):
                ctx.mismatch('template', 'the hierarchical template the implementation built differs from the model', case, M, T)
            want = np.array([[0 if i == j else mx + 1 - blen(i ^ j) for j in range(n)] for i in range(n)], dtype=float)
            if not np.array_equal(M, want):
                ctx.mismatch('template', 'hierarchical template differs from mx+1-bitlength(i xor j)', case, M, want)
            continue
        if kind == 'toep_template':
            T = impl
            M = np.array([[float(dec_q(x)) for x in row] for row in m], dtype=float).reshape(T.shape)
            if not np.allclose(M, T, rtol=1e-9, atol=1e-300):
                ctx.mismatch(fn, 'template of the implementation differs from (0,pf)-Toeplitz * K/sum of the model', case, M, T)
            continue
        if kind == 'toeplitz':
            status, draws, C = impl
            if m[0] != status:
                ctx.mismatch(fn, 'model status %d (0 returns, 1 raises, 2 out of draws) / implementation %d' % (m[0], status), case)
            elif dec_z(m[1][0]) != draws:
                ctx.mismatch(fn, 'model counts %d iterations, the implementation drew %d samples' % (dec_z(m[1][0]), draws), case)
            elif status == 0:
                M = dec_mat(m[1][1]).reshape(C.shape)
                if not np.array_equal(M, C):
                    ctx.mismatch(fn, 'model and implementation differ on the replayed stream', case, M, C)
            continue
        if kind == 'mat':
            M = dec_mat(m).reshape(impl.shape)
            if not np.array_equal(M, impl):
                ctx.mismatch(fn, 'model and implementation differ on the replayed stream', case, M, impl)
            continue
        if kind == 'optmat':
            if m is None or impl is None:
                if not (m is None and impl is None):
                    ctx.mismatch(fn, 'model %s / implementation %s' % ('fails' if m is None else 'returns', 'fails' if impl is None else 'returns'), case)
                continue
            M = dec_mat(m).reshape(impl.shape)
            if not np.array_equal(M, impl):
                ctx.mismatch(fn, 'model and implementation differ on the replayed stream', case, M, impl)
            continue
        if kind == 'fractal':
            if m is None or impl is None:
                if not (m is None and impl is None):
                    ctx.mismatch(fn, 'model %s / implementation %s' % ('fails' if m is None else 'returns', 'fails' if impl is None else 'returns'), case)
                continue
            C, k = impl
            M = dec_mat(m[0]).reshape(C.shape)
            if not np.array_equal(M, C) or dec_z(m[1]) != k:
                ctx.mismatch(fn, 'model and implementation differ on the replayed stream', case, [M, dec_z(m[1])], [C, k])
            continue
        if kind == 'degfixed':
            status, C = impl
            if m[0] != status:
                ctx.mismatch(fn, 'model status %d (0 returns, 1 raises, 2 out of draws, 3 IndexError) / implementation %d' % (m[0], status), case)
            elif status == 0:
                M = dec_mat(m[1]).reshape(C.shape)
                if not np.array_equal(M, C):
                    ctx.mismatch(fn, 'model and implementation differ on the replayed stream', case, M, C)
