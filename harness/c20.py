"""C20 — synthetic generators deliver the requested size, edge count, symmetry, degree sequences, band structure."""
import io, contextlib
from fractions import Fraction as F
import numpy as np
from common import *

ID = 'C20'
COQ_FILES = ['Base/Mat.v', 'Base/ListX.v', 'Model/Generators.v', 'Proofs/GeneratorsBase.v', 'Proofs/Generators.v',
             'Proofs/GeneratorsRing.v', 'Proofs/GeneratorsDeg.v', 'Proofs/GeneratorsTemplate.v', 'Properties/C20.v']
THEOREMS = ['C20_makerand_dir_count', 'C20_makerand_und_sym_count', 'C20_ringlattice_bands', 'C20_ringlattice_feasible_returns',
            'C20_toeplitz_exact_K', 'C20_fractal_count', 'C20_even_count', 'C20_even_clusters_only',
            'C20_degfixed_rowcol', 'C20_degfixed_invariant', 'C20_upper_cells', 'C20_template_levels',
            'C20_even_clusters_blocks', 'C20_fractal_clusters_blocks']
RULE = ('every (N,K) with N<=8 and K feasible (0..N^2-N directed, 0..N(N-1)/2 undirected) for makerandCIJ_dir/_und and '
        'makeringlatticeCIJ, 3 (thorough 10) seeds each; makeevenCIJ for N in '
        '{4,8} (16 thorough), every cluster size, every K in 0..N^2-N (including K below the cluster cells: the documented '
        'clusters-only branch); makefractalCIJ for mx_lvl in {2,3} (4 thorough), E in {1,2,3,5}, every cluster size; '
        'maketoeplitzCIJ for N=3..8, s in {1,2,4}, K up to about a third of the cells; makerandCIJdegreesfixed on the '
        'in/out degree sequences of random digraphs N=2..8 at densities .15-.7 (graphical by construction). The draws of '
        'each call are recorded with common.Rec and replayed into the extracted model: outputs must be IDENTICAL. '
        'non-trivial = K>0 (at least one connection requested); distinct by hash of (function, parameters, seed)')
ASSUMES = ['rng.permutation(m) returns a permutation of 0..m-1, rng.randint(k) a value in [0,k), rng.random_sample values in [0,1) '
           '(hypotheses of the theorems; checked on every recorded stream)',
           'maketoeplitzCIJ: the scaled Gaussian profile (scipy.stats.norm.pdf, toeplitz, k/sum) and makefractalCIJ: the floats '
           '1/E**e are numeric kernels handed to the model as exact rationals of the computed doubles (the theorems hold for ANY profile)',
           'infeasible K (K > number of admissible cells, K < 0), N not a power of two for the hierarchical generators, mx_lvl < 2 and '
           'non-graphical degree pairs are outside the documented domain and are not exercised as violations']
TRUSTED = ['makerandCIJdegreesfixed may raise BCTParamError on a graphical pair when the repair loop has tried every stub '
           '(documented: "not guaranteed to terminate"); such runs are counted (degfixed:unresolved), replayed in the model '
           '(which must also report Raised) and are not violations: the theorem is about runs that return']


def quiet(f, *a, **k):
    buf = io.StringIO()
    with contextlib.redirect_stdout(buf):
        return call(f, *a, **k), buf.getvalue()


def is01(C):
    C = np.asarray(C)
    return bool(np.all((C == 0) | (C == 1)))


def perm_ok(p, m):
    return sorted(p) == list(range(m))


def dec_mat(m):
    return np.array(dec_deep(m, dec_z), dtype=float)


def fq(x):
    return F(float(x))


def enc_qb(x):
    f = F(x)
    return '%s/%s' % (bin(f.numerator) if f.numerator else '0', bin(f.denominator))


def blen(x):
    return int(x).bit_length()


def run(ctx):
    import bct
    from bct.utils import BCTParamError
    r = ctx.nprng
    lines, pend = [], []
    nseeds = ctx.scale(3, 10)

    def seeds(k=nseeds):
        return [int(r.randint(1 << 30)) for _ in range(k)]

    # ------------------------------------------------------------ makerandCIJ_dir / _und / ring lattice
    for n in range(1, 9):
        for K in range(0, n * n - n + 1):
            for sd in seeds():
                # ---- directed
                rec = Rec(sd)
                C = call(bct.makerandCIJ_dir, n, K, seed=rec)
                case = {'fn': 'makerandCIJ_dir', 'n': n, 'k': K, 'seed': sd}
                ctx.case(case, nontrivial=K > 0); ctx.count('rand_dir:n=%d' % n)
                ok = ctx.check(C.shape == (n, n), 'makerandCIJ_dir:shape', 'not N x N', case)
                if ok:
                    ctx.check(is01(C), 'makerandCIJ_dir:binary', 'entries outside {0,1}', case)
                    ctx.check(int(C.sum()) == K, 'makerandCIJ_dir:count', '%d connections instead of %d' % (int(C.sum()), K), case)
                    ctx.check(not np.any(np.diag(C)), 'makerandCIJ_dir:diagonal', 'diagonal not empty', case)
                rp = [e[3] for e in rec.log if e[0] == 'permutation']
                if len(rp) == 1 and perm_ok(rp[0], n * n - n):
                    lines.append('rand_dir %d %d %s' % (n, K, enc_list(rp[0]))); pend.append(('mat', 'makerandCIJ_dir', case, C))
                else:
                    ctx.mismatch('makerandCIJ_dir:stream', 'expected exactly one permutation(n^2-n) draw', case, None, [len(x) for x in rp])
                # ---- ring lattice
                rec = Rec(sd)
                case = {'fn': 'makeringlatticeCIJ', 'n': n, 'k': K, 'seed': sd}
                ctx.case(case, nontrivial=K > 0); ctx.count('ring:n=%d' % n)
                try:
                    C = call(bct.makeringlatticeCIJ, n, K, seed=rec)
                except Exception as e:
                    ctx.fail('makeringlatticeCIJ:raises', 'raised %r on a feasible K' % (e,), case)
                    C = None
                if C is not None:
                    ok = ctx.check(C.shape == (n, n), 'makeringlatticeCIJ:shape', 'not N x N', case)
                    if ok:
                        ctx.check(is01(C), 'makeringlatticeCIJ:binary', 'entries outside {0,1}', case)
                        ctx.check(int(C.sum()) == K, 'makeringlatticeCIJ:count', '%d connections instead of %d' % (int(C.sum()), K), case)
                        ctx.check(not np.any(np.diag(C)), 'makeringlatticeCIJ:diagonal', 'diagonal not empty', case)
                        D = np.array([[min((i - j) % n, (j - i) % n) for j in range(n)] for i in range(n)])
                        if K > 0 and np.any(C):
                            dmax = int(D[C != 0].max())
                            full = all(np.all(C[D == b] == 1) for b in range(1, dmax))
                            ctx.check(full, 'makeringlatticeCIJ:bands', 'a band nearer than the outermost used band (ring distance %d) is not full' % dmax, case)
                            ctx.count('ring:partial_last_band' if not np.all(C[D == dmax] == 1) else 'ring:full_last_band')
                    rp = [e[3] for e in rec.log if e[0] == 'permutation']
                    if len(rp) <= 1:
                        lines.append('ring %d %d %s' % (n, K, enc_list(rp[0] if rp else []))); pend.append(('optmat', 'makeringlatticeCIJ', case, C))
                    else:
                        ctx.mismatch('makeringlatticeCIJ:stream', 'more than one permutation draw', case)
                # ---- undirected
                if K <= (n * n - n) // 2:
                    rec = Rec(sd)
                    C = call(bct.makerandCIJ_und, n, K, seed=rec)
                    case = {'fn': 'makerandCIJ_und', 'n': n, 'k': K, 'seed': sd}
                    ctx.case(case, nontrivial=K > 0); ctx.count('rand_und:n=%d' % n)
                    ok = ctx.check(C.shape == (n, n), 'makerandCIJ_und:shape', 'not N x N', case)
                    if ok:
                        ctx.check(is01(C), 'makerandCIJ_und:binary', 'entries outside {0,1}', case)
                        ctx.check(np.array_equal(C, C.T), 'makerandCIJ_und:symmetric', 'not symmetric', case)
                        ctx.check(int(np.triu(C, 1).sum()) == K and int(C.sum()) == 2 * K, 'makerandCIJ_und:count',
                                  '%d undirected connections (%d entries) instead of %d (%d)' % (int(np.triu(C, 1).sum()), int(C.sum()), K, 2 * K), case)
                        ctx.check(not np.any(np.diag(C)), 'makerandCIJ_und:diagonal', 'diagonal not empty', case)
                    rp = [e[3] for e in rec.log if e[0] == 'permutation']
                    if len(rp) == 1 and perm_ok(rp[0], (n * n - n) // 2):
                        lines.append('rand_und %d %d %s' % (n, K, enc_list(rp[0]))); pend.append(('mat', 'makerandCIJ_und', case, C))
                    else:
                        ctx.mismatch('makerandCIJ_und:stream', 'expected exactly one permutation(n(n-1)/2) draw', case)

    # ------------------------------------------------------------ hierarchical template + makeevenCIJ
    for mx in (2, 3, 4):
        lines.append('template %d' % mx); pend.append(('template', 'template', {'fn': 'template', 'mx': mx}, mx))
    for n in ((4, 8, 16) if ctx.thorough else (4, 8)):
        mx = n.bit_length() - 1
        for sz in range(1, mx + 1):
            cl = np.array([[1 if i != j and blen(i ^ j) <= sz else 0 for j in range(n)] for i in range(n)])
            ncl = int(cl.sum())
            Ks = list(range(0, n * n - n + 1))
            if n == 16:
                Ks = sorted(set([0, ncl - 1, ncl, ncl + 1, n * n - n] + [int(x) for x in r.randint(0, n * n - n + 1, 40)]))
            elif not ctx.thorough and n == 8:
                Ks = sorted(set([0, ncl - 1, ncl, ncl + 1, n * n - n - 1, n * n - n] + [int(x) for x in r.randint(0, n * n - n + 1, 20)]))
            for K in Ks:
                if K < 0 or K > n * n - n:
                    continue
                for sd in seeds(max(1, nseeds // 2)):
                    rec = Rec(sd)
                    case = {'fn': 'makeevenCIJ', 'n': n, 'k': K, 'sz_cl': sz, 'seed': sd}
                    ctx.case(case, nontrivial=K > 0); ctx.count('even:n=%d' % n)
                    try:
                        C, outp = quiet(bct.makeevenCIJ, n, K, sz, seed=rec)
                    except Exception as e:
                        ctx.fail('makeevenCIJ:raises', 'raised %r' % (e,), case); continue
                    C = np.asarray(C).astype(float)
                    ok = ctx.check(C.shape == (n, n), 'makeevenCIJ:shape', 'not N x N', case)
                    if ok:
                        ctx.check(is01(C), 'makeevenCIJ:binary', 'entries outside {0,1}', case)
                        ctx.check(not np.any(np.diag(C)), 'makeevenCIJ:diagonal', 'diagonal not empty', case)
                        ctx.check(np.all(C[cl == 1] == 1), 'makeevenCIJ:clusters', 'a cluster of size 2^sz_cl is not fully connected', case)
                        if K >= ncl:
                            ctx.check(int(C.sum()) == K, 'makeevenCIJ:count', '%d connections instead of %d' % (int(C.sum()), K), case)
                            ctx.count('even:K>=clusters')
                        else:   # documented: warning, clusters only
                            ctx.check(np.array_equal(C, cl) and 'Warning' in outp, 'makeevenCIJ:clusters-only',
                                      'K below the cluster cells must give the clusters only (with a warning)', case)
                            ctx.count('even:clusters_only')
                    rp = [e[3] for e in rec.log if e[0] == 'permutation']
                    lines.append('even %d %d %d %s' % (n, K, sz, enc_list(rp[0] if rp else []))); pend.append(('optmat', 'makeevenCIJ', case, C))

    # ------------------------------------------------------------ makefractalCIJ
    for mx in ((2, 3, 4) if ctx.thorough else (2, 3)):
        n = 2 ** mx
        for E in (1, 2, 3, 5):
            for sz in range(1, mx + 1):
                cl = np.array([[1 if i != j and blen(i ^ j) <= sz else 0 for j in range(n)] for i in range(n)])
                for sd in seeds(nseeds * 2):
                    rec = Rec(sd)
                    case = {'fn': 'makefractalCIJ', 'mx_lvl': mx, 'E': E, 'sz_cl': sz, 'seed': sd}
                    ctx.case(case, nontrivial=True); ctx.count('fractal:mx=%d' % mx)
                    try:
                        C, k = call(bct.makefractalCIJ, mx, E, sz, seed=rec)
                    except Exception as e:
                        ctx.fail('makefractalCIJ:raises', 'raised %r' % (e,), case); continue
                    ok = ctx.check(C.shape == (n, n), 'makefractalCIJ:shape', 'not 2^mx_lvl square', case)
                    if ok:
                        ctx.check(is01(C), 'makefractalCIJ:binary', 'entries outside {0,1}', case)
                        ctx.check(int(k) == int(np.count_nonzero(C)), 'makefractalCIJ:count', 'reports %s connections, matrix has %d' % (k, int(np.count_nonzero(C))), case)
                        ctx.check(not np.any(np.diag(C)), 'makefractalCIJ:diagonal', 'diagonal not empty', case)
                        ctx.check(np.all(C[cl == 1] == 1), 'makefractalCIJ:clusters', 'a cluster is not fully connected', case)
                    smp = [e[3] for e in rec.log if e[0] == 'random_sample']
                    pw = [fq((1 / E ** np.array([float(e)]))[0]) for e in range(0, mx + 1)]
                    if len(smp) == 1:
                        ctx.check(all(0 <= x < 1 for row in smp[0] for x in row), 'stream:random_sample', 'sample outside [0,1)', case)
                        lines.append('fractal %d %s %d %s' % (mx, enc_list(pw, enc_qb), sz, enc_mat([[fq(x) for x in row] for row in smp[0]], enc_qb)))
                        pend.append(('fractal', 'makefractalCIJ', case, (C, int(k))))
                    else:
                        ctx.mismatch('makefractalCIJ:stream', 'expected one random_sample((n,n)) draw', case)

    # ------------------------------------------------------------ maketoeplitzCIJ
    from scipy import linalg, stats
    nt = ctx.scale(40, 300)
    for t in range(nt):
        n = int(r.randint(3, 9)); s = float(r.choice([1.0, 2.0, 4.0]))
        K = int(r.randint(0, max(2, (n * n - n) // 3)))
        sd = int(r.randint(1 << 30))
        rec = Rec(sd)
        case = {'fn': 'maketoeplitzCIJ', 'n': n, 'k': K, 's': s, 'seed': sd}
        ctx.case(case, nontrivial=K > 0); ctx.count('toeplitz:n=%d' % n)
        try:
            C = call(bct.maketoeplitzCIJ, n, K, s, seed=rec, _t=20.0)
        except BCTParamError:
            ctx.count('toeplitz:unresolved'); continue
        except Timeout:
            ctx.count('toeplitz:timeout'); continue
        except Exception as e:
            ctx.fail('maketoeplitzCIJ:raises', 'raised %r' % (e,), case); continue
        C = np.asarray(C).astype(float)
        ok = ctx.check(C.shape == (n, n), 'maketoeplitzCIJ:shape', 'not N x N', case)
        if ok:
            ctx.check(is01(C), 'maketoeplitzCIJ:binary', 'entries outside {0,1}', case)
            ctx.check(int(C.sum()) == K, 'maketoeplitzCIJ:count', '%d connections instead of %d' % (int(C.sum()), K), case)
            ctx.check(not np.any(np.diag(C)), 'maketoeplitzCIJ:diagonal', 'diagonal not empty', case)
        smp = [e[3] for e in rec.log if e[0] == 'random_sample']
        ctx.count('toeplitz:draws', len(smp))
        if len(smp) <= 60:
            # the same expressions as the implementation (numeric kernel, not modelled)
            pf = stats.norm.pdf(range(1, n), .5, s)
            template = linalg.toeplitz(np.append((0,), pf), r=np.append((0,), pf))
            template *= (K / np.sum(template))
            lines.append('toeplitz %d %d %s %s' % (n, K, enc_mat([[fq(x) for x in row] for row in template], enc_qb),
                                                 enc_list(smp, lambda S: enc_mat([[fq(x) for x in row] for row in S], enc_qb))))
            pend.append(('optmat', 'maketoeplitzCIJ', case, C))

    # ------------------------------------------------------------ makerandCIJdegreesfixed
    nd = ctx.scale(300, 3000)
    for t in range(nd):
        n = int(r.randint(2, 9)); dens = float(r.choice([0.15, 0.3, 0.5, 0.7]))
        A = (r.rand(n, n) < dens).astype(int); np.fill_diagonal(A, 0)
        if t % 25 == 0:
            A = np.ones((n, n), dtype=int) - np.eye(n, dtype=int)       # complete digraph: every cell forced
        inv = A.sum(axis=0); outv = A.sum(axis=1)
        sd = int(r.randint(1 << 30)); rec = Rec(sd)
        case = {'fn': 'makerandCIJdegreesfixed', 'inv': inv.tolist(), 'outv': outv.tolist(), 'seed': sd}
        k = int(inv.sum())
        ctx.case(case, nontrivial=k > 0); ctx.count('degfixed:n=%d' % n)
        status, C = 0, None
        try:
            C = call(bct.makerandCIJdegreesfixed, inv.copy(), outv.copy(), seed=rec, _t=20.0)
        except BCTParamError:
            status = 1; ctx.count('degfixed:unresolved')
        except Timeout:
            ctx.fail('makerandCIJdegreesfixed:timeout', 'did not return within 20 s', case); continue
        except Exception as e:
            ctx.fail('makerandCIJdegreesfixed:raises', 'raised %r on a graphical degree pair' % (e,), case); continue
        if C is not None:
            ok = ctx.check(C.shape == (n, n), 'makerandCIJdegreesfixed:shape', 'not N x N', case)
            if ok:
                ctx.check(is01(C), 'makerandCIJdegreesfixed:binary', 'entries outside {0,1}', case)
                ctx.check(np.array_equal(C.sum(axis=0), inv) and np.array_equal(C.sum(axis=1), outv), 'makerandCIJdegreesfixed:degrees',
                          'column/row sums %s/%s are not the requested in/out degrees' % (C.sum(axis=0).tolist(), C.sum(axis=1).tolist()), case)
                ctx.check(not np.any(np.diag(C)), 'makerandCIJdegreesfixed:diagonal', 'diagonal not empty', case)
        rp = [e[3] for e in rec.log if e[0] == 'permutation']
        draws = [int(e[3]) for e in rec.log if e[0] == 'randint']
        ctx.count('degfixed:repair_draws', len(draws))
        if draws:
            ctx.count('degfixed:needed_repair')
        if len(rp) == 1 and perm_ok(rp[0], k) and all(0 <= x < k for x in draws):
            lines.append('degfixed %s %s %s %s' % (enc_list(inv), enc_list(outv), enc_list(rp[0]), enc_list(draws)))
            pend.append(('degfixed', 'makerandCIJdegreesfixed', case, (status, C)))
        else:
            ctx.mismatch('makerandCIJdegreesfixed:stream', 'unexpected draw sequence', case)

    # ------------------------------------------------------------ correspondence with the extracted Coq model
    res = run_model(ID, lines)
    ctx.model_cases = len(lines)
    for (kind, fn, case, impl), m in zip(pend, res):
        if is_err(m):
            ctx.mismatch(fn + ':model-error', m['error'], case); continue
        if kind == 'template':
            mx = impl; n = 2 ** mx
            want = np.array([[0 if i == j else mx + 1 - blen(i ^ j) for j in range(n)] for i in range(n)], dtype=float)
            if not np.array_equal(dec_mat(m), want):
                ctx.mismatch('template', 'hierarchical template differs from mx+1-bitlength(i xor j)', case, dec_mat(m), want)
            continue
        if kind == 'mat':
            M = dec_mat(m).reshape(impl.shape)
            if not np.array_equal(M, impl):
                ctx.mismatch(fn, 'model and implementation differ on the replayed stream', case, M, impl)
            continue
        if kind == 'optmat':
            if m is None or impl is None:
                if not (m is None and impl is None):
                    ctx.mismatch(fn, 'model %s / implementation %s' % ('fails' if m is None else 'returns', 'fails' if impl is None else 'returns'), case)
                continue
            M = dec_mat(m).reshape(impl.shape)
            if not np.array_equal(M, impl):
                ctx.mismatch(fn, 'model and implementation differ on the replayed stream', case, M, impl)
            continue
        if kind == 'fractal':
            C, k = impl
            if m is None:
                ctx.mismatch(fn, 'model fails, implementation returns', case); continue
            M = dec_mat(m[0]).reshape(C.shape)
            if not np.array_equal(M, C) or dec_z(m[1]) != k:
                ctx.mismatch(fn, 'model and implementation differ on the replayed stream', case, [M, dec_z(m[1])], [C, k])
            continue
        if kind == 'degfixed':
            status, C = impl
            if m[0] != status:
                ctx.mismatch(fn, 'model status %d (0 returns, 1 raises, 2 out of draws) / implementation %d' % (m[0], status), case)
            elif status == 0:
                M = dec_mat(m[1]).reshape(C.shape)
                if not np.array_equal(M, C):
                    ctx.mismatch(fn, 'model and implementation differ on the replayed stream', case, M, C)
