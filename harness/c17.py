"""C17 — thresholding and weight conversion keep exactly the documented entries."""
from fractions import Fraction as F
import numpy as np
from common import *

ID = 'C17'
COQ_FILES = ['Base/Mat.v', 'Base/ListX.v', 'Model/Threshold.v', 'Proofs/Threshold.v', 'Properties/C17.v']
THEOREMS = ['C17_tp_count', 'C17_tp_strongest', 'C17_tp_values', 'C17_tp_diag', 'C17_tp_sym', 'C17_tp_instance',
            'C17_tp_rejects', 'C17_ta_exact', 'C17_binarize', 'C17_normalize', 'C17_invert_spec',
            'C17_invert_involutive', 'C17_copy_flag', 'C17_teachers_round']
RULE = ('random + structured matrices n=1..7 with small integer / dyadic weights (many exact ties), symmetric and not, '
        'sparse and dense, nonzero diagonals; p dyadic so that (n^2-n)p/ud is exact in binary64, including .5 cases; '
        'non-trivial = at least one off-diagonal nonzero; distinct by hash of (function, matrix, parameter)')
ASSUMES = ['weights and p are dyadic rationals: every float operation the model treats as exact is exact',
           'argsort tie order is unspecified: kept sets are compared as value multisets when the cut falls inside a tie']


def tround(x):
    import math
    return int(math.floor(x + F(1, 2))) if x > 0 else -int(math.floor(-x + F(1, 2))) if (-x) % 1 != F(1, 2) else int(math.floor(x))


def gen_matrix(ctx, signed):
    r = ctx.nprng
    n = int(r.randint(1, 8))
    vals = [1, 2, 3, 4, F(1, 2), F(3, 4), F(5, 2)]
    k = int(r.randint(1, len(vals) + 1))
    dens = float(r.choice([0.2, 0.5, 0.8, 1.0]))
    W = [[F(0)] * n for _ in range(n)]
    sym = r.rand() < 0.5
    for i in range(n):
        for j in range(n):
            if sym and j < i:
                W[i][j] = W[j][i]
                continue
            if r.rand() < dens:
                v = F(vals[int(r.randint(0, k))])
                if signed and r.rand() < 0.3:
                    v = -v
                W[i][j] = v
    if r.rand() < 0.3:
        for i in range(n):
            W[i][i] = F(0)
    return W, sym


def npm(W):
    return np.array([[float(x) for x in row] for row in W], dtype=float).reshape(len(W), len(W))


def run(ctx):
    import bct
    N = ctx.scale(400, 4000)
    lines, pend = [], []
    for t in range(N):
        # ---------------- threshold_proportional
        W, sym = gen_matrix(ctx, signed=False)
        n = len(W)
        poss = n * n - n
        r = ctx.nprng
        ch = int(r.randint(0, 6))
        if ch == 0:
            p = F(0)
        elif ch == 1:
            p = F(1)
        elif ch == 2 and poss:
            p = F(int(r.randint(0, poss + 1)), 1) / 1 * F(1, 1) * F(1, poss) if poss in (2, 4, 8, 16, 32) else F(int(r.randint(0, 17)), 16)
        elif ch == 3:
            p = F(int(r.randint(0, 33)), 32)
        elif ch == 4:
            p = F(int(r.randint(0, 9)), 8)
        else:
            p = F(int(r.randint(-2, 20)), 16)   # includes out-of-range values (rejection clause)
        A = npm(W)
        A0 = A.copy()
        case = {'fn': 'threshold_proportional', 'W': [[str(x) for x in row] for row in W], 'p': str(p)}
        ctx.case(case, nontrivial=bool(np.any(A - np.diag(np.diag(A)))))
        ctx.count('tp:n=%d' % n); ctx.count('tp:sym' if sym else 'tp:asym')
        try:
            R = call(bct.threshold_proportional, A, float(p))
            err = None
        except bct.utils.BCTParamError as e:
            R, err = None, 'param'
        except Exception as e:
            R, err = None, repr(e)
        # direct oracle on the implementation
        if p > 1 or p < 0:
            ctx.check(err == 'param', 'threshold_proportional:reject', 'p outside [0,1] must raise BCTParamError', case)
            ctx.count('tp:rejected')
        elif err:
            ctx.fail('threshold_proportional:raises', 'raised ' + err, case)
        else:
            Wd = A0.copy(); np.fill_diagonal(Wd, 0)
            issym = np.array_equal(Wd, Wd.T)
            nnz = int((Wd != 0).sum())
            if issym:
                en = tround(F(poss) * p / 2); want = 2 * min(en, nnz // 2)
            else:
                en = tround(F(poss) * p); want = min(en, nnz)
            ctx.check(int((R != 0).sum()) == want, 'threshold_proportional:count', 'kept %d connections, expected %d' % (int((R != 0).sum()), want), case)
            ctx.check(np.all(np.diag(R) == 0), 'threshold_proportional:diag', 'diagonal not cleared', case)
            ctx.check(np.all((R == 0) | (R == Wd)), 'threshold_proportional:values', 'an output entry is neither 0 nor the input entry', case)
            kept = R[R != 0]; dropped = Wd[(Wd != 0) & (R == 0)]
            ctx.check(len(kept) == 0 or len(dropped) == 0 or kept.min() >= dropped.max(), 'threshold_proportional:strongest', 'a dropped connection is stronger than a kept one', case)
            if issym:
                ctx.check(np.array_equal(R, R.T), 'threshold_proportional:sym', 'symmetric input gave asymmetric output', case)
            ctx.check(np.array_equal(A, A0), 'threshold_proportional:copy', 'copy=True modified the argument', case)
            Ac = A0.copy(); R2 = bct.threshold_proportional(Ac, float(p), copy=False)
            ctx.check(R2 is Ac and np.array_equal(np.sort(R2, axis=None), np.sort(R, axis=None)) and np.array_equal(R2 != 0, R != 0), 'threshold_proportional:inplace', 'copy=False does not leave the result in the argument', case)
        lines.append('tp ' + enc_mat(W, enc_q) + ' ' + enc_q(p)); pend.append(('tp', case, R, err, W))

        # ---------------- threshold_absolute / binarize / normalize / invert / weight_conversion
        W, sym = gen_matrix(ctx, signed=True)
        A = npm(W); A0 = A.copy(); n = len(W)
        thr = F(int(r.randint(-4, 10)), 2)
        case = {'fn': 'threshold_absolute', 'W': [[str(x) for x in row] for row in W], 'thr': str(thr)}
        ctx.case(case, nontrivial=bool(np.any(A)))
        R = bct.threshold_absolute(A, float(thr))
        E = A0.copy(); np.fill_diagonal(E, 0); E[E < float(thr)] = 0
        ctx.check(np.array_equal(R, E) and np.array_equal(A, A0), 'threshold_absolute:exact', 'not exactly the off-diagonal entries >= thr / argument modified', case)
        Ac = A0.copy(); R2 = bct.threshold_absolute(Ac, float(thr), copy=False)
        ctx.check(R2 is Ac and np.array_equal(R2, E), 'threshold_absolute:inplace', 'copy=False contract', case)
        lines.append('ta ' + enc_mat(W, enc_q) + ' ' + enc_q(thr)); pend.append(('ta', case, R, None, W))
        for m, name, f in ((0, 'binarize', bct.binarize), (1, 'normalize', bct.normalize), (2, 'lengths', bct.invert)):
            if m == 1 and not np.any(A0):
                continue
            case = {'fn': 'weight_conversion', 'wcm': name, 'W': [[str(x) for x in row] for row in W]}
            ctx.case(case, nontrivial=bool(np.any(A0)))
            A = A0.copy()
            R = f(A)
            Rw = bct.weight_conversion(A, name)
            ctx.check(np.array_equal(R, Rw), 'weight_conversion:dispatch', 'weight_conversion(%s) differs from the direct call' % name, case)
            ctx.check(np.array_equal(A, A0), name + ':copy', 'copy=True modified the argument', case)
            Ac = A0.copy(); R2 = f(Ac, copy=False)
            ctx.check(R2 is Ac and np.array_equal(R2, R), name + ':inplace', 'copy=False contract', case)
            Ac = A0.copy(); R3 = bct.weight_conversion(Ac, name, copy=False)
            ctx.check(R3 is Ac and np.array_equal(R3, R), 'weight_conversion:inplace', 'copy=False contract', case)
            if m == 0:
                ctx.check(np.array_equal(R, (A0 != 0).astype(float)), 'binarize:spec', 'not the 0/1 indicator of nonzero', case)
            if m == 1:
                ctx.check(abs(np.abs(R).max() - 1) < 1e-12 and np.allclose(R * np.abs(A0).max(), A0), 'normalize:spec', 'largest magnitude is not 1 / not a rescaling', case)
            if m == 2:
                with np.errstate(all='ignore'):
                    E = np.where(A0 != 0, 1 / np.where(A0 != 0, A0, 1), 0)
                ctx.check(np.allclose(R, E) and np.allclose(bct.invert(R), A0), 'invert:spec', 'not 1/w on the support or not an involution', case)
            lines.append('wc ' + enc_mat(W, enc_q) + ' %d' % m); pend.append(('wc', case, R, None, W))
        # teachers_round
        x = F(int(r.randint(-40, 41)), int(r.choice([1, 2, 4, 8])))
        from bct.utils.miscellaneous_utilities import teachers_round
        got = teachers_round(float(x))
        case = {'fn': 'teachers_round', 'x': str(x)}
        ctx.case(case, nontrivial=x.denominator != 1)
        if x > 0:
            import math
            ctx.check(got == math.floor(x + F(1, 2)), 'teachers_round:half_up', 'positive x must round half up', case)
        lines.append('round ' + enc_q(x)); pend.append(('round', case, got, None, None))

    # ---------------- correspondence: extracted Coq model on the same inputs
    res = run_model(ID, lines)
    ctx.model_cases = len(lines)
    for (kind, case, R, err, W), m in zip(pend, res):
        if is_err(m):
            ctx.mismatch('model-error', m['error'], case); continue
        if kind == 'round':
            if dec_z(m) != R:
                ctx.mismatch('teachers_round', 'model %s impl %s' % (dec_z(m), R), case, dec_z(m), R)
            continue
        if kind == 'tp':
            if m is None or R is None:
                if not (m is None and err == 'param'):
                    ctx.mismatch('threshold_proportional:reject', 'model %s / impl %s' % ('rejects' if m is None else 'accepts', err), case)
                continue
            M = np.array([[float(dec_q(x)) for x in row] for row in m]).reshape(R.shape)
            if np.array_equal(M, R):
                ctx.count('tp:identical')
                continue
            # argsort tie order is unspecified: same multiset of kept values, and identical support strictly above the cut
            same_vals = np.array_equal(np.sort(M, axis=None), np.sort(R, axis=None))
            cut = min(M[M != 0].min(), R[R != 0].min()) if np.any(M) and np.any(R) else 0
            above = np.array_equal(np.where(M > cut, M, 0), np.where(R > cut, R, 0))
            if same_vals and above:
                ctx.count('tp:equal_up_to_ties')
            else:
                ctx.mismatch('threshold_proportional', 'kept sets differ beyond tie order', case, M, R)
            continue
        M = np.array([[float(dec_q(x)) for x in row] for row in m]).reshape(R.shape)
        if not np.allclose(M, R, rtol=1e-12, atol=0):
            ctx.mismatch(case['fn'] + ':' + case.get('wcm', ''), 'model and implementation differ', case, M, R)
