"""C17 — thresholding and weight conversion keep exactly the documented entries."""
import math
import warnings
from fractions import Fraction as F
import numpy as np
from common import *

ID = 'C17'
COQ_FILES = ['Base/Mat.v', 'Base/ListX.v', 'Model/Threshold.v', 'Proofs/Threshold.v', 'Proofs/ThresholdFull.v',
             'Model/ThresholdStore.v', 'Proofs/ThresholdStore.v', 'Properties/C17.v']
THEOREMS = ['C17_tp_count', 'C17_tp_support', 'C17_tp_kept_iff', 'C17_tp_strongest', 'C17_tp_links', 'C17_tp_values',
            'C17_tp_diag', 'C17_tp_sym', 'C17_tp_instance', 'C17_tp_rejects', 'C17_ta_exact', 'C17_binarize',
            'C17_normalize', 'C17_normalize_domain', 'C17_invert_spec', 'C17_invert_involutive',
            'C17_copy_contract_meaning', 'C17_copy_threshold_absolute', 'C17_copy_threshold_proportional',
            'C17_copy_binarize', 'C17_copy_normalize', 'C17_copy_invert', 'C17_wc_dispatch',
            'C17_copy_weight_conversion', 'C17_rebind_not_inplace',
            'C17_teachers_round', 'C17_teachers_round_neg', 'C17_teachers_round_zero', 'C17_teachers_round_odd']
RULE = ('per round one threshold_proportional case, one threshold_absolute case, binarize/normalize/invert (each also through '
        'weight_conversion, plus unknown command strings) and one teachers_round case. Matrix families: small (n=1..7, integer / '
        'dyadic weights, many exact ties, symmetric and not, sparse and dense, zero / nonzero diagonals), n=0, large sparse '
        '(n=8..30), non-dyadic float weights (0.1, 0.3, 1/3, ...; the oracle and the model receive the EXACT rational value of '
        'each float), nearly symmetric (a symmetric matrix with relative noise 1e-9 / absolute 1e-10 that np.allclose accepts, '
        'or 1e-3 / 0.01 that it does not), all-zero, int64 and bool dtype, non-contiguous views (strided slice / transpose of a '
        'larger array) for copy=False; every second round the same utilities on a FLOAT32 / FLOAT16 / LONGDOUBLE array holding (the '
        'rounding of) the matrix (family storage:*; expectation computed from the exact values the array holds; copy=True: argument '
        'untouched, result not aliased; copy=False: `result is argument` and the argument holds the result; 1/w and w/max judged with 4 ulp OF '
        'THAT STORAGE - 2^-21 / 2^-8 - in this family only, supports and 0/1 values exactly; thresholds the storage holds exactly; '
        'threshold_proportional against the float64 run on the same values); the copy flag also spelled 1 / 0 / np.True_ / np.False_ '
        '(rotating, histogram flag:copy=*). p: 0, 1, k/16, k/32, k/8, out-of-range values, non-dyadic (0.07, 0.35, ...), and p chosen '
        'so that p*possible/ud falls on or within 2^-40 / 1e-10 / one ulp of k+.5; passed as float, np.float64 or int. '
        'thr: k/2, non-dyadic, and exactly equal to a weight. After the rounds: 48 (thorough 480) matrices n=2..8 whose DIAGONAL holds NaN / '
        '+inf / -inf / a mix with finite values (self-connections marked missing), off-diagonal dyadic weights with ties, symmetric two in '
        'three: threshold_proportional at p = k*ud/possible, a non-dyadic p and 0 / 1 / .1 / .9 (count, diagonal cleared and finite, values, '
        'strongest, support, symmetry, copy / in-place, same kept multiset as with a zero diagonal) and threshold_absolute (exact values); '
        '24 (240) int8 / int16 / int32 / int64 matrices n=1..5 whose strongest entry is iinfo(dtype).min (mixed with 0, small integers, '
        '+-2^(b-2), the type maximum; the minimum and zeros only; every nonzero entry the minimum) for normalize and '
        'weight_conversion(normalize): W / 2^(b-1) exactly, largest magnitude exactly 1, float result, copy=False refused, model tie. non-trivial = at least one off-diagonal nonzero; '
        'distinct by hash of (function, matrix, parameter, dtype)')
ASSUMES = ['every generated float enters the oracle and the model as its exact rational value; the only float arithmetic the code does '
           'before a decision is (n*n-n)*p/ud: that product is recomputed in binary64 by the harness and handed to the model as the '
           'rational p_eff with (n*n-n)*p_eff/ud equal to it exactly (for dyadic p it is p); cases where the binary64 value rounds '
           'differently from the exact product are counted under tp:float_en_differs_from_exact (none for dyadic p)',
           'np.allclose(W, W.T) is modelled with exact atol=1e-8, rtol=1e-5; generated noise keeps |a-b| away from atol+rtol|b| '
           '(knife-edge cases would be skipped and counted)',
           'argsort tie order is unspecified: kept sets are compared as value multisets when the cut falls inside a tie',
           '1/w and w/max are compared with relative tolerance 1e-15 * 8 on the implementation and 1e-12 against the model',
           'integer / bool matrices are ordinary inputs: invert / normalize must return the FLOAT result for them (copy=True) and refuse copy=False with BCTParamError, argument untouched (/repo 46a4b71, e4e2655)',
           'NaN / inf entries are not real weights and are not generated OFF the diagonal; on the diagonal (self-connections marked missing) they are '
           'generated for threshold_proportional / threshold_absolute only, which clear the diagonal before anything else (direct oracle, the model '
           'takes rationals); normalize of an all-zero matrix (0/0) must give NaN '
           'everywhere and of a 0x0 matrix must raise ValueError (what the code does; the clause "largest magnitude becomes 1" '
           'has no content there, theorem C17_normalize_domain); logtransform and autofix are not named by the property '
           '(their last statements rebind W, so copy=False does not leave the result in the argument: C17_rebind_not_inplace; '
           'observed once per run under distribution key rebind:*)']
# input-representation layer of common.py: layouts only.  dtype is a family of this harness's own generator (int64 / bool) with
# dtype clauses of its own (<fn>:dtype compares the result's dtype with the array the harness built; weight_conversion:dispatch
# compares two calls dtype included), so the integer / bool kinds stay off; copy=False calls are never converted by the layer.
VARIANT_KINDS = {'fortran', 'tview', 'strided'}

TRUSTED = ['the store model (Model/ThresholdStore.v) reads `W = W.copy()` as allocate+rebind and every other statement of the six '
           'utilities as a write into the object bound to W; that classification was made by reading bct/utils/other.py and is '
           'checked dynamically (`is`, argument before/after, cells of the enclosing array outside a view)']

ATOL, RTOL = F(1, 10 ** 8), F(1, 10 ** 5)


def tround(x):
    """round half away from zero on exact rationals (theorems C17_teachers_round, _neg, _zero)"""
    if x > 0:
        return int(math.floor(x + F(1, 2)))
    if x < 0:
        return -int(math.floor(-x + F(1, 2)))
    return 0


def enc_qb(x):
    x = F(x)
    def z(v):
        return '0' if v == 0 else ('-' if v < 0 else '') + '0b' + bin(abs(v))[2:]
    return z(x.numerator) if x.denominator == 1 else z(x.numerator) + '/' + z(x.denominator)


def enc_codes(s):
    return enc_list([ord(c) for c in s])


# ---------------------------------------------------------------- generators
DY = [F(1), F(2), F(3), F(4), F(1, 2), F(3, 4), F(5, 2)]
ND = [F(x) for x in (0.1, 0.3, 1 / 3, 0.7, 2.2, 0.1 + 0.2, 1e-3, 5.5)]


def fill(r, n, vals, dens, sym, signed):
    W = [[F(0)] * n for _ in range(n)]
    for i in range(n):
        for j in range(n):
            if sym and j < i:
                W[i][j] = W[j][i]
                continue
            if r.rand() < dens:
                v = vals[int(r.randint(0, len(vals)))]
                if signed and r.rand() < 0.3:
                    v = -v
                W[i][j] = v
    if r.rand() < 0.3:
        for i in range(n):
            W[i][i] = F(0)
    return W


def gen_matrix(ctx, signed):
    """returns (W as Fractions, family, dtype)"""
    r = ctx.nprng
    u = r.rand()
    dtype = 'float'
    if u < 0.50:
        fam = 'small'
        n = int(r.randint(1, 8))
        k = int(r.randint(1, len(DY) + 1))
        W = fill(r, n, DY[:k], float(r.choice([0.2, 0.5, 0.8, 1.0])), r.rand() < 0.5, signed)
    elif u < 0.52:
        fam, W = 'n0', []
    elif u < 0.58:
        fam = 'large_sparse'
        n = int(r.randint(8, 31))
        W = fill(r, n, DY[:int(r.randint(1, 8))], float(r.choice([0.03, 0.08, 0.15, 0.3])), r.rand() < 0.5, signed)
    elif u < 0.68:
        fam = 'nondyadic'
        n = int(r.randint(1, 8))
        W = fill(r, n, ND[:int(r.randint(1, len(ND) + 1))], float(r.choice([0.3, 0.6, 1.0])), r.rand() < 0.5, signed)
    elif u < 0.80:
        n = int(r.randint(2, 8))
        W = fill(r, n, (DY + ND)[:int(r.randint(1, 12))], float(r.choice([0.4, 0.8, 1.0])), True, signed)
        tiny = r.rand() < 0.6
        fam = 'nearsym_tiny' if tiny else 'nearsym_big'
        for _ in range(int(r.randint(1, 4))):
            i, j = sorted(int(x) for x in r.choice(n, 2, replace=False))
            a, b = (i, j) if r.rand() < 0.5 else (j, i)        # which triangle carries the perturbed value
            w = float(W[i][j])
            if w != 0:
                e = float(r.choice([1e-9, -1e-9, 3e-9])) if tiny else float(r.choice([1e-3, -2e-3]))
                W[a][b] = F(w * (1 + e))
            else:
                W[a][b] = F(1e-10) if tiny else F(0.01)
    elif u < 0.84:
        fam = 'allzero'
        n = int(r.randint(1, 6))
        W = [[F(0)] * n for _ in range(n)]
    else:
        dtype = 'int' if r.rand() < 0.6 else 'bool'
        fam = dtype
        n = int(r.randint(1, 8))
        W = fill(r, n, [F(1), F(2), F(3), F(4)][:int(r.randint(1, 5))], float(r.choice([0.2, 0.5, 0.8, 1.0])), r.rand() < 0.5,
                 signed and dtype == 'int')
        if dtype == 'bool':
            W = [[F(int(x != 0)) for x in row] for row in W]
    return W, fam, dtype


def npm(W, dtype='float'):
    n = len(W)
    t = {'float': float, 'int': np.int64, 'bool': bool}[dtype]
    conv = {'float': float, 'int': int, 'bool': lambda x: x != 0}[dtype]
    return np.array([[conv(x) for x in row] for row in W], dtype=t).reshape(n, n)


def as_view(r, A):
    """the same matrix as a non-contiguous view into a larger array; returns (view, base, mask of the cells the view covers)"""
    n = len(A)
    kind = int(r.randint(0, 3))
    if kind == 0:        # every second row/column of a 2n x 2n array
        B = np.full((2 * n, 2 * n), 9, dtype=A.dtype)
        B[::2, ::2] = A
        V = B[::2, ::2]
        M = np.zeros(B.shape, bool); M[::2, ::2] = True
    elif kind == 1:      # transpose of a C-ordered array (Fortran-ordered view)
        B = A.T.copy()
        V = B.T
        M = np.ones(B.shape, bool)
    else:                # a corner block of a larger array
        B = np.full((n + 2, n + 3), 9, dtype=A.dtype)
        B[1:n + 1, 2:n + 2] = A
        V = B[1:n + 1, 2:n + 2]
        M = np.zeros(B.shape, bool); M[1:n + 1, 2:n + 2] = True
    return V, B, M


def fr(x):
    """exact rational value of a NumPy scalar"""
    return F(float(x)) if not isinstance(x, (bool, np.bool_)) else F(int(x))


def frmat(R):
    return [[fr(x) for x in row] for row in np.asarray(R)]


def allclose_frac(Wd):
    """np.allclose(W, W.T) on exact values; second component: True if some pair sits on the knife edge"""
    n = len(Wd)
    ok, edge = True, False
    for i in range(n):
        for j in range(n):
            a, b = Wd[i][j], Wd[j][i]
            lhs, rhs = abs(a - b), ATOL + RTOL * abs(b)
            if lhs != 0 and abs(lhs - rhs) < rhs / 1000:
                edge = True
            if lhs > rhs:
                ok = False
    return ok, edge


def close_to(x, want, tol):
    """NumPy scalar x against an exact rational"""
    x = float(x)
    if not math.isfinite(x):
        return False
    return abs(F(x) - want) <= tol * max(abs(want), F(1, 10 ** 300))


def strs(W):
    return [[str(x) for x in row] for row in W]


# ---------------------------------------------------------------- threshold_proportional
def gen_p(ctx, n, ud):
    r = ctx.nprng
    poss = n * n - n
    ch = int(r.randint(0, 9))
    if ch == 0:
        return 0.0, 'p0'
    if ch == 1:
        return 1.0, 'p1'
    if ch == 2:
        return int(r.randint(0, 33)) / 32, 'dyadic'
    if ch == 3:
        return int(r.randint(0, 9)) / 8, 'dyadic'
    if ch == 4:
        return int(r.randint(-2, 20)) / 16, 'dyadic_or_outside'       # includes out-of-range values (rejection clause)
    if ch == 5:
        return float(r.choice([0.07, 0.35, 0.1, 0.3, 0.55, 0.9, 1 / 3, 0.15, 0.45, 0.65])), 'nondyadic'
    if ch == 6:
        return float(r.choice([-1e-9, 1 + 1e-9, -0.0, float(np.nextafter(1.0, 2.0)), float(np.nextafter(1.0, 0.0)), 5e-324, 1e-9])), 'boundary'
    if poss == 0:
        return float(r.rand()), 'nondyadic'
    # p x count (/ud) on or next to k + .5
    k = int(r.randint(0, max(1, poss // ud)))
    d = float(r.choice([0.0, 0.0, 2.0 ** -40, -2.0 ** -40, 1e-10, -1e-10]))
    x = k + 0.5 + d
    p = x * ud / poss
    u = int(r.randint(0, 3))
    if u == 1:
        p = float(np.nextafter(p, 2.0))
    elif u == 2:
        p = float(np.nextafter(p, -1.0))
    return p, 'near_half'


def tp_case(ctx, bct, lines, pend):
    r = ctx.nprng
    W, fam, dtype = gen_matrix(ctx, signed=False)
    n = len(W)
    poss = n * n - n
    Wd = [[F(0) if i == j else W[i][j] for j in range(n)] for i in range(n)]
    symbranch, edge = allclose_frac(Wd)
    if edge:
        ctx.count('tp:knife_edge_skipped')
        return
    ud = 2 if symbranch else 1
    p, pkind = gen_p(ctx, n, ud)
    pty = int(r.randint(0, 3))
    parg = np.float64(p) if pty == 1 else int(p) if (pty == 2 and p in (0.0, 1.0) and not (p == 0 and math.copysign(1, p) < 0)) else p
    A = npm(W, dtype)
    A0 = A.copy()
    case = {'fn': 'threshold_proportional', 'W': strs(W), 'p': repr(p), 'dtype': dtype, 'family': fam}
    ctx.case(case, nontrivial=any(Wd[i][j] != 0 for i in range(n) for j in range(n)))
    ctx.count('tp:n=%s' % (n if n < 8 else '8+')); ctx.count('tp:branch_sym' if symbranch else 'tp:branch_asym')
    ctx.count('tp:family:' + fam); ctx.count('tp:p:' + pkind)
    try:
        R = call(bct.threshold_proportional, A, parg)
        err = None
    except bct.utils.BCTParamError:
        R, err = None, 'param'
    except Exception as e:
        R, err = None, repr(e)
    pq = F(p)
    peff = pq
    if pq > 1 or pq < 0:
        ctx.check(err == 'param', 'threshold_proportional:reject', 'p outside [0,1] must raise BCTParamError', case)
        ctx.check(np.array_equal(A, A0), 'threshold_proportional:copy', 'rejected call modified the argument', case)
        ctx.count('tp:rejected')
    elif err:
        ctx.fail('threshold_proportional:raises', 'raised ' + err, case)
    else:
        xf = (n * n - n) * p / ud                 # the code's expression, same binary64 operations
        en = tround(F(xf))
        en_exact = tround(F(poss) * pq / ud)
        if en != en_exact:
            ctx.count('tp:float_en_differs_from_exact')
        if poss:
            peff = F(xf) * ud / poss
        links = [(i, j) for i in range(n) for j in range(n) if Wd[i][j] != 0 and (not symbranch or i < j)]
        want = ud * min(en, len(links))
        Rq = frmat(R)
        nnz = sum(1 for i in range(n) for j in range(n) if Rq[i][j] != 0)
        ctx.check(isinstance(R, np.ndarray) and R.shape == (n, n), 'threshold_proportional:shape', 'result is not an n x n array', case)
        ctx.check(nnz == want, 'threshold_proportional:count', 'kept %d connections, expected %d' % (nnz, want), case)
        ctx.check(all(Rq[i][i] == 0 for i in range(n)), 'threshold_proportional:diag', 'diagonal not cleared', case)
        if symbranch:
            okv = all(Rq[i][j] == Rq[j][i] and Rq[i][j] in (0, Wd[i][j]) for i in range(n) for j in range(i + 1, n))
        else:
            okv = all(Rq[i][j] in (0, Wd[i][j]) for i in range(n) for j in range(n))
        ctx.check(okv, 'threshold_proportional:values', 'an output entry is neither 0 nor the input entry', case)
        kept = [Wd[i][j] for (i, j) in links if Rq[i][j] != 0]
        dropped = [Wd[i][j] for (i, j) in links if Rq[i][j] == 0]
        ctx.check(not kept or not dropped or min(kept) >= max(dropped), 'threshold_proportional:strongest', 'a dropped connection is stronger than a kept one', case)
        ctx.check(len(kept) * ud == nnz, 'threshold_proportional:support', 'a nonzero output cell is not a link of the input', case)
        if symbranch:
            ctx.check(all(Rq[i][j] == Rq[j][i] for i in range(n) for j in range(n)), 'threshold_proportional:sym', 'symmetric input gave asymmetric output', case)
        ctx.check(np.array_equal(A, A0) and A.dtype == A0.dtype, 'threshold_proportional:copy', 'copy=True modified the argument', case)
        ctx.check(R is not A and not np.shares_memory(R, A), 'threshold_proportional:copy', 'copy=True returned (a view of) the argument', case)
        if dtype == 'float':
            ctx.check(R.dtype == A0.dtype, 'threshold_proportional:dtype', 'result dtype %s for float64 input' % R.dtype, case)
        Ac = A0.copy(); R2 = bct.threshold_proportional(Ac, parg, copy=False)
        ctx.check(R2 is Ac and np.array_equal(Ac, R), 'threshold_proportional:inplace', 'copy=False does not leave the result in the argument', case)
        if n and r.rand() < 0.5:
            V, B, M = as_view(r, A0); B0 = B.copy()
            R3 = bct.threshold_proportional(V, parg, copy=False)
            ctx.check(R3 is V and np.array_equal(V, R) and np.array_equal(B[~M], B0[~M]), 'threshold_proportional:inplace',
                      'copy=False on a non-contiguous view: result not left in the view / cells outside the view touched', case)
            ctx.count('tp:view')
    ml = enc_mat(W, enc_qb)
    lines.append('tp %s %s' % (ml, enc_qb(peff))); pend.append(('tp', case, R, err, None))
    for c in (1, 0):
        lines.append('st_tp %s %s %d' % (ml, enc_qb(peff), c)); pend.append(('st_tp', case, R, err, (c, A0)))


# ---------------------------------------------------------------- one utility call against an exact expectation
BCTPE = None   # bct.utils.BCTParamError, set in run()


def check_util(ctx, name, f, args, A0, W, E, tol, case, dtype, speckey, view_rng=None):
    """E: expected exact values (list of lists of Fractions), or 'nan' (every cell NaN), or ('raise', ExcType).
    Returns the copy=True result (or None)."""
    n = len(W)
    A = A0.copy()
    with warnings.catch_warnings(), np.errstate(all='ignore'):
        warnings.simplefilter('ignore')
        try:
            R = call(f, A, *args)
            err = None
        except Exception as e:
            R, err = None, e

        def values_ok(X):
            if E == 'nan':
                return isinstance(X, np.ndarray) and X.shape == (n, n) and bool(np.all(np.isnan(X)))
            if not (isinstance(X, np.ndarray) and X.shape == (n, n)):
                return False
            return all((fr(X[i, j]) == E[i][j]) if tol == 0 else close_to(X[i, j], E[i][j], tol) for i in range(n) for j in range(n))

        if isinstance(E, tuple):
            ctx.check(err is not None and isinstance(err, E[1]), speckey, 'expected %s, got %s' % (E[1].__name__, repr(err) if err else 'a result'), case)
            ctx.check(np.array_equal(A, A0), name + ':copy', 'argument modified by a call that raised', case)
            return None
        if err is not None:
            ctx.fail(speckey, 'raised %r' % (err,), case)
            return None
        ok = ctx.check(values_ok(R), speckey, 'result differs from the specified values', case)
        ctx.check(np.array_equal(A, A0) and A.dtype == A0.dtype, name + ':copy', 'copy=True modified the argument', case)
        ctx.check(R is not A and not np.shares_memory(R, A), name + ':copy', 'copy=True returned (a view of) the argument', case)
        if dtype == 'float':
            ctx.check(R.dtype == A0.dtype, name + ':dtype', 'result dtype %s for float64 input' % R.dtype, case)
        elif name in ('invert', 'normalize'):
            ctx.check(R.dtype.kind == 'f', name + ':dtype', 'result dtype %s for %s input cannot hold the quotients' % (R.dtype, dtype), case)
        if ok:
            Ac = A0.copy()
            refuse = dtype != 'float' and name in ('invert', 'normalize')
            try:
                R2 = f(Ac, *args, copy=False)
                if refuse:
                    # an integer / bool array cannot hold 1/w or w/max: the code must refuse (BCTParamError) and not touch it
                    ctx.fail(name + ':inplace', 'copy=False on a %s array returned instead of raising BCTParamError' % dtype, case)
                else:
                    ctx.check(R2 is Ac and values_ok(Ac), name + ':inplace', 'copy=False does not leave the result in the argument', case)
            except Exception as e:
                if refuse and isinstance(e, BCTPE) and np.array_equal(Ac, A0) and Ac.dtype == A0.dtype:
                    ctx.count(name + ':inplace_refused_on_%s' % dtype)
                else:
                    ctx.fail(name + ':inplace', 'copy=False raised %r%s' % (e, '' if np.array_equal(Ac, A0) else ' and modified the argument'), case)
            if not refuse:
                # the flag in another spelling of the same truth value (a Python int, NumPy's bool scalar), rotating; arguments as
                # passed: the representation layer recognises only `copy=False` itself as an in-place call
                FLAG_ROT[0] += 1
                sp, val = FLAG_SPELLINGS[FLAG_ROT[0] % len(FLAG_SPELLINGS)]
                Af = A0.copy()
                try:
                    with no_variants():
                        Rf = f(Af, *args, copy=val)
                    if val:
                        ctx.check(values_ok(Rf) and np.array_equal(Af, A0) and Rf is not Af and not np.shares_memory(Rf, Af), name + ':copy',
                                  'copy=%s (a true flag) is not handled as copy=True' % sp, case)
                    else:
                        ctx.check(Rf is Af and values_ok(Af), name + ':inplace', 'copy=%s (a false flag) does not leave the result in the argument' % sp, case)
                except Exception as e:
                    ctx.fail(name + (':copy' if val else ':inplace'), 'copy=%s raised %r' % (sp, e), case)
                ctx.count('flag:copy=' + sp)
            if view_rng is not None and n:
                V, B, M = as_view(view_rng, A0); B0 = B.copy()
                R3 = f(V, *args, copy=False)
                ctx.check(R3 is V and values_ok(V) and np.array_equal(B[~M], B0[~M]), name + ':inplace',
                          'copy=False on a non-contiguous view: result not left in the view / cells outside the view touched', case)
                ctx.count(name + ':view')
        return R


FLAG_SPELLINGS = [('1', 1), ('0', 0), ('np.True_', np.True_), ('np.False_', np.False_)]
FLAG_ROT = [0]
# floating-point storages other than binary64 (float32 is what imaging pipelines write): relative tolerance for 1/w and w/max = 4 units
# in the last place OF THAT STORAGE - used in this family only; supports / kept entries / 0-1 values are compared exactly
STORAGES = [('float32', np.float32, F(1, 2 ** 21)), ('float16', np.float16, F(1, 2 ** 8)), ('float32', np.float32, F(1, 2 ** 21)),
            ('longdouble', np.longdouble, F(8, 10 ** 15))]


def storage_cases(ctx, bct, W, fam, thr, which):
    """the utilities on a float32 / float16 / longdouble array holding (the rounding of) W: copy=True leaves the argument alone and
    returns the specified values, copy=False returns THE ARGUMENT and the argument holds them - in the precision of the storage"""
    sname, t, stol = STORAGES[which % len(STORAGES)]
    n = len(W)
    with np.errstate(all='ignore'):
        As = npm(W, 'float').astype(t)
    if n == 0 or not np.all(np.isfinite(As)) or not np.any(As):
        return
    Ws = [[F(float(x)) for x in row] for row in As]          # the values the array really holds (exact)
    if F(float(t(float(thr)))) != thr:
        thr = F(int(thr * 2), 2)                              # a threshold the storage holds exactly (NumPy compares in the array's precision)
    jobs = [('threshold_absolute', bct.threshold_absolute, (float(thr),), None, 0), ('binarize', bct.binarize, (), 'binarize', 0),
            ('normalize', bct.normalize, (), 'normalize', stol), ('invert', bct.invert, (), 'lengths', stol)]
    for name, f, args, wname, tol in jobs:
        E = expected(name, Ws, thr)
        case = {'fn': name, 'W': strs(Ws), 'dtype': sname, 'family': 'storage:' + fam}
        if name == 'threshold_absolute':
            case['thr'] = str(thr)
        ctx.case(case, nontrivial=True); ctx.count('storage:%s:%s' % (sname, name))

        def values_ok(X):
            return isinstance(X, np.ndarray) and X.shape == (n, n) and all(
                (F(float(X[i, j])) == E[i][j]) if tol == 0 else close_to(X[i, j], E[i][j], tol) for i in range(n) for j in range(n))
        calls = [(name, f, args)] + ([('weight_conversion', bct.weight_conversion, (wname,))] if wname else [])
        for cname, g, a in calls:
            base_case = case
            case = base_case if cname == name else dict(base_case, fn='weight_conversion', wcm=wname)
            with warnings.catch_warnings(), np.errstate(all='ignore'):
                warnings.simplefilter('ignore')
                B = As.copy()
                try:
                    R = g(B, *a)
                    speckey = 'weight_conversion:' + wname if cname == 'weight_conversion' else 'threshold_absolute:exact' if name == 'threshold_absolute' else name + ':spec'
                    ctx.check(values_ok(R), speckey,
                              'copy=True on a %s array: result differs from the specified values (tolerance %s relative)' % (sname, float(tol)), case)
                    ctx.check(np.array_equal(B, As) and B.dtype == As.dtype and R is not B and not np.shares_memory(R, B), cname + ':copy',
                              'copy=True on a %s array modified / returned (a view of) the argument' % sname, case)
                except Exception as e:
                    ctx.fail(cname + ':copy', 'copy=True on a %s array raised %r' % (sname, e), case)
                C = As.copy()
                try:
                    R2 = g(C, *a, copy=False)
                    ctx.check(R2 is C and values_ok(C), cname + ':inplace',
                              'copy=False on a %s array does not leave the result in the argument (returned object is the argument: %s; the argument holds the '
                              'result to %s relative: %s)' % (sname, R2 is C, float(tol) if tol else 'exactly', values_ok(C)), case)
                except Exception as e:
                    ctx.fail(cname + ':inplace', 'copy=False on a %s array raised %r' % (sname, e), case)
            case = base_case
    # threshold_proportional: the same float64 values held exactly by the storage -> the same kept set (up to tie order), same contract
    if Ws == W:
        W = [[abs(x) for x in row] for row in W]; Ws = W; As = np.abs(As)
        p = [0.25, 0.5, 0.3, 0.75, 1.0][which % 5]
        case = {'fn': 'threshold_proportional', 'W': strs(Ws), 'p': repr(p), 'dtype': sname, 'family': 'storage:' + fam}
        ctx.case(case, nontrivial=True); ctx.count('storage:%s:threshold_proportional' % sname)
        try:
            R64 = bct.threshold_proportional(npm(W, 'float'), p)
            B = As.copy(); R = bct.threshold_proportional(B, p)
            C = As.copy(); R2 = bct.threshold_proportional(C, p, copy=False)
            ctx.check(tp_equiv(frmat(R64), R) is not None, 'threshold_proportional:count', 'on a %s array the kept set differs from the float64 run on the same values' % sname, case)
            ctx.check(np.array_equal(B, As) and R is not B and not np.shares_memory(R, B), 'threshold_proportional:copy', 'copy=True on a %s array modified / returned the argument' % sname, case)
            ctx.check(R2 is C and np.array_equal(C, R), 'threshold_proportional:inplace', 'copy=False on a %s array does not leave the result in the argument' % sname, case)
        except Exception as e:
            ctx.fail('threshold_proportional:raises', 'raised %r on a %s array' % (e, sname), case)


def expected(name, W, thr=None):
    n = len(W)
    if name == 'threshold_absolute':
        return [[F(0) if (i == j or W[i][j] < thr) else W[i][j] for j in range(n)] for i in range(n)]
    if name == 'binarize':
        return [[F(int(W[i][j] != 0)) for j in range(n)] for i in range(n)]
    if name == 'invert':
        return [[1 / W[i][j] if W[i][j] != 0 else F(0) for j in range(n)] for i in range(n)]
    if name == 'normalize':
        if n == 0:
            return ('raise', ValueError)
        m = max(abs(x) for row in W for x in row)
        if m == 0:
            return 'nan'
        return [[W[i][j] / m for j in range(n)] for i in range(n)]
    raise KeyError(name)


STORAGE_ROT = [0]


def util_cases(ctx, bct, lines, pend):
    r = ctx.nprng
    W, fam, dtype = gen_matrix(ctx, signed=True)
    n = len(W)
    A0 = npm(W, dtype)
    nontriv = any(x != 0 for row in W for x in row)
    ml = enc_mat(W, enc_qb)
    ctx.count('util:family:' + fam); ctx.count('util:n=%s' % (n if n < 8 else '8+'))
    # ---------------- threshold_absolute
    ch = int(r.randint(0, 4))
    flat = [x for row in W for x in row if x != 0]
    if ch == 0 and flat:
        thr = flat[int(r.randint(0, len(flat)))]           # exactly a weight: "not below the threshold" is kept
    elif ch == 1:
        thr = F(float(r.choice([0.1, 0.3, 1 / 3, 0.7, 2.2, -0.1, 1e-3])))
    else:
        thr = F(int(r.randint(-4, 10)), 2)
    case = {'fn': 'threshold_absolute', 'W': strs(W), 'thr': str(thr), 'dtype': dtype, 'family': fam}
    ctx.case(case, nontrivial=nontriv)
    R = check_util(ctx, 'threshold_absolute', bct.threshold_absolute, (float(thr),), A0, W, expected('threshold_absolute', W, thr), 0, case,
                   dtype, 'threshold_absolute:exact', view_rng=r if r.rand() < 0.5 else None)
    lines.append('ta %s %s' % (ml, enc_qb(thr))); pend.append(('ta', case, R, None, None))
    for c in (1, 0):
        lines.append('st_ta %s %s %d' % (ml, enc_qb(thr), c)); pend.append(('st_ta', case, R, None, (c, A0)))
    # ---------------- binarize / normalize / invert, directly and through weight_conversion
    for name, wname, f in (('binarize', 'binarize', bct.binarize), ('normalize', 'normalize', bct.normalize), ('invert', 'lengths', bct.invert)):
        case = {'fn': name, 'W': strs(W), 'dtype': dtype, 'family': fam}
        ctx.case(case, nontrivial=nontriv)
        E = expected(name, W)
        tol = 0 if name == 'binarize' else F(8, 10 ** 15)
        key = name + ':spec'       # integer / bool input included: the float result is required (regression of 46a4b71 / e4e2655)
        R = check_util(ctx, name, f, (), A0, W, E, tol, case, dtype, key, view_rng=r if (dtype == 'float' and r.rand() < 0.4) else None)
        if name == 'invert' and R is not None and dtype == 'float':
            with np.errstate(all='ignore'):
                RR = bct.invert(R)
            ctx.check(all(close_to(RR[i, j], W[i][j], F(16, 10 ** 15)) if W[i][j] != 0 else RR[i, j] == 0 for i in range(n) for j in range(n)),
                      'invert:involution', 'invert(invert(W)) is not W', case)
        if name == 'normalize' and R is not None and E != 'nan':
            ctx.check(float(np.abs(R).max()) == 1.0, 'normalize:max_is_one', 'largest magnitude of the result is not exactly 1', case)
        # weight_conversion must be the same call
        wcase = {'fn': 'weight_conversion', 'wcm': wname, 'W': strs(W), 'dtype': dtype, 'family': fam}
        ctx.case(wcase, nontrivial=nontriv)
        for cp in (True, False):
            Aw = A0.copy(); Ad = A0.copy()
            with warnings.catch_warnings(), np.errstate(all='ignore'):
                warnings.simplefilter('ignore')
                try:
                    Rw, ew = bct.weight_conversion(Aw, wname, copy=cp), None
                except Exception as e:
                    Rw, ew = None, e
                try:
                    Rd, ed = f(Ad, copy=cp), None
                except Exception as e:
                    Rd, ed = None, e
            same = (type(ew) is type(ed)) if (ew or ed) else (np.array_equal(Rw, Rd, equal_nan=True) and Rw.dtype == Rd.dtype and (Rw is Aw) == (Rd is Ad))
            ctx.check(same and np.array_equal(Aw, Ad, equal_nan=True), 'weight_conversion:dispatch',
                      'weight_conversion(%s, copy=%s) differs from the direct call (result, identity or argument afterwards)' % (wname, cp), wcase)
            if cp is False and ew is None:
                ctx.check(Rw is Aw, 'weight_conversion:inplace', 'copy=False contract', wcase)
            if cp is False and dtype != 'float' and name != 'binarize':
                ctx.check(isinstance(ew, BCTPE) and np.array_equal(Aw, A0), 'weight_conversion:inplace',
                          'copy=False on a %s array must raise BCTParamError and leave the argument alone (got %r)' % (dtype, ew), wcase)
        flt = int(dtype == 'float')
        lines.append('wc_str %s %s' % (ml, enc_codes(wname))); pend.append(('wc_str', wcase, R, E, None))
        for c in (1, 0):
            lines.append('st_wc %s %s %d %d' % (ml, enc_codes(wname), flt, c)); pend.append(('st_wc', wcase, R, E, (c, A0, wname, flt)))
    # ---------------- other floating-point storages (every second round; float32, float16, float32, longdouble in rotation)
    STORAGE_ROT[0] += 1
    if dtype == 'float' and STORAGE_ROT[0] % 2 == 0:
        storage_cases(ctx, bct, W, fam, thr, STORAGE_ROT[0] // 2)
    # ---------------- unknown command strings
    if r.rand() < 0.5:
        bad = str(r.choice(['foo', 'Binarize', 'binarize ', '', 'length', 'normalise', 'lengths2', 'BINARIZE', 'invert']))
        wcase = {'fn': 'weight_conversion', 'wcm': bad, 'W': strs(W), 'dtype': dtype, 'family': fam}
        ctx.case(wcase, nontrivial=nontriv)
        for cp in (True, False):
            Aw = A0.copy()
            try:
                bct.weight_conversion(Aw, bad, copy=cp); e = None
            except Exception as ex:
                e = ex
            ctx.check(isinstance(e, NotImplementedError) and np.array_equal(Aw, A0), 'weight_conversion:unknown',
                      'unknown command %r must raise NotImplementedError and leave the argument alone (got %r)' % (bad, e), wcase)
        lines.append('wc_str %s %s' % (ml, enc_codes(bad))); pend.append(('wc_str', wcase, None, ('raise', NotImplementedError), None))
        lines.append('st_wc %s %s %d 0' % (ml, enc_codes(bad), int(dtype == 'float'))); pend.append(('st_wc', wcase, None, ('raise', NotImplementedError), (0, A0, bad, int(dtype == 'float'))))
        ctx.count('wc:unknown')


# ---------------------------------------------------------------- self-connections marked missing (NaN / inf on the diagonal)
def diag_marked_cases(ctx, bct, t):
    """threshold_proportional / threshold_absolute clear the diagonal FIRST: whatever the diagonal holds - NaN or +-inf where
    self-connections were marked missing - must not influence anything (which branch, how many connections, which ones).
    Off-diagonal weights: small dyadic values with many ties, symmetric (two cases in three) or not.  Direct oracle only
    (the model takes rationals): the expectation is the one of the same matrix with a zero diagonal."""
    r = ctx.nprng
    n = int(r.randint(2, 9))
    sym = t % 3 != 2
    W = fill(r, n, DY[:int(r.randint(2, len(DY) + 1))], float(r.choice([0.5, 0.8, 1.0])), sym, False)
    Wd = [[F(0) if i == j else W[i][j] for j in range(n)] for i in range(n)]
    marks = [[np.nan], [np.inf], [-np.inf], [np.nan, np.inf], [np.nan, 0.0, 1.0], [np.nan, -np.inf, 2.5]][t % 6]
    dg = [float(marks[int(r.randint(0, len(marks)))]) for _ in range(n)]
    if not any(math.isnan(x) for x in dg) and t % 2 == 0:
        dg[int(r.randint(0, n))] = float('nan')
    A0 = npm(Wd, 'float')
    for i in range(n):
        A0[i, i] = dg[i]
    symbranch, edge = allclose_frac(Wd)
    if edge:
        return
    ud = 2 if symbranch else 1
    poss = n * n - n
    links = [(i, j) for i in range(n) for j in range(n) if Wd[i][j] != 0 and (not symbranch or i < j)]
    mk = 'nan' if all(math.isnan(x) for x in dg) else 'inf' if not any(math.isnan(x) for x in dg) else 'mixed'
    ctx.count('diag_marked:' + mk); ctx.count('diag_marked:' + ('sym' if symbranch else 'asym'))
    Wtxt = [[repr(dg[i]) if i == j else str(Wd[i][j]) for j in range(n)] for i in range(n)]
    # ---- threshold_proportional: p with an odd and an even number of kept pairs, 0 and 1
    k = int(r.randint(0, max(1, poss // ud) + 1))
    for p in dict.fromkeys([k * ud / poss, float(r.choice([0.25, 0.3, 0.5, 0.55, 0.75])), float(r.choice([0.0, 1.0, 0.1, 0.9]))]):
        if not 0 <= p <= 1:
            continue
        case = {'fn': 'threshold_proportional', 'W': Wtxt, 'p': repr(p), 'dtype': 'float', 'family': 'diag_marked_' + mk}
        ctx.case(case, nontrivial=bool(links))
        A = A0.copy()
        try:
            R = call(bct.threshold_proportional, A, p)
        except Exception as e:
            ctx.fail('threshold_proportional:raises', 'raised %r' % (e,), case)
            continue
        en = tround(F((n * n - n) * p / ud))
        want = ud * min(en, len(links))
        ok = ctx.check(isinstance(R, np.ndarray) and R.shape == (n, n) and bool(np.all(np.isfinite(R))), 'threshold_proportional:shape',
                       'result is not a finite n x n array (the diagonal had to be cleared)', case)
        if not ok:
            continue
        Rq = frmat(R)
        nnz = sum(1 for i in range(n) for j in range(n) if Rq[i][j] != 0)
        ctx.check(all(Rq[i][i] == 0 for i in range(n)), 'threshold_proportional:diag', 'diagonal not cleared', case)
        ctx.check(nnz == want, 'threshold_proportional:count', 'kept %d connections, expected %d' % (nnz, want), case)
        ctx.check(all(Rq[i][j] in (0, Wd[i][j]) for i in range(n) for j in range(n)), 'threshold_proportional:values',
                  'an output entry is neither 0 nor the input entry', case)
        kept = [Wd[i][j] for (i, j) in links if Rq[i][j] != 0]
        dropped = [Wd[i][j] for (i, j) in links if Rq[i][j] == 0]
        ctx.check(not kept or not dropped or min(kept) >= max(dropped), 'threshold_proportional:strongest', 'a dropped connection is stronger than a kept one', case)
        ctx.check(len(kept) * ud == nnz, 'threshold_proportional:support', 'a nonzero output cell is not a link of the input', case)
        if symbranch:
            ctx.check(all(Rq[i][j] == Rq[j][i] for i in range(n) for j in range(n)), 'threshold_proportional:sym', 'symmetric input gave asymmetric output', case)
        ctx.check(np.array_equal(A, A0, equal_nan=True), 'threshold_proportional:copy', 'copy=True modified the argument', case)
        ctx.check(R is not A and not np.shares_memory(R, A), 'threshold_proportional:copy', 'copy=True returned (a view of) the argument', case)
        Ac = A0.copy(); R2 = bct.threshold_proportional(Ac, p, copy=False)
        ctx.check(R2 is Ac and np.array_equal(Ac, R), 'threshold_proportional:inplace', 'copy=False does not leave the result in the argument', case)
        # the same call on the matrix with a zero diagonal keeps the same multiset of values (tie order aside)
        R0 = bct.threshold_proportional(npm(Wd, 'float'), p)
        ctx.check(tp_equiv(frmat(R0), R) is not None, 'threshold_proportional:count', 'the kept set depends on what the diagonal held', case)
    # ---- threshold_absolute
    flat = [x for row in Wd for x in row if x != 0]
    thr = flat[int(r.randint(0, len(flat)))] if flat and r.rand() < 0.5 else F(int(r.randint(-2, 8)), 2)
    case = {'fn': 'threshold_absolute', 'W': Wtxt, 'thr': str(thr), 'dtype': 'float', 'family': 'diag_marked_' + mk}
    ctx.case(case, nontrivial=bool(links))
    E = expected('threshold_absolute', Wd, thr)
    A = A0.copy()
    try:
        R = call(bct.threshold_absolute, A, float(thr))
        ok = isinstance(R, np.ndarray) and R.shape == (n, n) and bool(np.all(np.isfinite(R))) and frmat(R) == E
        ctx.check(ok, 'threshold_absolute:exact', 'result differs from the specified values (diagonal cleared, entries below thr zeroed)', case)
        ctx.check(np.array_equal(A, A0, equal_nan=True) and R is not A and not np.shares_memory(R, A), 'threshold_absolute:copy', 'copy=True modified / returned the argument', case)
        Ac = A0.copy(); R2 = bct.threshold_absolute(Ac, float(thr), copy=False)
        ctx.check(R2 is Ac and np.array_equal(Ac, R), 'threshold_absolute:inplace', 'copy=False does not leave the result in the argument', case)
    except Exception as e:
        ctx.fail('threshold_absolute:exact', 'raised %r' % (e,), case)


# ---------------------------------------------------------------- signed integer matrices whose strongest entry is the type minimum
INT_TYPES = [np.int8, np.int16, np.int32, np.int64]


def int_min_cases(ctx, bct, t, lines, pend):
    """normalize / weight_conversion('normalize') on an int8 / int16 / int32 / int64 matrix whose largest magnitude is
    iinfo(dtype).min = -2^(b-1): |min| is not representable in the type itself (np.abs wraps to min), the float result is
    W / 2^(b-1) and its largest magnitude is exactly 1.  Other entries: 0, small integers, powers of two, the type maximum
    (b <= 32) - all exact in binary64, and the divisor is a power of two, so the expectation is exact."""
    r = ctx.nprng
    ty = INT_TYPES[t % 4]
    ii = np.iinfo(ty)
    b = ii.bits
    n = int(r.randint(1, 6))
    pool = [0, 0, 1, -1, 3, -7, 2 ** (b - 2), -(2 ** (b - 2)), 100 if b > 8 else 5]
    if b <= 32:
        pool += [ii.max, ii.max - 1]
    style = t // 4 % 3               # 0: mixed; 1: the minimum and zeros only; 2: every nonzero entry is the minimum
    Wi = [[0] * n for _ in range(n)]
    for i in range(n):
        for j in range(n):
            if r.rand() < 0.7:
                Wi[i][j] = ii.min if style == 2 else 0 if style == 1 else int(pool[int(r.randint(0, len(pool)))])
    symm = r.rand() < 0.5
    if symm:
        Wi = [[Wi[min(i, j)][max(i, j)] for j in range(n)] for i in range(n)]
    for _ in range(int(r.randint(1, 3))):
        i, j = int(r.randint(0, n)), int(r.randint(0, n))
        Wi[i][j] = ii.min
        if symm:
            Wi[j][i] = ii.min
    W = [[F(x) for x in row] for row in Wi]
    A0 = np.array(Wi, dtype=ty).reshape(n, n)
    name = np.dtype(ty).name
    fam = 'int_min:' + name
    ctx.count('int_min:' + name); ctx.count('int_min:style%d' % style)
    E = expected('normalize', W)
    case = {'fn': 'normalize', 'W': strs(W), 'dtype': name, 'family': fam}
    ctx.case(case, nontrivial=True)
    R = check_util(ctx, 'normalize', bct.normalize, (), A0, W, E, F(8, 10 ** 15), case, 'int', 'normalize:spec')
    if R is not None:
        ctx.check(float(np.abs(R).max()) == 1.0, 'normalize:max_is_one', 'largest magnitude of the result is not exactly 1', case)
    wcase = {'fn': 'weight_conversion', 'wcm': 'normalize', 'W': strs(W), 'dtype': name, 'family': fam}
    ctx.case(wcase, nontrivial=True)
    Aw = A0.copy()
    with warnings.catch_warnings(), np.errstate(all='ignore'):
        warnings.simplefilter('ignore')
        try:
            Rw = call(bct.weight_conversion, Aw, 'normalize')
            ok = isinstance(Rw, np.ndarray) and Rw.shape == (n, n) and Rw.dtype.kind == 'f' and all(
                close_to(Rw[i, j], E[i][j], F(8, 10 ** 15)) for i in range(n) for j in range(n))
            ctx.check(ok, 'weight_conversion:normalize', 'result differs from W / max|W|', wcase)
            ctx.check(ok and float(np.abs(Rw).max()) == 1.0, 'weight_conversion:normalize', 'largest magnitude of the result is not exactly 1', wcase)
            ctx.check(np.array_equal(Aw, A0) and Aw.dtype == A0.dtype, 'weight_conversion:copy', 'copy=True modified the argument', wcase)
        except Exception as e:
            ctx.fail('weight_conversion:normalize', 'raised %r' % (e,), wcase)
        Ac = A0.copy()
        try:
            bct.weight_conversion(Ac, 'normalize', copy=False); ew = None
        except Exception as e:
            ew = e
        ctx.check(isinstance(ew, BCTPE) and np.array_equal(Ac, A0), 'weight_conversion:inplace',
                  'copy=False on a %s array must raise BCTParamError and leave the argument alone (got %r)' % (name, ew), wcase)
    ml = enc_mat(W, enc_qb)
    lines.append('wc_str %s %s' % (ml, enc_codes('normalize'))); pend.append(('wc_str', wcase, R, E, None))
    for c in (1, 0):
        lines.append('st_wc %s %s 0 %d' % (ml, enc_codes('normalize'), c)); pend.append(('st_wc', wcase, R, E, (c, A0, 'normalize', 0)))


def round_case(ctx, lines, pend):
    from bct.utils.miscellaneous_utilities import teachers_round
    r = ctx.nprng
    ch = int(r.randint(0, 4))
    if ch == 0:
        x = int(r.randint(-40, 41)) / float(r.choice([1, 2, 4, 8]))
    elif ch == 1:
        x = float(r.choice([0.1, -0.1, 2.675, -2.675, 1e-20, -1e-20, 0.49999999999999994, -0.49999999999999994, 1e15 + 0.5, -(1e15 + 0.5),
                            4503599627370497.5, 0.0, -0.0, 3.5000000000000004, -3.5000000000000004]))
    elif ch == 2:
        x = float(r.uniform(-50, 50))
    else:
        k = int(r.randint(-30, 31))
        x = k + 0.5 + float(r.choice([0.0, 2.0 ** -40, -2.0 ** -40, 1e-10, -1e-10]))
        if r.rand() < 0.3:
            x = float(np.nextafter(x, float(r.choice([-1e9, 1e9]))))
    xq = F(x)
    if xq < 0 and F(x % 1) != xq - math.floor(xq):
        # binary64 artefact outside the model: for -1 < x < 0 with low-order bits the float `x % 1` = fmod(x, 1) + 1 is rounded
        # (e.g. -0.49999999999999994 % 1 == 0.5, so the code returns -1); recorded, not judged (tp only rounds x >= 0)
        ctx.count('round:neg_float_mod_inexact_skipped')
        return
    got = teachers_round(np.float64(x) if r.rand() < 0.3 else x)
    case = {'fn': 'teachers_round', 'x': repr(x)}
    ctx.case(case, nontrivial=xq.denominator != 1)
    ctx.count('round:' + ('pos' if xq > 0 else 'neg' if xq < 0 else 'zero'))
    ctx.check(isinstance(got, int) and got == tround(xq), 'teachers_round:half_up' if xq > 0 else 'teachers_round:half_away',
              'teachers_round(%r) = %r, expected %d (round half away from zero)' % (x, got, tround(xq)), case)
    lines.append('round ' + enc_qb(xq)); pend.append(('round', case, got, None, None))


def observe_rebinders(ctx, bct):
    """logtransform / autofix are not named by C17; recorded, not judged (see ASSUMES)"""
    A = np.array([[0.5, 0.25], [0.25, 1.0]])
    B = A.copy()
    try:
        R = bct.logtransform(B, copy=False)
        ctx.count('rebind:logtransform_' + ('inplace' if R is B else 'returns_new_object_argument_%s' % ('unchanged' if np.array_equal(A, B) else 'changed')))
    except Exception as e:
        ctx.count('rebind:logtransform_raises_' + type(e).__name__)
    A = np.array([[0.0, 1.0000000001], [1.0, 0.0]])
    B = A.copy()
    try:
        R = bct.autofix(B, copy=False)
        ctx.count('rebind:autofix_' + ('inplace' if R is B else 'returns_new_object'))
    except Exception as e:
        ctx.count('rebind:autofix_raises_' + type(e).__name__)


# ---------------------------------------------------------------- model tie
def dec_m(m):
    return [[dec_q(x) for x in row] for row in m]


def same_vals(Mq, X, tol):
    X = np.asarray(X)
    n = len(Mq)
    if X.shape != (n, n):
        return False
    if tol == 0:
        return all(fr(X[i, j]) == Mq[i][j] for i in range(n) for j in range(n))
    return all(close_to(X[i, j], Mq[i][j], tol) for i in range(n) for j in range(n))


def tp_equiv(Mq, R):
    """argsort tie order is unspecified: same multiset of values, identical support strictly above the cut"""
    n = len(Mq)
    Rq = frmat(R)
    if Mq == Rq:
        return 'identical'
    fm = sorted(x for row in Mq for x in row); frr = sorted(x for row in Rq for x in row)
    if fm != frr:
        return None
    nzm = [x for x in fm if x != 0]
    cut = min(nzm) if nzm else F(0)
    if all((Mq[i][j] if Mq[i][j] > cut else 0) == (Rq[i][j] if Rq[i][j] > cut else 0) for i in range(n) for j in range(n)):
        return 'ties'
    return None


def run(ctx):
    import bct
    global BCTPE
    BCTPE = bct.utils.BCTParamError
    N = ctx.scale(400, 4000)
    lines, pend = [], []
    observe_rebinders(ctx, bct)
    for t in range(N):
        tp_case(ctx, bct, lines, pend)
        util_cases(ctx, bct, lines, pend)
        round_case(ctx, lines, pend)
    # ---------------- NaN / inf diagonals (self-connections marked missing) for the two thresholding routines; signed integer
    # matrices whose strongest entry is the type minimum for normalize (after the main stream: its draws stay what they were)
    for t in range(ctx.scale(48, 480)):
        diag_marked_cases(ctx, bct, t)
    for t in range(ctx.scale(24, 240)):
        int_min_cases(ctx, bct, t, lines, pend)

    # ---------------- correspondence: extracted Coq model (pure functions AND the store programs) on the same inputs
    res = run_model(ID, lines)
    ctx.model_cases = len(lines)
    for (kind, case, R, err, extra), m in zip(pend, res):
        if is_err(m):
            ctx.mismatch('model-error', m['error'], case); continue
        if kind == 'round':
            if dec_z(m) != R:
                ctx.mismatch('teachers_round', 'model %s impl %s' % (dec_z(m), R), case, dec_z(m), R)
            continue
        if kind in ('tp', 'st_tp'):
            if m is None or R is None:
                if not (m is None and err == 'param'):
                    ctx.mismatch('threshold_proportional:reject', 'model %s / impl %s' % ('rejects' if m is None else 'accepts', err), case)
                continue
            if kind == 'tp':
                v = tp_equiv(dec_m(m), R)
                if v is None:
                    ctx.mismatch('threshold_proportional', 'kept sets differ beyond tie order', case, m, R)
                else:
                    ctx.count('tp:' + ('identical' if v == 'identical' else 'equal_up_to_ties'))
                continue
            c, A0 = extra
            arg_after, ret, same = dec_m(m[0]), dec_m(m[1]), m[2]
            # implementation observation: copy=True -> (A0, R, False); copy=False -> (R, R, True)   (checked directly above)
            want_arg = frmat(A0) if c else None
            okk = (same == (not c)) and tp_equiv(ret, R) is not None and (arg_after == want_arg if c else arg_after == ret)
            if not okk:
                ctx.mismatch('threshold_proportional:store', 'store model (copy=%d) disagrees with the observed argument/result/identity' % c, case, m, R)
            continue
        if kind in ('ta', 'st_ta'):
            if R is None:
                continue
            if kind == 'ta':
                if not same_vals(dec_m(m), R, 0):
                    ctx.mismatch('threshold_absolute', 'model and implementation differ', case, m, R)
                continue
            c, A0 = extra
            arg_after, ret, same = dec_m(m[0]), dec_m(m[1]), m[2]
            okk = (same == (not c)) and same_vals(ret, R, 0) and (arg_after == frmat(A0) if c else arg_after == ret)
            if not okk:
                ctx.mismatch('threshold_absolute:store', 'store model (copy=%d) disagrees with the observed argument/result/identity' % c, case, m, R)
            continue
        # weight_conversion (pure dispatch and store program); err holds the expectation E
        E = err
        tol = 0 if case['wcm'] == 'binarize' else F(1, 10 ** 12)
        if isinstance(E, tuple):
            want = 'raise' if E[1] is NotImplementedError else None
            if want is None:
                continue                                   # n = 0 normalize: ValueError of np.max, not a model matter
            if m != 'raise':
                ctx.mismatch('weight_conversion:unknown', 'model accepts the command %r' % case['wcm'], case, m, None)
            continue
        if m == 'raise':
            ctx.mismatch('weight_conversion:dispatch', 'model rejects the command %r' % case['wcm'], case, m, None); continue
        if kind == 'st_wc':
            c, A0, wname, flt = extra
            must_refuse = (not flt) and (not c) and wname != 'binarize'
            if must_refuse or m == 'param':
                # copy=False on a non-float array: model says BCTParamError (the implementation side is the direct key <fn>:inplace)
                if not (must_refuse and m == 'param'):
                    ctx.mismatch('weight_conversion:store', 'store model (%s, flt=%d, copy=%d): refusal expected %s, model says %s' % (wname, flt, c, must_refuse, m), case, m, None)
                continue
        if E == 'nan' or m == 'nan':
            if not (E == 'nan' and m == 'nan'):
                ctx.mismatch('normalize:allzero', 'model and oracle disagree on max|W| = 0', case, m, None)
            continue
        if R is None:
            continue
        if kind == 'wc_str':
            if not same_vals(dec_m(m), R, tol):
                ctx.mismatch('weight_conversion:' + case['wcm'], 'model and implementation differ', case, m, R)
            continue
        arg_after, ret, same = dec_m(m[0]), dec_m(m[1]), m[2]
        # a non-float argument is promoted: the model returns a fresh object even ... only copy=True reaches here for it
        okk = (same == (not c)) and same_vals(ret, R, tol) and (arg_after == frmat(A0) if c else arg_after == ret)
        if not okk:
            ctx.mismatch('weight_conversion:store', 'store model (%s, copy=%d) disagrees with the observed argument/result/identity' % (wname, c), case, m, R)
