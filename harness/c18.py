"""C18 — random-walk and spectral measures satisfy their defining equations."""
import itertools
from fractions import Fraction as F
import numpy as np
from common import *

ID = 'C18'
COQ_FILES = ['Base/Mat.v', 'Base/SumQ.v', 'Base/ListX.v', 'Model/Walks.v', 'Model/Linear.v', 'Proofs/Walks.v', 'Proofs/WalksBound.v',
             'Proofs/Linear.v', 'Proofs/LinearSpectral.v', 'Proofs/LinearFull.v', 'Proofs/LinearMarkov.v', 'Proofs/LinearDim.v',
             'Proofs/LinearExist.v', 'Proofs/LinearSelect.v', 'Proofs/LinearRun.v', 'Proofs/LinearReal.v',
             'Proofs/LinearSpectralFull.v', 'Proofs/LinearSpectralReal.v', 'Properties/C18.v']
THEOREMS = ['C18_findwalks_power', 'C18_walks_enumeration', 'C18_findwalks_rejects', 'C18_findwalks_exact_range',
            'C18_transP_stochastic', 'C18_mfpt_equation', 'C18_stationary_positive_unique', 'C18_mfpt_connected',
            'C18_mfpt_select_spec', 'C18_diffusion_eff_def', 'C18_pagerank_equation', 'C18_pagerank_positive',
            'C18_uniform_prior', 'C18_pagerank_exists_unique', 'C18_pagerank_any', 'C18_prior_normalised',
            'C18_run_pagerank_sound', 'C18_run_mfpt_sound',
            'C18_subgraph_poly', 'C18_subgraph_from_decomposition',
            'C18_subgraph_truncated_exp', 'C18_subgraph_expm', 'C18_expm_defined', 'C18_subgraph_expm_rational',
            'C18_eigvec_abs_ok', 'C18_eigvec_old_statement_refuted', 'C18_eigvec_abs_ok_real']
RULE = ('families: cycles C3..C9, paths, stars, complete graphs, complete bipartite K_{a,b}, circulant / cube / Petersen regular '
        'graphs, disjoint copies of those (repeated eigenvalues; spectral measures and findwalks only), random connected '
        'undirected graphs with integer weights 1..4, random strongly connected digraphs (directed cycle + chords, weights '
        '1..3) for the random-walk measures; damping d in {.1,.5,.85,.99} and random in (0,1); random positive priors. '
        'findwalks additionally: LARGE graphs n = 11..20 (K_12..K_18, K_{8,8}, circulant, dense/sparse random) compared with '
        'Python-int matrix powers - exact below 2^53, rounded beyond (known finding findwalks:exact53) - and bool / int8 / '
        'uint8 / int32 / int64 input arrays (ordinary clause findwalks:power since the repair f1bac33), and SIGNED / FRACTIONAL weight '
        'matrices (an edge is an entry != 0; oracle = integer powers of the support). mean_first_passage_time / diffusion_efficiency '
        'additionally on networks with SELF-CONNECTIONS (random positive diagonal entries, lazy walks): hitting-time oracle and '
        'ediff = 1/mfpt for the same matrix. pagerank additionally: random digraphs with '
        'EMPTY COLUMNS (dangling nodes; oracle = the dangling-redistribution equation), priors with zero entries, integer '
        'input arrays, d = 0, and priors that ALIAS the network (falff = A[k] / A[:, k], views of the float64 matrix argument, and independent '
        'float64 vectors): the equation is judged against PRISTINE COPIES of both arguments taken before the call, and both arguments must '
        'come back unchanged (pagerank_centrality:arguments-unchanged). Spectral measures additionally: graphs that are NOT connected but '
        'have a simple largest eigenvalue with node 0 OUTSIDE the dominant component (isolated node / smaller components first, several '
        'numberings of each, binary and weighted) for the eigenvector clauses, and for subgraph_centrality DENSE MODULES WITH A PERIPHERY - '
        'lambda_max in (37, 46.5): K_39..K_46 or G(n, p) with mean degree 39..45, next to isolated nodes, small components (C3, C4, C5, K2, P3, '
        'K_{1,3}) or a path tail of 2..12 nodes - judged PER NODE relative to the node\'s own value expm(A)[i,i] >= 1 (1e-8; 1e-4 for the '
        'connected tails, where the eigen-sum itself is only accurate to ~5e-7 relative; lambda_max is kept below 46.5 because beyond ~60 the '
        'unchanged routine loses the small entries to rounding, see ASSUMES); three such graphs in the quick tier, ~33 in thorough. '
        'mean_first_passage_time additionally: the eigenpair-selection branch (ok / ambiguous truth '
        'value / tolerance) predicted by the extracted model from aux = |eig - 1| on connected AND on disconnected / '
        'reducible inputs. Every defining equation is evaluated on the implementation output in binary64 with relative '
        'tolerance 1e-8; findwalks is compared EXACTLY with numpy.linalg.matrix_power / Python-int powers and with the '
        'extracted model. The extracted model COMPUTES mfpt / ediff / gediff and pagerank from the input alone (Gauss-Jordan '
        'over Q in Gallina, result re-checked against the defining equations inside the run) and is compared with the '
        'implementation (1e-8) and, for pagerank, exactly with an independent Fraction elimination; rational orthogonal V '
        'by the Cayley transform for the spectral identity. non-trivial = at least one edge; distinct by hash of '
        '(function, matrix, parameter)')
ASSUMES = ['LAPACK results (eig, inv, solve, eigh) enter the theorems only through their defining equations; whether LAPACK meets '
           'them is checked numerically (residuals, tolerance 1e-8 relative), not proved. For pagerank and mean_first_passage_time '
           'the solutions of those equations are PROVED to exist and to be unique (C18_pagerank_exists_unique, C18_mfpt_connected), '
           'so the assumption is only "the routine returns a solution of the system it is given, up to rounding"',
           'findwalks: the model counts in Z, the code in a float64 array; they coincide while twalk < 2^53 '
           '(C18_findwalks_exact_range gives the sufficient condition n^2 (1 + D + .. + D^(n-1)) < 2^53, D = largest in-degree); '
           'beyond that the code returns rounded counts (known finding findwalks:exact53, K_15 / K_16 are the first complete graphs)',
           'C18_eigvec_abs_ok / C18_eigvec_abs_ok_real assume of LAPACK\'s output (lam, u) exactly the specification of the call: A u = lam u and '
           'lam = the top of the Rayleigh quotient of the symmetric matrix (forall x, x^T A x <= lam x^T x: what "largest eigenvalue" / argmax(vals) '
           'means); that only eigenvectors attain the bound is now PROVED; the earlier Definition C18_eigvec_full_statement (largest among the '
           'eigenvalues with rational eigenvectors) is refuted over Q (C18_eigvec_old_statement_refuted); subgraph centrality is FULL: C18_subgraph_expm '
           '(the diagonal of the matrix exponential, defined as the entrywise sum of the series, equals sum_k V_ik^2 exp(lam_k) for all real '
           'A, V, lam meeting eigh\'s equations) - eigh, np.exp and binary64 remain outside the model',
           'C18_diffusion_eff_def is a definitional unfolding of the two lines of the code (no assurance beyond the correspondence run)',
           'the executable model of mfpt / pagerank is a SECOND ORACLE computed from the input alone by exact elimination, not a '
           'step-by-step model of LAPACK; only findwalks, the pagerank set-up (deg, deg==0, D^-1, B, b, prior, normalisation) and the '
           'mfpt selection / final formula are modelled statement by statement',
           'mean_first_passage_time on a disconnected / reducible input is outside the property; observed there: ValueError '
           '"truth value of an array ... is ambiguous" (two bit-equal eigenvalues 1) instead of the intended message, or inf/nan output; '
           'recorded as a robustness note, only the selection branch is compared with the model',
           'subgraph_centrality is judged per node (relative to expm(A)[i,i]) only for lambda_max < 46.5: the routine sums v_ik^2 exp(lambda_k) in '
           'binary64, so a rounding residue ~1e-16 in the leading eigenvector\'s entry at a node it does not reach is multiplied by exp(lambda_max); '
           'observed on the unchanged tree: G(87, 0.9) + one isolated node (lambda_max = 78) gives 140 for the isolated node instead of 1, G(83, 0.93) + 8-node '
           'sparse part 59 % off; relative to max_i expm(A)[i,i] (the tolerance of the general clause) these are < 1e-30. Recorded as a robustness note '
           '(binary64 limit of the eigen-sum, like findwalks:exact53), not counted as a violation',
           'findwalks on a 1-node graph raises IndexError (Wq has no slice for length 1); the model returns None there; not counted as a violation']
TRUSTED = ['floating-point residual checks with tolerance 1e-8 * scale on the implementation output (numerical evidence, not proof)',
           'scipy.linalg.expm and numpy.linalg.matrix_power / solve / eig (re-run by the harness to obtain aux) as independent numerical oracles',
           'C18_subgraph_expm, C18_expm_defined, C18_subgraph_expm_rational and the second conjunct of C18_subgraph_truncated_exp are statements over '
           'Coq\'s real numbers (Proofs/LinearReal.v, standard library Reals only) and depend on its axioms '
           'ClassicalDedekindReals.sig_forall_dec, ClassicalDedekindReals.sig_not_dec, '
           'FunctionalExtensionality.functional_extensionality_dep; so does C18_eigvec_abs_ok_real (Proofs/LinearSpectralReal.v; sig_forall_dec and '
           'functional_extensionality_dep only); every other C18 theorem is closed under the global context']
TOL = 1e-8


# ---------------------------------------------------------------- exact linear algebra over Fractions
def fsolve(A, B):
    """solve A X = B (A n x n, B n x m) exactly; returns None if singular"""
    n = len(A); m = len(B[0])
    M = [list(map(F, A[i])) + list(map(F, B[i])) for i in range(n)]
    for c in range(n):
        p = next((r for r in range(c, n) if M[r][c] != 0), None)
        if p is None:
            return None
        M[c], M[p] = M[p], M[c]
        piv = M[c][c]
        M[c] = [x / piv for x in M[c]]
        for r in range(n):
            if r != c and M[r][c] != 0:
                f = M[r][c]
                M[r] = [x - f * y for x, y in zip(M[r], M[c])]
    return [row[n:] for row in M]


def fmat_mul(A, B):
    return [[sum(A[i][k] * B[k][j] for k in range(len(B))) for j in range(len(B[0]))] for i in range(len(A))]


def feye(n):
    return [[F(int(i == j)) for j in range(n)] for i in range(n)]


# ---------------------------------------------------------------- graph families (edge lists -> integer matrices)
def und(n, E, w=None):
    A = np.zeros((n, n), dtype=int)
    for t, (i, j) in enumerate(E):
        A[i, j] = A[j, i] = 1 if w is None else w[t]
    return A


def cycle(n): return und(n, [(i, (i + 1) % n) for i in range(n)])
def path(n): return und(n, [(i, i + 1) for i in range(n - 1)])
def star(n): return und(n, [(0, i) for i in range(1, n)])
def complete(n): return und(n, [(i, j) for i in range(n) for j in range(i + 1, n)])
def kab(a, b): return und(a + b, [(i, a + j) for i in range(a) for j in range(b)])
def circulant(n, S): return und(n, [(i, (i + s) % n) for i in range(n) for s in S])
def cube(): return und(8, [(i, i ^ (1 << b)) for i in range(8) for b in range(3) if i < i ^ (1 << b)])
def petersen(): return und(10, [(i, (i + 1) % 5) for i in range(5)] + [(5 + i, 5 + (i + 2) % 5) for i in range(5)] + [(i, i + 5) for i in range(5)])


def disjoint(A, B):
    n, m = len(A), len(B)
    C = np.zeros((n + m, n + m), dtype=int); C[:n, :n] = A; C[n:, n:] = B
    return C


def rand_conn_und(r, n, wmax):
    order = list(r.permutation(n)); E = {}
    for k in range(1, n):
        a, b = order[k], order[int(r.randint(0, k))]
        E[(min(a, b), max(a, b))] = int(r.randint(1, wmax + 1))
    p = r.choice([0.1, 0.3, 0.6])
    for i in range(n):
        for j in range(i + 1, n):
            if r.rand() < p:
                E[(i, j)] = int(r.randint(1, wmax + 1))
    return und(n, list(E.keys()), list(E.values()))


def rand_strong_dir(r, n, wmax):
    order = list(r.permutation(n)); A = np.zeros((n, n), dtype=int)
    for k in range(n):
        A[order[k], order[(k + 1) % n]] = int(r.randint(1, wmax + 1))
    p = r.choice([0.0, 0.15, 0.4])
    for i in range(n):
        for j in range(n):
            if i != j and r.rand() < p:
                A[i, j] = int(r.randint(1, wmax + 1))
    return A


def connected(A):
    n = len(A); B = ((A + A.T) != 0); seen = {0}; q = [0]
    while q:
        u = q.pop()
        for v in range(n):
            if B[u, v] and v not in seen:
                seen.add(v); q.append(v)
    return len(seen) == n


def structured():
    out = []
    for n in range(3, 10):
        out.append(('cycle', cycle(n)))
    for n in range(2, 7):
        out.append(('path', path(n)))
    for n in range(3, 8):
        out.append(('star', star(n)))
    for n in range(2, 8):
        out.append(('complete', complete(n)))
    for a, b in ((1, 1), (1, 3), (2, 2), (2, 3), (3, 3), (2, 5), (4, 4)):
        out.append(('bipartite', kab(a, b)))
    out += [('regular', circulant(7, (1, 2))), ('regular', circulant(8, (1, 3))), ('regular', circulant(9, (1, 2, 4))),
            ('regular', cube()), ('regular', petersen())]
    return out


def copies():
    return [('copies', disjoint(cycle(3), cycle(3))), ('copies', disjoint(cycle(4), cycle(4))), ('copies', disjoint(kab(2, 2), kab(2, 2))),
            ('copies', disjoint(complete(3), disjoint(complete(3), complete(3)))), ('copies', disjoint(cycle(5), path(3))),
            ('copies', disjoint(kab(1, 3), kab(1, 3))), ('copies', disjoint(petersen(), complete(2)))]


def renumbered(r, blocks, first):
    """disjoint union of the blocks, nodes renumbered at random with node 0 taken from block number `first`"""
    A = blocks[0]
    for B in blocks[1:]:
        A = disjoint(A, B)
    n = len(A); off = sum(len(B) for B in blocks[:first])
    z = off + int(r.randint(0, len(blocks[first])))
    rest = [i for i in r.permutation(n) if i != z]
    p = np.array([z] + rest)
    return A[np.ix_(p, p)]


def dominant_not_first(r, thorough):
    """undirected graphs that are NOT connected but have a simple largest eigenvalue (one dominant component + isolated nodes / smaller
    components), numbered so that node 0 lies OUTSIDE the dominant component; several numberings of each"""
    iso = np.zeros((1, 1), dtype=int)
    base = [[iso, complete(3)], [iso, kab(1, 3)], [complete(2), complete(4)], [path(3), cycle(5)], [complete(2), petersen()], [iso, iso, star(5)],
            [cycle(3), complete(5)], [iso, cycle(4), kab(2, 3)], [path(2), path(5)], [iso, cube()]]
    out = [('dominant_not_first', disjoint(iso, complete(3))), ('dominant_not_first', disjoint(complete(2), disjoint(iso, complete(4))))]
    for bl in base:
        for _ in range(3 if thorough else 2):
            out.append(('dominant_not_first', renumbered(r, bl, int(r.randint(0, len(bl) - 1)))))
    for t in range(30 if thorough else 6):
        big = rand_conn_und(r, int(r.randint(4, 8)), 1)
        small = [iso] * int(r.randint(0, 3)) + [rand_conn_und(r, int(r.randint(2, 4)), 1) for _ in range(int(r.randint(0, 2)))] or [iso]
        lam = [float(np.linalg.eigvalsh(B.astype(float)).max()) for B in small]
        if float(np.linalg.eigvalsh(big.astype(float)).max()) < max(lam) + 0.2:
            continue
        out.append(('dominant_not_first', renumbered(r, small + [big], int(r.randint(0, len(small))))))
    return out


def dense_with_periphery(r, quick_slice):
    """lambda_max between 37 and 46 (a dense module of >= 38 nodes) next to nodes the leading eigenvector does not reach: isolated nodes,
    small further components, a sparse tail hanging off the module.  -> (family, A, relative tolerance per node)"""
    iso = np.zeros((1, 1), dtype=int)

    def tail(k, t):
        A = disjoint(complete(k), np.zeros((t, t), dtype=int))
        for i in range(t):
            A[k - 1 + i, k + i] = A[k + i, k - 1 + i] = 1
        return A

    def dense(n, lam):
        p = min(1.0, lam / (n - 1))
        return (lambda X: X + X.T)(np.triu((r.rand(n, n) < p).astype(int), 1))
    out = [('dense+isolated', renumbered(r, [iso, iso, complete(40)], 0), 1e-8)]
    if quick_slice:
        out += [('dense+components', renumbered(r, [cycle(3), complete(2), iso, complete(42)], int(r.randint(0, 3))), 1e-8),
                ('dense+tail', tail(41, 6), 1e-4)]
        return out
    for t in range(24):
        small = [iso] * int(r.randint(0, 4)) + [[cycle(3), cycle(4), complete(2), path(3), kab(1, 3), cycle(5)][int(r.randint(0, 6))] for _ in range(int(r.randint(0, 4)))] or [iso]
        big = complete(int(r.randint(39, 47))) if t % 3 == 0 else dense(int(r.randint(44, 64)), float(r.uniform(39.0, 45.0)))
        A = renumbered(r, small + [big], int(r.randint(0, len(small) + 1)))
        if 37.0 < float(np.linalg.eigvalsh(A.astype(float)).max()) < 46.5:
            out.append(('dense+components', A, 1e-8))
    for t in range(8):
        A = tail(int(r.randint(38, 44)), int(r.randint(2, 13)))
        p = r.permutation(len(A))
        out.append(('dense+tail', A[np.ix_(p, p)], 1e-4))
    return out


def hitting_oracle(P):
    """M[i,j] for i != j from the linear system (I - P_{-j}) h = 1, independent of the fundamental-matrix formula"""
    n = len(P); M = np.zeros((n, n))
    for j in range(n):
        idx = [k for k in range(n) if k != j]
        Q = P[np.ix_(idx, idx)]
        h = np.linalg.solve(np.eye(n - 1) - Q, np.ones(n - 1))
        for t, i in enumerate(idx):
            M[i, j] = h[t]
    return M


def fq_mat(A):
    return [[F(float(x)) for x in row] for row in A]


def enc_qb(x):
    f = F(x)
    return '%s/%s' % (bin(f.numerator) if f.numerator else '0', bin(f.denominator))


def int_powers(B, qmax):
    """[None, B, B^2, ..] with Python-int entries (object arrays): no overflow, no rounding"""
    Bo = np.array(np.asarray(B).astype(int).tolist(), dtype=object); P = Bo.copy(); out = [None, Bo]
    for _ in range(2, qmax + 1):
        P = P.dot(Bo); out.append(P)
    return out


def to_int_obj(X):
    return np.array([[int(x) for x in row] for row in np.asarray(X)], dtype=object)


def large_graphs(r, thorough):
    out = [('K12', complete(12)), ('K14', complete(14)), ('K15', complete(15)), ('K16', complete(16)), ('K18', complete(18)),
           ('K8,8', kab(8, 8)), ('circulant20', circulant(20, (1, 2)))]
    for n, p in ((11, 0.8), (13, 0.8), (16, 0.85), (20, 0.12)) + (((12, 0.5), (17, 0.9), (19, 0.3)) if thorough else ()):
        out.append(('random%d' % n, (r.rand(n, n) < p).astype(int)))
    return out


def rand_dangling(r, n):
    """digraph with integer weights and at least one EMPTY COLUMN (a node nothing points to never matters here: deg = column sum)"""
    A = (r.rand(n, n) < r.choice([0.3, 0.6])) * r.randint(1, 4, (n, n))
    for j in r.choice(n, size=int(r.randint(1, max(2, n // 2))), replace=False):
        A[:, j] = 0
    if not A.any():
        A[0, (int(np.flatnonzero(A.sum(axis=0) == 0)[0]) + 1) % n] = 1
    return A.astype(int)


def rand_signed(r, n, frac):
    """arbitrary digraph (loops allowed) with SIGNED weights, fractional ones (multiples of 1/8) when frac: findwalks discards the
    weights, an entry is an edge iff it is != 0 (binarize), whatever its sign or size"""
    vals = [-2.0, -1.0, 1.0, 3.0] + ([-0.5, 0.25, 1.5, -0.125] if frac else [])
    A = np.zeros((n, n))
    mask = r.rand(n, n) < r.choice([0.3, 0.6])
    A[mask] = r.choice(vals, size=int(mask.sum()))
    return A


def with_loops(r, A, lazy=False):
    """the same network with self-connections: holding probabilities P[i,i] > 0 (lazy walk when every node gets one)"""
    A = np.array(A, dtype=float); n = len(A)
    if lazy:
        return A + np.diag(A.sum(axis=1))
    k = int(r.randint(1, n + 1))
    for i in r.choice(n, size=k, replace=False):
        A[i, i] = float(r.randint(1, 5))
    return A


def mfpt_outcome(bct, Af):
    import warnings
    with warnings.catch_warnings():
        warnings.simplefilter('ignore')
        try:
            return 'ok', call(bct.mean_first_passage_time, Af.copy())
        except np.linalg.LinAlgError:
            return 'ok', None          # the selection lines were passed; inv() found I - P + W singular afterwards
        except ValueError as e:
            return ('ambiguous' if 'ambiguous' in str(e) else 'tolerance' if 'Cannot find eigenvalue' in str(e) else 'ValueError: ' + str(e)[:80]), None
        except Exception as e:
            return type(e).__name__ + ': ' + str(e)[:80], None


def selection_aux(Af):
    """aux exactly as the routine forms it (same LAPACK calls on the same bits)"""
    import warnings
    with warnings.catch_warnings():
        warnings.simplefilter('ignore')
        P = np.linalg.solve(np.diag(np.sum(Af, axis=1)), Af)
        D, V = np.linalg.eig(P.T)
        return np.abs(D - 1)


def run(ctx):
    import bct
    import scipy.linalg
    r = ctx.nprng
    lines, pend = [], []

    # input-representation layer (harness/common.py, design_notes/variants.md): the model comparisons are batched and judged later,
    # so the variants the layer applied to the implementation calls of a case are attached to the case when it is queued
    def reg(case, **k):
        if hasattr(ctx, 'take_variants'):
            ctx.take_variants()            # forget what belonged to the previous case
        return ctx.case(case, **k)

    def tagged(case):
        return ctx.tag_case(case) if hasattr(ctx, 'tag_case') else case
    S = structured(); Cp = copies()
    nrand = ctx.scale(40, 400)

    # ------------------------------------------------------------ findwalks (exact)
    fw_graphs = [(f, A) for f, A in S if len(A) <= 8] + [(f, A) for f, A in Cp if len(A) <= 8]
    for t in range(nrand):
        n = int(r.randint(2, 8))
        if t % 3 == 0:
            A = rand_strong_dir(r, n, 3)
        elif t % 3 == 1:
            A = rand_conn_und(r, n, 4)
        else:
            A = (r.rand(n, n) < r.choice([0.2, 0.5])).astype(int)        # arbitrary digraph, self-loops allowed
        fw_graphs.append(('random', A))
    # signed and fractional weights: an edge is an entry != 0 (the model binarises by `!= 0` as binarize does)
    sgn = [('signed', -complete(4)), ('signed', cycle(5) * np.array([1, -1, 1, -1, 1])[:, None]), ('signed', np.array([[0, -1, 0], [0, 0, -2], [3, 0, 0]])),
           ('fractional', complete(3) / 8.0), ('fractional', np.array([[0, -0.5, 0.25], [0.125, 0, 0], [-1.5, 0, 0.5]]))]
    for t in range(ctx.scale(16, 120)):
        sgn.append(('signed', rand_signed(r, int(r.randint(2, 8)), False)) if t % 2 == 0 else ('fractional', rand_signed(r, int(r.randint(2, 8)), True)))
    fw_graphs += sgn
    fw_graphs.append(('single', np.zeros((1, 1), dtype=int)))
    if ctx.thorough:        # every digraph on 3 nodes (loops included)
        for bits in itertools.product((0, 1), repeat=9):
            fw_graphs.append(('all3', np.array(bits).reshape(3, 3)))
    for fam, A in fw_graphs:
        n = len(A)
        A = np.asarray(A)
        # the model takes integers: fractional weights are multiples of 1/8 and are passed times 8 (same support, same signs)
        Am = A if np.issubdtype(A.dtype, np.integer) else np.rint(A * 8).astype(int)
        assert np.array_equal((Am != 0), (A != 0))
        case = {'fn': 'findwalks', 'family': fam, 'A': A.tolist()}
        reg(case, nontrivial=bool(np.any(A))); ctx.count('findwalks:' + fam)
        impl = None
        try:
            Wq, twalk, wlq = call(bct.findwalks, A.astype(float))
            impl = (Wq, twalk, wlq)
        except IndexError:
            if n >= 2:
                ctx.fail('findwalks:raises', 'IndexError on a graph with n >= 2', case)
        except Exception as e:
            ctx.fail('findwalks:raises', 'raised %r' % (e,), case)
        if impl is not None:
            B = (A != 0).astype(np.int64)
            ok = ctx.check(Wq.shape == (n, n, n), 'findwalks:shape', 'Wq is not n x n x n', case)
            if ok:
                ctx.check(not np.any(Wq[:, :, 0]), 'findwalks:power', 'Wq[:,:,0] is not zero (no walk of length 0 is reported)', case)
                for q in range(1, n):
                    want = np.linalg.matrix_power(B, q)
                    # independent walk count by brute force for small cases
                    if not ctx.check(np.array_equal(Wq[:, :, q], want), 'findwalks:power', 'Wq[:,:,%d] is not the number of walks of length %d (A^%d)' % (q, q, q), case):
                        break
                ctx.check(twalk == Wq.sum() and np.array_equal(wlq, Wq.sum(axis=(0, 1))), 'findwalks:totals', 'twalk / wlq are not the sums of Wq', case)
        lines.append('findwalks ' + enc_mat(Am)); pend.append(('findwalks', tagged(case), impl))
        if 2 <= n <= 5:
            q = int(r.randint(1, n))
            lines.append('walkcount %s %d' % (enc_mat(Am), q)); pend.append(('walkcount', case, (q, np.linalg.matrix_power((A != 0).astype(np.int64), q))))

    # findwalks on non-float64 input arrays (regression clause for f1bac33: before it np.dot ran in the dtype of the input -
    # bool: logical products, small ints: wrap-around); ordinary oracle clause + exact comparison with the model
    dt_graphs = [('complete3', complete(3)), ('complete4', complete(4)), ('complete8', complete(8)), ('cube', cube()), ('complete12', complete(12))]
    for t in range(ctx.scale(3, 12)):
        dt_graphs.append(('random', (r.rand(6, 6) < 0.6).astype(int)))
    for fam, A in dt_graphs:
        n = len(A); pw = int_powers(A != 0, n - 1)
        for dt in (bool, np.int8, np.uint8, np.int32, np.int64):
            case = {'fn': 'findwalks', 'family': 'dtype:' + fam, 'dtype': np.dtype(dt).name, 'A': A.tolist()}
            reg(case, nontrivial=True); ctx.count('findwalks:dtype:' + np.dtype(dt).name)
            impl = None
            try:
                Wq, twalk, wlq = call(bct.findwalks, A.astype(dt))
                impl = (Wq, twalk, wlq)
            except Exception as e:
                ctx.fail('findwalks:raises', 'raised %r on a %s array' % (e, np.dtype(dt).name), case)
            if impl is not None and ctx.check(Wq.shape == (n, n, n), 'findwalks:shape', 'Wq is not n x n x n', case):
                bad = next((q for q in range(1, n) if not (to_int_obj(Wq[:, :, q]) == pw[q]).all()), None)
                ctx.check(bad is None and not np.any(Wq[:, :, 0]), 'findwalks:power',
                          'Wq[:,:,%s] is not the number of walks of that length when the adjacency matrix is a %s array' % (bad, np.dtype(dt).name), case)
                ctx.check(twalk == Wq.sum() and np.array_equal(wlq, Wq.sum(axis=(0, 1))), 'findwalks:totals', 'twalk / wlq are not the sums of Wq', case)
            if dt in (bool, np.int8):
                lines.append('findwalks ' + enc_mat(A)); pend.append(('findwalks', tagged(case), impl))

    # findwalks on LARGE graphs against Python-int powers: exact below 2^53, correctly rounded beyond
    for fam, A in large_graphs(r, ctx.thorough):
        n = len(A); B = (A != 0).astype(int)
        case = {'fn': 'findwalks', 'family': 'large:' + fam, 'A': A.tolist()}
        reg(case, nontrivial=True); ctx.count('findwalks:large')
        pw = int_powers(B, n - 1)
        true_wlq = [0] + [int(pw[q].sum()) for q in range(1, n)]; true_tw = sum(true_wlq)
        exact_regime = true_tw < 2 ** 53
        impl = None
        try:
            Wq, twalk, wlq = call(bct.findwalks, A.astype(float), _t=30.0)
            impl = (Wq, twalk, wlq)
        except Exception as e:
            ctx.fail('findwalks:raises', 'raised %r' % (e,), case)
        if impl is not None and ctx.check(Wq.shape == (n, n, n) and Wq.dtype == np.float64, 'findwalks:shape', 'Wq is not a float64 n x n x n array', case):
            bad = next((q for q in range(1, n) if not (to_int_obj(Wq[:, :, q]) == pw[q]).all()), None)
            tot_ok = int(twalk) == true_tw and [int(x) for x in wlq] == true_wlq
            if exact_regime:
                ctx.check(bad is None and not np.any(Wq[:, :, 0]), 'findwalks:power', 'Wq[:,:,%s] is not the number of walks of that length (all counts are below 2^53 here)' % bad, case)
                ctx.check(tot_ok, 'findwalks:totals', 'twalk / wlq are not the sums of Wq (all below 2^53 here)', case)
            else:
                if bad is not None or not tot_ok:
                    ctx.fail('findwalks:exact53', 'counts beyond 2^53 are rounded: first inexact slice q=%s, twalk exact=%s' % (bad, int(twalk) == true_tw), case)
                rel = max([0.0] + [float(max(abs(F(int(Wq[i, j, q])) - pw[q][i, j]) / max(1, pw[q][i, j]) for i in range(n) for j in range(n))) for q in range(1, n)])
                relt = float(abs(F(int(twalk)) - true_tw) / true_tw)
                ctx.check(rel <= 1e-13 and relt <= 1e-13 and not np.any(Wq[:, :, 0]), 'findwalks:rounded', 'beyond 2^53 the counts are not even the rounded walk numbers: relative error %.3g / %.3g' % (rel, relt), case)
        lines.append('findwalksx ' + enc_mat(A)); pend.append(('findwalksx', tagged(case), (impl, pw, true_wlq, true_tw, exact_regime)))

    # ------------------------------------------------------------ mean first passage time / diffusion efficiency
    rw = [(f, A) for f, A in S]
    for t in range(nrand):
        n = int(r.randint(2, 9))
        rw.append(('random_und_w', rand_conn_und(r, n, 4)) if t % 2 == 0 else ('random_dir_strong', rand_strong_dir(r, n, 3)))
    # the measures are invariant under rescaling of the weights: fractional weights (node strengths below 1) and large ones
    rw += [(f + '/8', np.asarray(A, dtype=float) / 8.0) for f, A in rw[::3]] + [(f + '*64', np.asarray(A, dtype=float) * 64.0) for f, A in rw[1::5]]
    # self-connections (non-zero diagonal): the chain holds with probability P[i,i]; everything below is judged for THIS matrix
    # (the model takes the diagonal as given, transP divides by the full row sum)
    base = [(f, A) for f, A in rw if len(A) >= 2 and connected(A)]
    loops = [('lazy:' + f, with_loops(r, A, lazy=True)) for f, A in base[:len(S)][::4]]
    loops += [('loops:' + f, with_loops(r, A)) for f, A in base[1::3]]
    loops += [('loops', np.array([[1.0, 1.0], [1.0, 0.0]])), ('loops', np.array([[2.0, 1.0, 0.0], [0.0, 0.0, 1.0], [1.0, 0.0, 3.0]])), ('lazy', with_loops(r, cycle(9), lazy=True))]
    rw += loops
    for fam, A in rw:
        n = len(A)
        if n < 2 or not connected(A):
            continue
        case = {'fn': 'mean_first_passage_time', 'family': fam, 'A': A.tolist()}
        reg(case, nontrivial=True); ctx.count('mfpt:' + fam)
        Af = A.astype(float)
        try:
            M = np.real_if_close(call(bct.mean_first_passage_time, Af.copy()))
            ge, E = call(bct.diffusion_efficiency, Af.copy())
        except Exception as e:
            ctx.fail('mean_first_passage_time:raises', 'raised %r on a (strongly) connected network' % (e,), case); continue
        P = Af / Af.sum(axis=1, keepdims=True)
        scale = max(1.0, float(np.abs(M).max()))
        ok = ctx.check(M.shape == (n, n) and np.all(np.isfinite(M)) and not np.iscomplexobj(M), 'mean_first_passage_time:shape', 'not a finite real n x n array', case)
        if ok:
            Md = M.copy(); np.fill_diagonal(Md, 0)
            # residual of M[i,j] = 1 + sum_{k != j} P[i,k] M[k,j] for i != j  (column j of Md has the k = j term removed)
            R = 1 + P @ Md - M
            np.fill_diagonal(R, 0)
            ctx.check(np.abs(R).max() <= TOL * scale, 'mean_first_passage_time:equation', 'first-step equation residual %.3g' % np.abs(R).max(), case)
            ctx.check(np.abs(np.diag(M)).max() <= TOL * scale, 'mean_first_passage_time:diagonal', 'diagonal is not 0', case)
            H = hitting_oracle(P)
            ctx.check(np.abs(H - Md).max() <= 1e-7 * scale, 'mean_first_passage_time:hitting', 'differs from the hitting times of the chain by %.3g' % np.abs(H - Md).max(), case)
            # diffusion efficiency: elementwise inverse off the diagonal, 0 on it, and the mean
            off = ~np.eye(n, dtype=bool)
            ctx.check(E.shape == (n, n) and np.allclose(E[off] * H[off], 1, rtol=1e-7, atol=0) and not np.any(np.diag(E)),
                      'diffusion_efficiency:inverse', 'ediff is not 1/mfpt off the diagonal with a zero diagonal', case)
            ctx.check(E.shape == (n, n) and np.allclose(E[off] * Md[off], 1, rtol=1e-9, atol=0), 'diffusion_efficiency:inverse',
                      'ediff is not the elementwise inverse of mean_first_passage_time of the SAME matrix', case)
            ctx.check(abs(ge - E[off].sum() / (n * n - n)) <= 1e-12 * max(1, abs(ge)) and abs(ge - (1 / H[off]).sum() / (n * n - n)) <= 1e-7,
                      'diffusion_efficiency:mean', 'gediff is not the mean of the off-diagonal entries', case)
        # the extracted model computes w, Z, M, ediff, gediff from A alone (exact elimination over Q)
        if n <= 7:
            lines.append('mfptc %s' % enc_mat(fq_mat(A), enc_qb)); pend.append(('mfptc', tagged(case), (M, E, ge)))
        # the selection branch predicted by the model from aux = |eig(P^T) - 1|
        aux = selection_aux(Af)
        if np.all(np.isfinite(aux)):
            lines.append('mfptsel %s %s' % (enc_qb(F(10e-3)), enc_list([F(float(x)) for x in aux], enc_qb)))
            pend.append(('mfptsel', tagged(case), ('ok', [float(x) for x in aux])))

    # outside the property (robustness note): disconnected / reducible inputs - only the selection branch is compared
    rej = [('disconnected', disjoint(complete(2), complete(2))), ('disconnected', disjoint(cycle(3), cycle(3))),
           ('disconnected', disjoint(cycle(3), path(3))), ('disconnected', disjoint(kab(1, 3), complete(2))),
           ('reducible', np.array([[0, 1, 0], [0, 0, 1], [0, 1, 0]])), ('reducible', np.array([[0, 1, 1, 0], [1, 0, 0, 1], [0, 0, 0, 1], [0, 0, 1, 0]]))]
    for t in range(ctx.scale(6, 40)):
        a, b = int(r.randint(2, 5)), int(r.randint(2, 5))
        rej.append(('disconnected', disjoint(rand_conn_und(r, a, 3), rand_conn_und(r, b, 3))))
    for fam, A in rej:
        Af = A.astype(float)
        case = {'fn': 'mean_first_passage_time:selection', 'family': fam, 'A': A.tolist()}
        reg(case, nontrivial=True); ctx.count('mfpt:reject:' + fam)
        out, _ = mfpt_outcome(bct, Af)
        ctx.count('mfpt:reject-outcome:' + out.split(':')[0])
        aux = selection_aux(Af)
        if np.all(np.isfinite(aux)):
            lines.append('mfptsel %s %s' % (enc_qb(F(10e-3)), enc_list([F(float(x)) for x in aux], enc_qb)))
            pend.append(('mfptsel', tagged(case), (out, [float(x) for x in aux])))

    # ------------------------------------------------------------ pagerank
    def pagerank_oracle(A, d, prior, pr, case):
        """clauses on the implementation output; with empty columns the equation is the dangling-redistribution one"""
        n = len(A); Af = np.asarray(A, dtype=float)
        f = np.ones(n) / n if prior is None else np.asarray(prior, dtype=float) / np.sum(prior)
        if not ctx.check(isinstance(pr, np.ndarray) and pr.shape == (n,) and np.all(np.isfinite(pr)), 'pagerank_centrality:shape', 'not a finite vector of length n', case):
            return
        deg = Af.sum(axis=0); empty = deg == 0
        Mx = Af / np.where(empty, 1.0, deg)
        if not empty.any():
            res = np.abs(pr - (d * Mx @ pr + (1 - d) * f)).max()
            ctx.check(res <= TOL, 'pagerank_centrality:equation', 'r = d A D^-1 r + (1-d) f residual %.3g' % res, case)
        else:
            res = np.abs(pr - (d * (Mx @ pr + pr[empty].sum() * f) + (1 - d) * f)).max()
            ctx.check(res <= TOL, 'pagerank_centrality:dangling', 'with empty columns r = d (A D^-1 r + r(empty) f) + (1-d) f residual %.3g' % res, case)
        ctx.check(abs(pr.sum() - 1) <= TOL, 'pagerank_centrality:sum', 'does not sum to one', case)
        ctx.check(np.all(pr[f > 0] > 0) and np.all(pr >= -TOL), 'pagerank_centrality:positive', 'not positive', case)

    def pr_call(A, d, prior):
        import warnings
        with warnings.catch_warnings():
            warnings.simplefilter('ignore')
            return call(bct.pagerank_centrality, A, d, falff=None if prior is None else np.array(prior, dtype=float))

    pr_graphs = [(f, A) for f, A in rw if len(A) >= 2 and connected(A) and not np.any(A.sum(axis=0) == 0)]
    for fam, A in pr_graphs:
        n = len(A)
        for d in ([0.1, 0.5, 0.85, 0.99] if fam != 'random_und_w' else [float(r.uniform(0.02, 0.98))]):
            use_prior = r.rand() < 0.3
            prior = r.randint(1, 6, n).astype(float) if use_prior else None
            case = {'fn': 'pagerank_centrality', 'family': fam, 'A': A.tolist(), 'd': d, 'falff': None if prior is None else prior.tolist()}
            reg(case, nontrivial=True); ctx.count('pagerank:' + fam)
            try:
                pr = pr_call(A.astype(float), d, prior)
            except Exception as e:
                ctx.fail('pagerank_centrality:raises', 'raised %r' % (e,), case); continue
            pagerank_oracle(A, d, prior, pr, case)
    # the prior is a VIEW OF THE NETWORK ITSELF (personalised PageRank restarting at the neighbours of node k: falff=A[k], A[:, k]) or an
    # independent float64 vector: the equation is judged for the matrix and prior that were handed in (PRISTINE COPIES taken before the
    # call), and both arguments must hold what they held (a routine that normalises the prior in place rescales row k of A before A D^-1
    # is formed).  Arguments exactly as passed: the representation layer would separate the two buffers
    al_graphs = [(f, A) for f, A in pr_graphs[::max(1, len(pr_graphs) // ctx.scale(14, 60))]]
    for t in range(ctx.scale(6, 40)):
        al_graphs.append(('dangling', rand_dangling(r, int(r.randint(3, 8)))))
    al_graphs += [('random_dir_strong*3/8', rand_strong_dir(r, 6, 3) * 0.375), ('cycle', cycle(5))]
    for fam, A in al_graphs:
        n = len(A); A0 = np.array(A, dtype=float)
        rows = [k for k in range(n) if A0[k].sum() > 0]; cols = [k for k in range(n) if A0[:, k].sum() > 0]
        modes = ([('row', int(r.choice(rows)))] if rows else []) + ([('column', int(r.choice(cols)))] if cols else []) + [('independent', int(r.randint(0, n)))]
        for how, k in modes:
            d = float(r.choice([0.3, 0.5, 0.85, 0.97]))
            Aarg = A0.copy()
            farg = Aarg[k] if how == 'row' else Aarg[:, k] if how == 'column' else r.randint(1, 6, n).astype(float)
            f0 = farg.copy()
            case = {'fn': 'pagerank_centrality', 'family': 'aliased-prior:' + fam, 'A': A0.tolist(), 'd': d, 'falff': f0.tolist(),
                    'falff_is': {'row': 'A[%d] (a view of the matrix argument)' % k, 'column': 'A[:, %d] (a view of the matrix argument)' % k,
                                 'independent': 'an independent float64 vector'}[how]}
            reg(case, nontrivial=bool(A0.any())); ctx.count('pagerank:aliased-prior:' + how)
            try:
                with no_variants():
                    import warnings
                    with warnings.catch_warnings():
                        warnings.simplefilter('ignore')
                        pr = call(bct.pagerank_centrality, Aarg, d, falff=farg)
            except Exception as e:
                ctx.fail('pagerank_centrality:raises', 'raised %r' % (e,), case); continue
            pagerank_oracle(A0, d, f0, pr, case)
            ctx.check(np.array_equal(Aarg, A0) and np.array_equal(farg, f0), 'pagerank_centrality:arguments-unchanged',
                      'the call changed its arguments (A changed: %s, falff changed: %s): the result belongs to another network / prior than the one passed'
                      % (not np.array_equal(Aarg, A0), not np.array_equal(farg, f0)), case)
    # exact instances: the extracted model computes everything from (A, d, falff); dangling nodes, priors with zeros, int arrays
    ex_graphs = [(f, A) for f, A in pr_graphs if len(A) <= 7]
    for t in range(ctx.scale(40, 300)):
        ex_graphs.append(('dangling', rand_dangling(r, int(r.randint(2, 8)))))
    ex_graphs += [('dangling', np.array([[0, 0, 1], [1, 0, 0], [1, 0, 0]])), ('dangling', np.array([[0, 1], [0, 0]])), ('dangling', np.array([[0, 0], [0, 0]]))]
    for fam, A in ex_graphs:
        n = len(A); Aq = fq_mat(A)
        dq = [F(1, 2), F(3, 4), F(1, 8), F(27, 32), F(127, 128), F(0)][int(r.randint(0, 6))]
        mode = int(r.randint(0, 4))        # 0,1: default prior; 2: positive integer prior; 3: prior with zero entries
        prior = None
        if mode == 2:
            prior = [int(x) for x in r.randint(1, 6, n)]
        elif mode == 3:
            prior = [int(x) for x in r.randint(0, 3, n)]
            if not any(prior):
                prior[int(r.randint(0, n))] = 2
        as_int = fam == 'dangling' and r.rand() < 0.3 and all(float(x).is_integer() for row in A for x in row)
        case = {'fn': 'pagerank_centrality', 'family': fam, 'A': np.asarray(A).tolist(), 'd': str(dq), 'falff': prior, 'exact': True, 'int_array': bool(as_int)}
        reg(case, nontrivial=bool(np.any(A))); ctx.count('pagerank:exact:' + fam); ctx.count('pagerank:prior-mode-%d' % mode)
        try:
            pr = pr_call(np.asarray(A).astype(int if as_int else float), float(dq), prior)
        except Exception as e:
            ctx.fail('pagerank_centrality:raises', 'raised %r' % (e,), case); continue
        pagerank_oracle(A, float(dq), prior, pr, case)
        # independent exact solution (Python elimination), for an exact comparison with the Gallina elimination
        deg = [sum(Aq[i][j] for i in range(n)) for j in range(n)]; deg = [x if x != 0 else F(1) for x in deg]
        fq = [F(1, n)] * n if prior is None else [F(x, sum(prior)) for x in prior]
        Bq = [[(1 if i == j else 0) - dq * Aq[i][j] / deg[j] for j in range(n)] for i in range(n)]
        rp = fsolve(Bq, [[(1 - dq) * fq[i]] for i in range(n)])
        rq = None if rp is None else [x[0] / sum(y[0] for y in rp) for x in rp]
        lines.append('pagerankc %s %s %s' % (enc_mat(Aq, enc_qb), enc_qb(dq), '0' if prior is None else '1 ' + enc_list([F(x) for x in prior], enc_qb)))
        pend.append(('pagerankc', tagged(case), (pr, rq)))

    # ------------------------------------------------------------ subgraph centrality / eigenvector centrality
    sp = S + Cp
    for t in range(nrand):
        n = int(r.randint(2, 10))
        B = rand_conn_und(r, n, 1) if t % 2 == 0 else ((lambda X: ((X + X.T) > 0).astype(int))(np.triu((r.rand(n, n) < 0.3).astype(int), 1)))
        sp.append(('random_und', B))
    # not connected, simple largest eigenvalue, node 0 OUTSIDE the dominant component (its entry of the leading eigenvector is 0: an
    # orientation rule that looks at one node decides nothing there), several numberings of each graph
    sp += dominant_not_first(r, ctx.thorough)
    # lambda_max > 36: exp(lambda_k) of the eigenpairs that carry a peripheral node's centrality is below eps * exp(lambda_max), yet they are
    # ALL of that node's centrality (isolated node: exp(0) = 1); judged per node, relative to the node's own value
    periph = dense_with_periphery(r, not ctx.thorough)
    rel_tol = {id(A): tol for _, A, tol in periph}
    sp += [(f, A) for f, A, _ in periph]
    for fam, A in sp:
        n = len(A); Af = (A != 0).astype(float)
        case = {'fn': 'subgraph_centrality', 'family': fam, 'A': A.tolist()}
        reg(case, nontrivial=bool(np.any(A))); ctx.count('spectral:' + fam)
        try:
            Cs = call(bct.subgraph_centrality, Af.copy())
            want = np.diag(scipy.linalg.expm(Af))
            ctx.check(Cs.shape == (n,) and np.abs(Cs - want).max() <= TOL * max(1.0, np.abs(want).max()), 'subgraph_centrality:expm',
                      'differs from diag(expm(A)) by %.3g' % (np.abs(Cs - want).max() if Cs.shape == (n,) else -1), case)
            if id(A) in rel_tol and Cs.shape == (n,):
                # expm of a disjoint union is the union of the expm's; every diagonal entry of expm(A) is >= 1 (closed walks of length 0)
                err = np.abs(Cs - want) / want; i = int(np.argmax(err))
                ctx.check(err[i] <= rel_tol[id(A)], 'subgraph_centrality:expm',
                          'node %d: %.6g returned, expm(A)[%d,%d] = %.6g (%d of %d nodes off by more than %g relative to their own value; lambda_max = %.2f)'
                          % (i, Cs[i], i, i, want[i], int((err > rel_tol[id(A)]).sum()), n, rel_tol[id(A)], float(np.linalg.eigvalsh(Af).max())), case)
        except Exception as e:
            ctx.fail('subgraph_centrality:raises', 'raised %r' % (e,), case)
        if id(A) in rel_tol:
            continue        # the eigenvector clauses below run LAPACK's non-symmetric solver: not on the 40..70-node dense graphs
        case = {'fn': 'eigenvector_centrality_und', 'family': fam, 'A': A.tolist()}
        reg(case, nontrivial=bool(np.any(A)))
        variants = [Af]
        if fam in ('random_und', 'dominant_not_first'):
            variants.append(Af * r.randint(1, 5, (n, n)))        # weighted; symmetrised from the upper triangle below
        for Aw in variants:
            Aw = np.triu(Aw, 1); Aw = Aw + Aw.T
            try:
                v = call(bct.eigenvector_centrality_und, Aw.copy())
            except Exception as e:
                ctx.fail('eigenvector_centrality_und:raises', 'raised %r' % (e,), case); continue
            lmax = float(np.linalg.eigvalsh(Aw).max())
            ok = ctx.check(v.shape == (n,) and np.all(np.isfinite(v)) and not np.iscomplexobj(v), 'eigenvector_centrality_und:shape', 'not a finite real vector', case)
            if ok:
                ctx.check(np.all(v >= 0), 'eigenvector_centrality_und:nonneg', 'negative entry', case)
                ctx.check(abs(np.linalg.norm(v) - 1) <= TOL, 'eigenvector_centrality_und:unit', 'norm %.12g is not 1' % np.linalg.norm(v), case)
                res = np.abs(Aw @ v - lmax * v).max()
                ctx.check(res <= TOL * max(1.0, abs(lmax)), 'eigenvector_centrality_und:eigen', 'A v = lambda_max v residual %.3g' % res, case)

    # exact instances for the spectral identity: A = V diag(lam) V^T with a rational orthogonal V (Cayley transform)
    H = [[F(x, 2) for x in row] for row in ((1, 1, 1, 1), (1, 1, -1, -1), (1, -1, -1, 1), (1, -1, 1, -1))]
    exact = [(H, [F(2), F(0), F(0), F(-2)]), (H, [F(3), F(-1), F(-1), F(-1)]), (H, [F(1), F(1), F(-1), F(-1)])]
    for t in range(ctx.scale(6, 40)):
        n = int(r.randint(2, 5))
        Sk = [[F(0)] * n for _ in range(n)]
        for i in range(n):
            for j in range(i + 1, n):
                x = F(int(r.randint(-2, 3)), int(r.choice([1, 2, 3])))
                Sk[i][j] = x; Sk[j][i] = -x
        IpS = [[(1 if i == j else 0) + Sk[i][j] for j in range(n)] for i in range(n)]
        ImS = [[(1 if i == j else 0) - Sk[i][j] for j in range(n)] for i in range(n)]
        inv = fsolve(IpS, feye(n))
        if inv is None:
            continue
        V = fmat_mul(ImS, inv)
        lam = [F(int(x)) for x in r.randint(-2, 3, n)]
        if t % 2 == 0:
            lam[1] = lam[0]        # a repeated eigenvalue
        exact.append((V, lam))
    for V, lam in exact:
        n = len(V)
        Aq = [[sum(V[i][k] * lam[k] * V[j][k] for k in range(n)) for j in range(n)] for i in range(n)]
        Af = np.array([[float(x) for x in row] for row in Aq])
        case = {'fn': 'subgraph_centrality', 'family': 'exact_decomposition', 'A': [[str(x) for x in row] for row in Aq], 'lam': [str(x) for x in lam]}
        reg(case, nontrivial=True); ctx.count('spectral:exact')
        Cs = call(bct.subgraph_centrality, Af.copy())
        lines.append('subgraph %s %s %s %d' % (enc_mat(Aq, enc_qb), enc_mat(V, enc_qb), enc_list(lam, enc_qb), 30))
        pend.append(('subgraph', tagged(case), Cs))

    # ------------------------------------------------------------ correspondence with the extracted Coq model
    res = run_model(ID, lines)
    ctx.model_cases = len(lines)
    for (kind, case, impl), m in zip(pend, res):
        if is_err(m):
            ctx.mismatch(kind + ':model-error', m['error'], case); continue
        if kind == 'findwalks':
            if m is None or impl is None:
                if not (m is None and impl is None):
                    ctx.mismatch('findwalks', 'model %s / implementation %s' % ('fails' if m is None else 'returns', 'fails' if impl is None else 'returns'), case)
                continue
            Wq, twalk, wlq = impl
            MW = np.array(dec_deep(m[0], dec_z), dtype=float)          # [q][i][j]
            if not (np.array_equal(np.transpose(MW, (1, 2, 0)), Wq) and dec_z(m[1]) == twalk and np.array_equal(np.array(dec_deep(m[2], dec_z), dtype=float), wlq)):
                ctx.mismatch('findwalks', 'model and implementation differ', case, MW.tolist(), np.transpose(Wq, (2, 0, 1)).tolist())
        elif kind == 'walkcount':
            q, want = impl
            if not np.array_equal(np.array(m), want):
                ctx.mismatch('walks', 'number of enumerated walks of length %d differs from A^%d' % (q, q), case, m, want)
        elif kind == 'findwalksx':
            impl_t, pw, true_wlq, true_tw, exact_regime = impl
            n = len(case['A'])
            if m is None:
                ctx.mismatch('findwalks', 'model fails on a graph with n >= 2', case); continue
            MW = dec_deep(m[0], dec_z); mt = dec_z(m[1]); ml = dec_deep(m[2], dec_z); ex, bd = m[3], m[4]
            # the model against the Python-int powers (two exact oracles) and its exactness flags
            if not (all((np.array(MW[q], dtype=object) == pw[q]).all() for q in range(1, n)) and mt == true_tw and ml == true_wlq
                    and ex == exact_regime and (not bd or ex)):
                ctx.mismatch('findwalks:model-vs-int-powers', 'extracted model differs from Python-int matrix powers / exactness flag wrong', case, [mt, ex, bd], [true_tw, exact_regime])
                continue
            if impl_t is None:
                continue
            Wq, twalk, wlq = impl_t
            if ex:      # everything is below 2^53: the float run must coincide with the model
                same = all((to_int_obj(Wq[:, :, q]) == np.array(MW[q], dtype=object)).all() for q in range(n)) and int(twalk) == mt and [int(x) for x in wlq] == ml
                if not same:
                    ctx.mismatch('findwalks', 'model and implementation differ although every count is below 2^53', case, mt, float(twalk))
            else:       # rounded regime: agreement to binary64 precision only
                if not (abs(F(int(twalk)) - mt) <= mt * F(1, 10 ** 13)):
                    ctx.mismatch('findwalks', 'model and implementation differ by more than rounding beyond 2^53', case, mt, float(twalk))
        elif kind in ('mfpt', 'mfptc'):
            M, E, ge = impl
            if m is None:
                ctx.mismatch('mean_first_passage_time:exact', 'the exact elimination found the chain singular on a connected network', case); continue
            hyp, eqn, MM, ME, mg = m
            if not (hyp and eqn):
                ctx.mismatch('mean_first_passage_time:exact', 'exact instance: hypotheses %s, equation %s' % (hyp, eqn), case); continue
            MM = np.array([[float(dec_q(x)) for x in row] for row in MM]); ME = np.array([[float(dec_q(x)) for x in row] for row in ME])
            sc = max(1.0, np.abs(MM).max())
            if not (np.abs(MM - M).max() <= 1e-9 * sc * 10 and np.abs(ME - E).max() <= 1e-9 * 10 and abs(float(dec_q(mg)) - ge) <= 1e-9 * 10):
                ctx.mismatch('mean_first_passage_time', 'exact rational M / ediff / gediff differ from the implementation beyond 1e-8', case, MM, M)
        elif kind == 'mfptsel':
            out, aux = impl
            want = {0: 'ok', 1: 'ambiguous', 2: 'tolerance'}.get(m[0], 'empty')
            if want != out:
                ctx.mismatch('mean_first_passage_time:selection', 'eigenpair selection: model predicts %s, implementation: %s' % (want, out), case, want, out)
        elif kind == 'pagerankc':
            pr, rq = impl
            if m is None or rq is None:
                ctx.mismatch('pagerank_centrality:exact', 'exact elimination reports a singular system (model %s, python %s)' % (m is None, rq is None), case); continue
            hyp, eqn, mr, ms, mdg = m
            mrq = [dec_q(x) for x in mr]
            if not (hyp and eqn):
                ctx.mismatch('pagerank_centrality:exact', 'exact instance: solver check %s, equation %s' % (hyp, eqn), case); continue
            if mrq != rq:
                ctx.mismatch('pagerank_centrality:exact', 'Gallina elimination and Python elimination differ', case, [str(x) for x in mrq], [str(x) for x in rq]); continue
            if not (isinstance(pr, np.ndarray) and pr.shape == (len(mrq),) and np.abs(np.array([float(x) for x in mrq]) - pr).max() <= 1e-9):
                ctx.mismatch('pagerank_centrality', 'exact rational solution differs from the implementation beyond 1e-9', case, [float(x) for x in mrq], pr)
        elif kind == 'subgraph':
            hyp, a, b = m
            if not hyp or a != b:
                ctx.mismatch('subgraph_centrality:exact', 'exact instance: hypotheses %s, p(A)_ii == spectral sum %s' % (hyp, a == b), case); continue
            a = np.array([float(dec_q(x)) for x in a])
            if not np.abs(a - impl).max() <= 1e-9 * max(1.0, np.abs(a).max()):
                ctx.mismatch('subgraph_centrality', 'truncated exact series (order 30) differs from the implementation beyond 1e-9', case, a, impl)
