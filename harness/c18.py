"""C18 — random-walk and spectral measures satisfy their defining equations."""
import itertools
from fractions import Fraction as F
import numpy as np
from common import *

ID = 'C18'
COQ_FILES = ['Base/Mat.v', 'Base/SumQ.v', 'Base/ListX.v', 'Model/Walks.v', 'Model/Linear.v', 'Proofs/Walks.v', 'Proofs/Linear.v',
             'Proofs/LinearSpectral.v', 'Properties/C18.v']
THEOREMS = ['C18_findwalks_power', 'C18_walks_enumeration', 'C18_findwalks_rejects', 'C18_transP_stochastic',
            'C18_mfpt_equation', 'C18_diffusion_eff_def', 'C18_pagerank_equation', 'C18_pagerank_positive',
            'C18_uniform_prior', 'C18_subgraph_poly', 'C18_subgraph_from_decomposition',
            'C18_subgraph_truncated_exp_partial', 'C18_eigvec_abs_ok_partial']
RULE = ('families: cycles C3..C9, paths, stars, complete graphs, complete bipartite K_{a,b}, circulant / cube / Petersen regular '
        'graphs, disjoint copies of those (repeated eigenvalues; spectral measures and findwalks only), random connected '
        'undirected graphs with integer weights 1..4, random strongly connected digraphs (directed cycle + chords, weights '
        '1..3) for the random-walk measures; damping d in {.1,.5,.85,.99} and random in (0,1); random positive priors. '
        'Every defining equation is evaluated on the implementation output in binary64 with relative tolerance 1e-8; '
        'findwalks is compared EXACTLY with numpy.linalg.matrix_power and with the extracted model. Exact instances for the '
        'extracted model: P, w, Z / r\' computed with fractions.Fraction by Gaussian elimination, rational orthogonal V by the '
        'Cayley transform. non-trivial = at least one edge; distinct by hash of (function, matrix, parameter)')
ASSUMES = ['LAPACK results (eig, inv, solve, eigh) enter the theorems only through their defining equations; whether LAPACK meets '
           'them is checked numerically (residuals, tolerance 1e-8 relative), not proved',
           'C18_eigvec_abs_ok_partial assumes the variational (Rayleigh) characterisation of the largest eigenvalue; '
           'C18_subgraph_*: the limit of the truncated exponential series is not proved (full statements are Definitions in Properties/C18.v)',
           'pagerank: graphs with an empty column (dangling node) are outside the stated equation (D^-1 undefined) and are not generated',
           'findwalks on a 1-node graph raises IndexError (Wq has no slice for length 1); the model returns None there; not counted as a violation']
TRUSTED = ['floating-point residual checks with tolerance 1e-8 * scale on the implementation output (numerical evidence, not proof)',
           'scipy.linalg.expm and numpy.linalg.matrix_power / solve as independent numerical oracles']
TOL = 1e-8


# ---------------------------------------------------------------- exact linear algebra over Fractions
def fsolve(A, B):
    """solve A X = B (A n x n, B n x m) exactly; returns None if singular"""
    n = len(A); m = len(B[0])
    M = [list(map(F, A[i])) + list(map(F, B[i])) for i in range(n)]
    for c in range(n):
        p = next((r for r in range(c, n) if M[r][c] != 0), None)
        if p is None:
            return None
        M[c], M[p] = M[p], M[c]
        piv = M[c][c]
        M[c] = [x / piv for x in M[c]]
        for r in range(n):
            if r != c and M[r][c] != 0:
                f = M[r][c]
                M[r] = [x - f * y for x, y in zip(M[r], M[c])]
    return [row[n:] for row in M]


def fmat_mul(A, B):
    return [[sum(A[i][k] * B[k][j] for k in range(len(B))) for j in range(len(B[0]))] for i in range(len(A))]


def feye(n):
    return [[F(int(i == j)) for j in range(n)] for i in range(n)]


# ---------------------------------------------------------------- graph families (edge lists -> integer matrices)
def und(n, E, w=None):
    A = np.zeros((n, n), dtype=int)
    for t, (i, j) in enumerate(E):
        A[i, j] = A[j, i] = 1 if w is None else w[t]
    return A


def cycle(n): return und(n, [(i, (i + 1) % n) for i in range(n)])
def path(n): return und(n, [(i, i + 1) for i in range(n - 1)])
def star(n): return und(n, [(0, i) for i in range(1, n)])
def complete(n): return und(n, [(i, j) for i in range(n) for j in range(i + 1, n)])
def kab(a, b): return und(a + b, [(i, a + j) for i in range(a) for j in range(b)])
def circulant(n, S): return und(n, [(i, (i + s) % n) for i in range(n) for s in S])
def cube(): return und(8, [(i, i ^ (1 << b)) for i in range(8) for b in range(3) if i < i ^ (1 << b)])
def petersen(): return und(10, [(i, (i + 1) % 5) for i in range(5)] + [(5 + i, 5 + (i + 2) % 5) for i in range(5)] + [(i, i + 5) for i in range(5)])


def disjoint(A, B):
    n, m = len(A), len(B)
    C = np.zeros((n + m, n + m), dtype=int); C[:n, :n] = A; C[n:, n:] = B
    return C


def rand_conn_und(r, n, wmax):
    order = list(r.permutation(n)); E = {}
    for k in range(1, n):
        a, b = order[k], order[int(r.randint(0, k))]
        E[(min(a, b), max(a, b))] = int(r.randint(1, wmax + 1))
    p = r.choice([0.1, 0.3, 0.6])
    for i in range(n):
        for j in range(i + 1, n):
            if r.rand() < p:
                E[(i, j)] = int(r.randint(1, wmax + 1))
    return und(n, list(E.keys()), list(E.values()))


def rand_strong_dir(r, n, wmax):
    order = list(r.permutation(n)); A = np.zeros((n, n), dtype=int)
    for k in range(n):
        A[order[k], order[(k + 1) % n]] = int(r.randint(1, wmax + 1))
    p = r.choice([0.0, 0.15, 0.4])
    for i in range(n):
        for j in range(n):
            if i != j and r.rand() < p:
                A[i, j] = int(r.randint(1, wmax + 1))
    return A


def connected(A):
    n = len(A); B = ((A + A.T) != 0); seen = {0}; q = [0]
    while q:
        u = q.pop()
        for v in range(n):
            if B[u, v] and v not in seen:
                seen.add(v); q.append(v)
    return len(seen) == n


def structured():
    out = []
    for n in range(3, 10):
        out.append(('cycle', cycle(n)))
    for n in range(2, 7):
        out.append(('path', path(n)))
    for n in range(3, 8):
        out.append(('star', star(n)))
    for n in range(2, 8):
        out.append(('complete', complete(n)))
    for a, b in ((1, 1), (1, 3), (2, 2), (2, 3), (3, 3), (2, 5), (4, 4)):
        out.append(('bipartite', kab(a, b)))
    out += [('regular', circulant(7, (1, 2))), ('regular', circulant(8, (1, 3))), ('regular', circulant(9, (1, 2, 4))),
            ('regular', cube()), ('regular', petersen())]
    return out


def copies():
    return [('copies', disjoint(cycle(3), cycle(3))), ('copies', disjoint(cycle(4), cycle(4))), ('copies', disjoint(kab(2, 2), kab(2, 2))),
            ('copies', disjoint(complete(3), disjoint(complete(3), complete(3)))), ('copies', disjoint(cycle(5), path(3))),
            ('copies', disjoint(kab(1, 3), kab(1, 3))), ('copies', disjoint(petersen(), complete(2)))]


def hitting_oracle(P):
    """M[i,j] for i != j from the linear system (I - P_{-j}) h = 1, independent of the fundamental-matrix formula"""
    n = len(P); M = np.zeros((n, n))
    for j in range(n):
        idx = [k for k in range(n) if k != j]
        Q = P[np.ix_(idx, idx)]
        h = np.linalg.solve(np.eye(n - 1) - Q, np.ones(n - 1))
        for t, i in enumerate(idx):
            M[i, j] = h[t]
    return M


def fq_mat(A):
    return [[F(float(x)) for x in row] for row in A]


def enc_qb(x):
    f = F(x)
    return '%s/%s' % (bin(f.numerator) if f.numerator else '0', bin(f.denominator))


def run(ctx):
    import bct
    import scipy.linalg
    r = ctx.nprng
    lines, pend = [], []
    S = structured(); Cp = copies()
    nrand = ctx.scale(40, 400)

    # ------------------------------------------------------------ findwalks (exact)
    fw_graphs = [(f, A) for f, A in S if len(A) <= 8] + [(f, A) for f, A in Cp if len(A) <= 8]
    for t in range(nrand):
        n = int(r.randint(2, 8))
        if t % 3 == 0:
            A = rand_strong_dir(r, n, 3)
        elif t % 3 == 1:
            A = rand_conn_und(r, n, 4)
        else:
            A = (r.rand(n, n) < r.choice([0.2, 0.5])).astype(int)        # arbitrary digraph, self-loops allowed
        fw_graphs.append(('random', A))
    fw_graphs.append(('single', np.zeros((1, 1), dtype=int)))
    if ctx.thorough:        # every digraph on 3 nodes (loops included)
        for bits in itertools.product((0, 1), repeat=9):
            fw_graphs.append(('all3', np.array(bits).reshape(3, 3)))
    for fam, A in fw_graphs:
        n = len(A)
        case = {'fn': 'findwalks', 'family': fam, 'A': A.tolist()}
        ctx.case(case, nontrivial=bool(np.any(A))); ctx.count('findwalks:' + fam)
        impl = None
        try:
            Wq, twalk, wlq = call(bct.findwalks, A.astype(float))
            impl = (Wq, twalk, wlq)
        except IndexError:
            if n >= 2:
                ctx.fail('findwalks:raises', 'IndexError on a graph with n >= 2', case)
        except Exception as e:
            ctx.fail('findwalks:raises', 'raised %r' % (e,), case)
        if impl is not None:
            B = (A != 0).astype(np.int64)
            ok = ctx.check(Wq.shape == (n, n, n), 'findwalks:shape', 'Wq is not n x n x n', case)
            if ok:
                ctx.check(not np.any(Wq[:, :, 0]), 'findwalks:power', 'Wq[:,:,0] is not zero (no walk of length 0 is reported)', case)
                for q in range(1, n):
                    want = np.linalg.matrix_power(B, q)
                    # independent walk count by brute force for small cases
                    if not ctx.check(np.array_equal(Wq[:, :, q], want), 'findwalks:power', 'Wq[:,:,%d] is not the number of walks of length %d (A^%d)' % (q, q, q), case):
                        break
                ctx.check(twalk == Wq.sum() and np.array_equal(wlq, Wq.sum(axis=(0, 1))), 'findwalks:totals', 'twalk / wlq are not the sums of Wq', case)
        lines.append('findwalks ' + enc_mat(A)); pend.append(('findwalks', case, impl))
        if 2 <= n <= 5:
            q = int(r.randint(1, n))
            lines.append('walkcount %s %d' % (enc_mat(A), q)); pend.append(('walkcount', case, (q, np.linalg.matrix_power((A != 0).astype(np.int64), q))))

    # ------------------------------------------------------------ mean first passage time / diffusion efficiency
    rw = [(f, A) for f, A in S]
    for t in range(nrand):
        n = int(r.randint(2, 9))
        rw.append(('random_und_w', rand_conn_und(r, n, 4)) if t % 2 == 0 else ('random_dir_strong', rand_strong_dir(r, n, 3)))
    # the measures are invariant under rescaling of the weights: fractional weights (node strengths below 1) and large ones
    rw += [(f + '/8', np.asarray(A, dtype=float) / 8.0) for f, A in rw[::3]] + [(f + '*64', np.asarray(A, dtype=float) * 64.0) for f, A in rw[1::5]]
    for fam, A in rw:
        n = len(A)
        if n < 2 or not connected(A):
            continue
        case = {'fn': 'mean_first_passage_time', 'family': fam, 'A': A.tolist()}
        ctx.case(case, nontrivial=True); ctx.count('mfpt:' + fam)
        Af = A.astype(float)
        try:
            M = np.real_if_close(call(bct.mean_first_passage_time, Af.copy()))
            ge, E = call(bct.diffusion_efficiency, Af.copy())
        except Exception as e:
            ctx.fail('mean_first_passage_time:raises', 'raised %r on a (strongly) connected network' % (e,), case); continue
        P = Af / Af.sum(axis=1, keepdims=True)
        scale = max(1.0, float(np.abs(M).max()))
        ok = ctx.check(M.shape == (n, n) and np.all(np.isfinite(M)) and not np.iscomplexobj(M), 'mean_first_passage_time:shape', 'not a finite real n x n array', case)
        if ok:
            Md = M.copy(); np.fill_diagonal(Md, 0)
            # residual of M[i,j] = 1 + sum_{k != j} P[i,k] M[k,j] for i != j  (column j of Md has the k = j term removed)
            R = 1 + P @ Md - M
            np.fill_diagonal(R, 0)
            ctx.check(np.abs(R).max() <= TOL * scale, 'mean_first_passage_time:equation', 'first-step equation residual %.3g' % np.abs(R).max(), case)
            ctx.check(np.abs(np.diag(M)).max() <= TOL * scale, 'mean_first_passage_time:diagonal', 'diagonal is not 0', case)
            H = hitting_oracle(P)
            ctx.check(np.abs(H - Md).max() <= 1e-7 * scale, 'mean_first_passage_time:hitting', 'differs from the hitting times of the chain by %.3g' % np.abs(H - Md).max(), case)
            # diffusion efficiency: elementwise inverse off the diagonal, 0 on it, and the mean
            off = ~np.eye(n, dtype=bool)
            ctx.check(E.shape == (n, n) and np.allclose(E[off] * H[off], 1, rtol=1e-7, atol=0) and not np.any(np.diag(E)),
                      'diffusion_efficiency:inverse', 'ediff is not 1/mfpt off the diagonal with a zero diagonal', case)
            ctx.check(abs(ge - E[off].sum() / (n * n - n)) <= 1e-12 * max(1, abs(ge)) and abs(ge - (1 / H[off]).sum() / (n * n - n)) <= 1e-7,
                      'diffusion_efficiency:mean', 'gediff is not the mean of the off-diagonal entries', case)
        # exact instance for the extracted model
        if n <= 6:
            Aq = fq_mat(A)
            Pq = [[Aq[i][j] / sum(Aq[i]) for j in range(n)] for i in range(n)]
            # stationary w: (P^T - I) w = 0 with the last equation replaced by sum w = 1
            Sy = [[Pq[j][i] - (1 if i == j else 0) for j in range(n)] for i in range(n)]
            Sy[n - 1] = [F(1)] * n
            w = fsolve(Sy, [[F(0)]] * (n - 1) + [[F(1)]])
            if w is not None:
                w = [x[0] for x in w]
                Am = [[(1 if i == j else 0) - Pq[i][j] + w[j] for j in range(n)] for i in range(n)]
                Z = fsolve(Am, feye(n))
                if Z is not None:
                    lines.append('mfpt %s %s %s' % (enc_mat(Aq, enc_qb), enc_list(w, enc_qb), enc_mat(Z, enc_qb)))
                    pend.append(('mfpt', case, (M, E, ge)))

    # ------------------------------------------------------------ pagerank
    for fam, A in rw:
        n = len(A)
        if n < 2 or not connected(A) or np.any(A.sum(axis=0) == 0):
            continue
        for d in ([0.1, 0.5, 0.85, 0.99] if fam != 'random_und_w' else [float(r.uniform(0.02, 0.98))]):
            use_prior = r.rand() < 0.3
            prior = r.randint(1, 6, n).astype(float) if use_prior else None
            case = {'fn': 'pagerank_centrality', 'family': fam, 'A': A.tolist(), 'd': d, 'falff': None if prior is None else prior.tolist()}
            ctx.case(case, nontrivial=True); ctx.count('pagerank:' + fam)
            try:
                pr = call(bct.pagerank_centrality, A.astype(float), d, falff=None if prior is None else prior.copy())
            except Exception as e:
                ctx.fail('pagerank_centrality:raises', 'raised %r' % (e,), case); continue
            f = np.ones(n) / n if prior is None else prior / prior.sum()
            ok = ctx.check(pr.shape == (n,) and np.all(np.isfinite(pr)), 'pagerank_centrality:shape', 'not a finite vector of length n', case)
            if ok:
                Mx = A.astype(float) / A.sum(axis=0, keepdims=True)
                res = np.abs(pr - (d * Mx @ pr + (1 - d) * f)).max()
                ctx.check(res <= TOL, 'pagerank_centrality:equation', 'r = d A D^-1 r + (1-d) f residual %.3g' % res, case)
                ctx.check(abs(pr.sum() - 1) <= TOL, 'pagerank_centrality:sum', 'does not sum to one', case)
                ctx.check(np.all(pr > 0), 'pagerank_centrality:positive', 'not positive', case)
        # exact instance (default prior, dyadic d)
        if n <= 6:
            dq = [F(1, 2), F(3, 4), F(1, 8), F(27, 32)][int(r.randint(0, 4))]
            Aq = fq_mat(A); deg = [sum(Aq[i][j] for i in range(n)) for j in range(n)]
            B = [[(1 if i == j else 0) - dq * Aq[i][j] / deg[j] for j in range(n)] for i in range(n)]
            rp = fsolve(B, [[(1 - dq) / n] for _ in range(n)])
            if rp is not None:
                pr = call(bct.pagerank_centrality, A.astype(float), float(dq))
                case = {'fn': 'pagerank_centrality', 'family': fam, 'A': A.tolist(), 'd': str(dq), 'exact': True}
                lines.append('pagerank %s %s %s' % (enc_mat(Aq, enc_qb), enc_qb(dq), enc_list([x[0] for x in rp], enc_qb)))
                pend.append(('pagerank', case, pr))

    # ------------------------------------------------------------ subgraph centrality / eigenvector centrality
    sp = S + Cp
    for t in range(nrand):
        n = int(r.randint(2, 10))
        B = rand_conn_und(r, n, 1) if t % 2 == 0 else ((lambda X: ((X + X.T) > 0).astype(int))(np.triu((r.rand(n, n) < 0.3).astype(int), 1)))
        sp.append(('random_und', B))
    for fam, A in sp:
        n = len(A); Af = (A != 0).astype(float)
        case = {'fn': 'subgraph_centrality', 'family': fam, 'A': A.tolist()}
        ctx.case(case, nontrivial=bool(np.any(A))); ctx.count('spectral:' + fam)
        try:
            Cs = call(bct.subgraph_centrality, Af.copy())
            want = np.diag(scipy.linalg.expm(Af))
            ctx.check(Cs.shape == (n,) and np.abs(Cs - want).max() <= TOL * max(1.0, np.abs(want).max()), 'subgraph_centrality:expm',
                      'differs from diag(expm(A)) by %.3g' % (np.abs(Cs - want).max() if Cs.shape == (n,) else -1), case)
        except Exception as e:
            ctx.fail('subgraph_centrality:raises', 'raised %r' % (e,), case)
        case = {'fn': 'eigenvector_centrality_und', 'family': fam, 'A': A.tolist()}
        ctx.case(case, nontrivial=bool(np.any(A)))
        variants = [Af]
        if fam == 'random_und':
            variants.append(Af * r.randint(1, 5, (n, n)))        # weighted; symmetrised from the upper triangle below
        for Aw in variants:
            Aw = np.triu(Aw, 1); Aw = Aw + Aw.T
            try:
                v = call(bct.eigenvector_centrality_und, Aw.copy())
            except Exception as e:
                ctx.fail('eigenvector_centrality_und:raises', 'raised %r' % (e,), case); continue
            lmax = float(np.linalg.eigvalsh(Aw).max())
            ok = ctx.check(v.shape == (n,) and np.all(np.isfinite(v)) and not np.iscomplexobj(v), 'eigenvector_centrality_und:shape', 'not a finite real vector', case)
            if ok:
                ctx.check(np.all(v >= 0), 'eigenvector_centrality_und:nonneg', 'negative entry', case)
                ctx.check(abs(np.linalg.norm(v) - 1) <= TOL, 'eigenvector_centrality_und:unit', 'norm %.12g is not 1' % np.linalg.norm(v), case)
                res = np.abs(Aw @ v - lmax * v).max()
                ctx.check(res <= TOL * max(1.0, abs(lmax)), 'eigenvector_centrality_und:eigen', 'A v = lambda_max v residual %.3g' % res, case)

    # exact instances for the spectral identity: A = V diag(lam) V^T with a rational orthogonal V (Cayley transform)
    H = [[F(x, 2) for x in row] for row in ((1, 1, 1, 1), (1, 1, -1, -1), (1, -1, -1, 1), (1, -1, 1, -1))]
    exact = [(H, [F(2), F(0), F(0), F(-2)]), (H, [F(3), F(-1), F(-1), F(-1)]), (H, [F(1), F(1), F(-1), F(-1)])]
    for t in range(ctx.scale(6, 40)):
        n = int(r.randint(2, 5))
        Sk = [[F(0)] * n for _ in range(n)]
        for i in range(n):
            for j in range(i + 1, n):
                x = F(int(r.randint(-2, 3)), int(r.choice([1, 2, 3])))
                Sk[i][j] = x; Sk[j][i] = -x
        IpS = [[(1 if i == j else 0) + Sk[i][j] for j in range(n)] for i in range(n)]
        ImS = [[(1 if i == j else 0) - Sk[i][j] for j in range(n)] for i in range(n)]
        inv = fsolve(IpS, feye(n))
        if inv is None:
            continue
        V = fmat_mul(ImS, inv)
        lam = [F(int(x)) for x in r.randint(-2, 3, n)]
        if t % 2 == 0:
            lam[1] = lam[0]        # a repeated eigenvalue
        exact.append((V, lam))
    for V, lam in exact:
        n = len(V)
        Aq = [[sum(V[i][k] * lam[k] * V[j][k] for k in range(n)) for j in range(n)] for i in range(n)]
        Af = np.array([[float(x) for x in row] for row in Aq])
        Cs = call(bct.subgraph_centrality, Af.copy())
        case = {'fn': 'subgraph_centrality', 'family': 'exact_decomposition', 'A': [[str(x) for x in row] for row in Aq], 'lam': [str(x) for x in lam]}
        ctx.case(case, nontrivial=True); ctx.count('spectral:exact')
        lines.append('subgraph %s %s %s %d' % (enc_mat(Aq, enc_qb), enc_mat(V, enc_qb), enc_list(lam, enc_qb), 30))
        pend.append(('subgraph', case, Cs))

    # ------------------------------------------------------------ correspondence with the extracted Coq model
    res = run_model(ID, lines)
    ctx.model_cases = len(lines)
    for (kind, case, impl), m in zip(pend, res):
        if is_err(m):
            ctx.mismatch(kind + ':model-error', m['error'], case); continue
        if kind == 'findwalks':
            if m is None or impl is None:
                if not (m is None and impl is None):
                    ctx.mismatch('findwalks', 'model %s / implementation %s' % ('fails' if m is None else 'returns', 'fails' if impl is None else 'returns'), case)
                continue
            Wq, twalk, wlq = impl
            MW = np.array(dec_deep(m[0], dec_z), dtype=float)          # [q][i][j]
            if not (np.array_equal(np.transpose(MW, (1, 2, 0)), Wq) and dec_z(m[1]) == twalk and np.array_equal(np.array(dec_deep(m[2], dec_z), dtype=float), wlq)):
                ctx.mismatch('findwalks', 'model and implementation differ', case, MW.tolist(), np.transpose(Wq, (2, 0, 1)).tolist())
        elif kind == 'walkcount':
            q, want = impl
            if not np.array_equal(np.array(m), want):
                ctx.mismatch('walks', 'number of enumerated walks of length %d differs from A^%d' % (q, q), case, m, want)
        elif kind == 'mfpt':
            M, E, ge = impl
            hyp, eqn, MM, ME, mg = m
            if not (hyp and eqn):
                ctx.mismatch('mean_first_passage_time:exact', 'exact instance: hypotheses %s, equation %s' % (hyp, eqn), case); continue
            MM = np.array([[float(dec_q(x)) for x in row] for row in MM]); ME = np.array([[float(dec_q(x)) for x in row] for row in ME])
            sc = max(1.0, np.abs(MM).max())
            if not (np.abs(MM - M).max() <= 1e-9 * sc * 10 and np.abs(ME - E).max() <= 1e-9 * 10 and abs(float(dec_q(mg)) - ge) <= 1e-9 * 10):
                ctx.mismatch('mean_first_passage_time', 'exact rational M / ediff / gediff differ from the implementation beyond 1e-8', case, MM, M)
        elif kind == 'pagerank':
            hyp, fx, mr = m
            mr = np.array([float(dec_q(x)) for x in mr])
            if not (hyp and fx):
                ctx.mismatch('pagerank_centrality:exact', 'exact instance: hypotheses %s, fixed point %s' % (hyp, fx), case); continue
            if not np.abs(mr - impl).max() <= 1e-9:
                ctx.mismatch('pagerank_centrality', 'exact rational solution differs from the implementation beyond 1e-9', case, mr, impl)
        elif kind == 'subgraph':
            hyp, a, b = m
            if not hyp or a != b:
                ctx.mismatch('subgraph_centrality:exact', 'exact instance: hypotheses %s, p(A)_ii == spectral sum %s' % (hyp, a == b), case); continue
            a = np.array([float(dec_q(x)) for x in a])
            if not np.abs(a - impl).max() <= 1e-9 * max(1.0, np.abs(a).max()):
                ctx.mismatch('subgraph_centrality', 'truncated exact series (order 30) differs from the implementation beyond 1e-9', case, a, impl)
