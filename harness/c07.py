"""C07 — deterministic-gain optimisers never return a partition worse than their start."""
from fractions import Fraction as F
import numpy as np
from common import *
import modq
from modq import ROUTINES, true_q, canon, close, pub, arr_close, CHAN_FIELDS, full_labels

ID = 'C07'
COQ_FILES = ['Base/Mat.v', 'Base/SumQ.v', 'Base/ListX.v', 'Model/Modularity.v', 'Model/ModularityGood.v',
             'Proofs/ModularitySums.v', 'Proofs/ModularityQ.v', 'Proofs/ModularityGain.v', 'Proofs/ModularityRun.v',
             'Proofs/ModularityRunSign.v', 'Proofs/ModularityRunB.v', 'Proofs/ModularityGood.v', 'Model/ModularitySelect.v',
             'Proofs/ModularitySelect.v', 'Proofs/ModularityAuto.v', 'Proofs/ModularityBound.v', 'Proofs/ModularityRunFull.v',
             'Properties/C07.v']
THEOREMS = ['C07_init_bk_inv_louvain', 'C07_init_bk_inv_louvain_sign', 'C07_init_bk_inv_finetune',
            'C07_init_bk_inv_finetune_dir', 'C07_init_bk_inv_finetune_sign', 'C07_move_preserves_bk_inv',
            'C07_move_preserves_bk_inv_dir', 'C07_move_preserves_bk_inv_sign', 'C07_move_preserves_bk_inv_B',
            'C07_gain_exact_und', 'C07_gain_exact_dir', 'C07_gain_exact_sign', 'C07_Qsign_is_gen',
            'C07_gain_exact_louvainB', 'C07_moves_monotone_und', 'C07_moves_monotone_dir', 'C07_moves_monotone_sign',
            'C07_moves_monotone_louvainB', 'C07_finetune_und_never_worse', 'C07_finetune_dir_never_worse',
            'C07_finetune_sign_never_worse', 'C07_level_monotone', 'C07_louvain_und_level_hyps', 'C07_levels_strict',
            'C07_retained_prefix', 'C07_idempotent_restart', 'C07_louvain_dir_bk_refuted',
            'C07_louvain_dir_monotone_refuted', 'C07_init_bk_inv_louvain_dirfix',
            'C07_louvain_und_run_monotone', 'C07_louvain_und_sign_run_monotone', 'C07_community_louvain_run_monotone',
            'C07_louvain_und_run_monotone_checked', 'C07_louvain_und_sign_run_monotone_checked',
            'C07_community_louvain_run_monotone_checked',
            # the decision rule inside the model: no hypothesis on the run (Model/ModularitySelect.v)
            'C07_argmax_first_spec', 'C07_select_some', 'C07_select_none', 'C07_sweeps_good_run',
            'C07_run_finetune_und_monotone', 'C07_run_finetune_dir_monotone', 'C07_run_finetune_sign_monotone',
            'C07_finetune_und_auto_never_worse', 'C07_finetune_dir_auto_never_worse', 'C07_finetune_sign_auto_never_worse',
            'C07_louvain_und_auto_monotone', 'C07_louvain_und_sign_auto_monotone', 'C07_community_louvain_auto_monotone',
            'C07_finetune_und_restart', 'C07_finetune_dir_restart', 'C07_finetune_sign_restart',
            'C07_community_louvain_restart', 'C07_louvain_und_hierarchy_strict']
RULE = ('same generator as C02 (harness/modq.py: networks n=3..9 mostly, n in {1,2} and 10..16 in ~18 %; weights: integers 1..4, '
        'dyadic k/4, integers up to 2^15, whole matrix scaled by 2^-26..2^-38 (gains near the absolute 1e-10 threshold), heavy '
        'self-loops; signed/binary/directed variants; gamma in {1, 3/4, 5/4, 13/10} or {0, 1/2, 7/8, 3/2, 19/10}; all '
        'qtypes/objectives; random / one-block / shuffled-singleton / non-contiguous initial partitions, as ndarray or list; float '
        'or integer dtype; seed an int (recorded stream) or None; a 44-node increasing-weight path needing 23..32 sweeps); every '
        'accepted move of every run is checked and the decision rule is re-run on the recorded permutations; non-trivial = at '
        'least one accepted move; distinct by hash of (routine, matrix, gamma, type, initial partition, seed)')
ASSUMES = ['weights are integers or dyadic rationals (exact in binary64, total weight < 2^23): node-to-module sums are exact and '
           'compared exactly (1e-9 tolerance for the non-integer sums of community_louvain); gains are compared with tolerance '
           '1e-9 relative + 1e-13 * total weight absolute (a gain is a difference of terms of that size)',
           'which move is taken is decided by the model\'s exact decision rule on the recorded permutations and must equal the '
           'implementation\'s float decision, except where the exact decision is within 1e-9 * gain scale of flipping (threshold '
           'or runner-up): such runs (counted select:ambiguous) fall back to the replay of the accepted moves',
           'domain: symmetric W for the _und routines and for the objective matrix of community_louvain (the code '
           'symmetrises it), positive total weight']
TRUSTED = ['hook events of bct.utils._verif (BCTPY_VERIF=1) are trusted to be the state of the run',
           'modularity_probtune_und_sign is not a deterministic-gain optimiser: only its bookkeeping is checked here']

GOOD = ('modularity_louvain_und', 'modularity_louvain_und_sign', 'community_louvain')
DET = ['modularity_finetune_und', 'modularity_finetune_dir', 'modularity_finetune_und_sign', 'modularity_louvain_und',
       'modularity_louvain_dir', 'modularity_louvain_und_sign', 'community_louvain']


# ---------------------------------------------------------------- independent recomputation of the bookkeeping
def aggregate(M, full, k):
    """block sums of M over the partition `full` (labels 1..k) of the original nodes"""
    n = len(M)
    A = [[0] * k for _ in range(k)]
    for i in range(n):
        for j in range(n):
            if 1 <= full[i] <= k and 1 <= full[j] <= k:
                A[full[i] - 1][full[j] - 1] += M[i][j]
    return A


def objective_matrix(case):
    """community_louvain's B for the built-in objectives, from the definition (exact)"""
    if '_B' not in case:
        case['_B'] = _objective_matrix(case)
    return case['_B']


def _objective_matrix(case):
    W, g, kind = case['_W'], case['_g'], case['kind']
    n = len(W)
    s = sum(map(sum, W))

    def modmat(V, sv):
        ko = [sum(V[i]) for i in range(n)]
        ki = [sum(V[i][j] for i in range(n)) for j in range(n)]
        return [[V[i][j] - g * ko[i] * ki[j] / sv for j in range(n)] for i in range(n)]
    if kind == 'modularity':
        B = modmat(W, s)
    elif kind == 'potts':
        B = [[W[i][j] - g * (1 if W[i][j] == 0 else 0) for j in range(n)] for i in range(n)]
    else:
        W0, W1, s0, s1 = modq.parts(W)
        B0 = modmat(W0, s0)
        B1 = modmat(W1, s1) if s1 else [[0] * n for _ in range(n)]
        if kind == 'negative_sym':
            B = [[B0[i][j] / (s0 + s1) - B1[i][j] / (s0 + s1) for j in range(n)] for i in range(n)]
        else:
            B = [[B0[i][j] / s0 - B1[i][j] / (s0 + s1) for j in range(n)] for i in range(n)]
    return [[(B[i][j] + B[j][i]) / 2 for j in range(n)] for i in range(n)]


def expected_channels(case, prev_full, k, m):
    """what the node-to-module sums must be for labels m (1-based, over the k current nodes) — from the definition"""
    fam = ROUTINES[case['fn']].family
    W = case['_W']
    if fam == 'sign':
        W0, W1, _, _ = modq.parts(W)
        mats = [(aggregate(W0, prev_full, k), False), (aggregate(W1, prev_full, k), False)]
    elif fam == 'dir':
        A = aggregate(W, prev_full, k)
        mats = [(A, False), (A, True)]
    elif fam == 'B':
        mats = [(aggregate(objective_matrix(case), prev_full, k), False)]
    else:
        mats = [(aggregate(W, prev_full, k), False)]
    out = []
    for A, tr in mats:
        if tr:
            A = [[A[j][i] for j in range(k)] for i in range(k)]
        knm = [[0] * k for _ in range(k)]
        km = [0] * k
        deg = [sum(A[i]) for i in range(k)]
        for j in range(k):
            if 1 <= m[j] <= k:
                km[m[j] - 1] += deg[j]
                for i in range(k):
                    if A[i][j]:
                        knm[i][m[j] - 1] += A[i][j]
        out.append((knm, km))
    return out


def run(ctx):
    lines, pend = [], []
    per = ctx.scale(70, 1200)
    ctx.big_sparse = True      # modq.make_case queues one 143..150-node case per Louvain routine (direct oracle only)
    for fn in ROUTINES:
        R = ROUTINES[fn]
        det = fn in DET
        done = tries = 0
        while done < per and tries < per * 5:
            tries += 1
            case = modq.make_case(ctx, fn)
            if case is None:
                continue
            done += 1
            n = case['n']
            pc = pub(case)
            hier = fn in ('modularity_louvain_und', 'modularity_louvain_dir')
            try:
                ci, q, levels = modq.call_impl(case, hierarchy=False)
                perms = modq.LAST_PERMS           # every rng.permutation of the run, in call order (recording RandomState)
                if hier:
                    cih, qh, _ = modq.call_impl(case, hierarchy=True)
            except Timeout:
                ctx.fail(fn + ':terminates', 'no result within 20 s', pc); continue
            except Exception as e:
                ctx.fail(fn + ':raises', 'raised %r' % (e,), pc); continue
            pc = pub(case)          # (again: call_impl ties the representation its calls ran on to the case)
            nmoves = sum(len(L['moves']) for L in levels)
            ctx.case(pc, nontrivial=nmoves > 0, sample_every=97)
            ctx.count('fn:' + fn); ctx.count('family:' + case['family']); ctx.count('n=%d' % n)
            ctx.count('gamma=' + case['gamma']); ctx.count('moves', nmoves); ctx.count('weights:' + case.get('weights', 'int'))
            ctx.count('dtype:' + case.get('dtype', 'float')); ctx.count('seed:' + ('None' if case['seed'] is None else 'int'))
            start = canon(case['ci']) if case.get('ci') is not None else list(range(1, n + 1))
            q_start = true_q(case, start)
            fac = modq.gain_factor(case)
            gx = 1e-13 * float(modq.gain_scale(case))    # float rounding of a gain: ~1e-16 of the terms it is the difference of
            # ---- every accepted move: bookkeeping, claimed gain, true change of Q
            full = start
            for lvl, L in enumerate(levels):
                # level 1 works on the original nodes, later levels on the (relabelled) modules of the previous level
                base = list(range(1, n + 1)) if lvl == 0 else full
                k = n if lvl == 0 else max(full)
                qcur = true_q(case, full)
                for d in L['moves']:
                    m = [int(x) for x in d['labels']]
                    newfull = full_labels(base, m)
                    if len(m) != k:
                        ctx.fail(fn + ':bookkeeping', 'level %d works on %d nodes but the previous level has %d modules'
                                 % (lvl + 1, len(m), k), pc)
                        break
                    if det:   # hypotheses of the theorems (`legal`): a real move to another module slot of this level
                        ctx.check(int(d['ma']) != int(d['mb']), fn + ':legal', 'accepted move of node %d stays in module %d' % (d['u'], d['ma']), pc)
                        ctx.check(0 <= int(d['u']) < k and 0 <= int(d['mb']) < k, fn + ':bookkeeping',
                                  'node %d / target slot %d outside the %d nodes of level %d' % (d['u'], d['mb'], k, lvl + 1), pc)
                    exp = expected_channels(case, base, k, m)
                    for (kf, exp_c) in zip(CHAN_FIELDS[R.family], exp):
                        if kf is None:
                            continue
                        ok = arr_close(exp_c[0], d[kf[0]]) and arr_close(exp_c[1], d[kf[1]])
                        if not ctx.check(ok, fn + ':bookkeeping', '%s/%s after moving node %d to module %d do not equal the sums '
                                         'recomputed from the labels %s' % (kf[0], kf[1], d['u'], d['mb'], m), pc):
                            break
                    qnew = true_q(case, newfull)
                    if 'gain' in d:
                        ctx.check(close(fac * (qnew - qcur), d['gain'], extra=gx), fn + ':bookkeeping',
                                  'claimed gain %r of moving node %d to module %d differs from %s*(Q_after - Q_before) = %.12g'
                                  % (d['gain'], d['u'], d['mb'], fac, float(fac * (qnew - qcur))), pc)
                        if det:
                            ctx.check(qnew > qcur, fn + ':monotone', 'accepted move of node %d lowers Q from %.12g to %.12g'
                                      % (d['u'], float(qcur), float(qnew)), pc)
                    full, qcur = newfull, qnew
                # end of level: relabel
                full = canon(full)
            if not det:
                lines.append(modq.model_line(case, levels)); pend.append((case, ci, q, levels)); continue
            # ---- result never worse than the start
            q_ret = true_q(case, [int(x) for x in ci])
            ctx.check(q_ret >= q_start - F(1, 10 ** 9), fn + ':monotone',
                      'Q(returned)=%.12g < Q(start)=%.12g' % (float(q_ret), float(q_start)), pc)
            ctx.check(float(q) >= float(q_start) - 1e-9, fn + ':monotone',
                      'returned q=%r < Q(start)=%.12g' % (q, float(q_start)), pc)
            # ---- hierarchy strictly increasing (reported q and true Q of the reported partitions)
            if hier:
                ctx.check(all(b > a for a, b in zip(qh, qh[1:])), fn + ':hierarchy', 'reported q not strictly increasing: %s' % list(qh), pc)
                tq = [true_q(case, [int(x) for x in c]) for c in cih]
                ctx.check(all(b > a for a, b in zip(tq, tq[1:])), fn + ':monotone',
                          'true modularity of the hierarchy levels not strictly increasing: %s' % [float(x) for x in tq], pc)
                ctx.count('hier_levels=%d' % len(qh))
            # ---- feeding the output back never lowers Q
            if R.takes_ci:
                case2 = dict(case)
                if case['seed'] is None:
                    case2['global_seed'] = case['global_seed'] + 1
                else:
                    case2['seed'] = case['seed'] + 1
                try:
                    ci2, q2, lv2 = modq.call_impl(case2, ci_override=[int(x) for x in ci])
                    q2t = true_q(case, [int(x) for x in ci2])
                    ctx.check(q2t >= q_ret - F(1, 10 ** 9) and float(q2) >= float(q) - 1e-9, fn + ':restart',
                              'restart from own output lowers Q: %.12g -> %.12g' % (float(q_ret), float(q2t)), pc)
                    ctx.count('restart_moves', sum(len(L['moves']) for L in lv2))
                except Timeout:
                    ctx.fail(fn + ':terminates', 'restart: no result within 20 s', pc)
                except Exception as e:
                    ctx.fail(fn + ':raises', 'restart raised %r' % (e,), pc)
            if case.get('_nomodel'):
                continue
            lines.append(modq.model_line(case, levels)); pend.append((case, ci, q, levels))
            if fn != 'modularity_louvain_dir' and perms is not None:
                # the DECISION RULE itself (dq vector, dq[ma]=0, first-max argmax, > 1e-10, sweeps until no move, `it` bound) run
                # by the extracted model on the recorded permutation stream: it must pick exactly the moves the code accepted
                lines.append(modq.auto_line(case, perms)); pend.append((case, None, levels, 'auto'))
                ctx.count('sweeps', len(perms))
            if fn in GOOD:
                # hypotheses of the whole-run theorem C07_*_run_monotone_checked, decided by the extracted model
                lines.append(modq.good_line(case, levels)); pend.append((case, None, None, 'good'))
            if hier:
                # the hierarchy rule itself (floats are rationals: the model applies the rule exactly to the emitted q's)
                lines.append('retained ' + enc_list([L['q'] for L in levels], enc=modq.enc_qb)); pend.append((case, None, list(qh), 'retained'))

    # ---------------- correspondence: the extracted model replays every recorded move
    res = run_model(ID, lines)
    ctx.model_cases = len(lines)
    for (case, ci, q, levels), m in zip(pend, res):
        pc = pub(case)
        fn = case['fn']
        if is_err(m):
            ctx.mismatch('model-error', m['error'], pc); continue
        if levels == 'good':
            sym_ok, pos_ok, good_ok = m
            need_sym = fn != 'community_louvain'
            need_pos = fn == 'modularity_louvain_und' or (fn == 'community_louvain' and case['kind'] in ('modularity', 'potts'))
            if (need_sym and not sym_ok) or (need_pos and not pos_ok):
                ctx.mismatch(fn + ':domain', 'generated input outside the domain of the theorem (symmetric=%s, positive total=%s)' % (sym_ok, pos_ok), pc)
            if not good_ok:
                ctx.mismatch(fn + ':good_run', 'an accepted move is illegal or has exact gain <= 0 (decider of the whole-run theorem hypothesis says false)', pc)
            continue
        if levels == 'auto':
            verdict, text = modq.compare_auto(case, m, q)
            ctx.count('select:' + verdict)
            if verdict == 'mismatch':
                ctx.mismatch(fn + ':select', 'decision rule (argmax of the exact gain vector with dq[ma]=0, first maximum, > 1e-10, sweeps '
                             'until no move) on the recorded permutations disagrees with the accepted moves: ' + text, pc)
            continue
        if levels == 'retained':
            mq = [float(dec_q(x)) for x in m]
            if mq != [float(x) for x in q]:
                ctx.mismatch(fn + ':retained', 'levels kept by the rule q[h]-q[h-1] >= 1e-10 differ', pc, mq, q)
            continue
        M = modq.dec_result(m)
        R = ROUTINES[fn]
        if len(M['levels']) != len(levels):
            ctx.mismatch(fn + ':levels', 'number of levels differs', pc); continue
        bad = False
        for lvl, (LM, LI) in enumerate(zip(M['levels'], levels)):
            for mv, d in zip(LM['moves'], LI['moves']):
                where = 'level %d, node %d -> module %d' % (lvl + 1, d['u'], d['mb'])
                if not d.get('random'):
                    if not mv['gain'] > 0:
                        ctx.mismatch(fn + ':gain_positive', where + ': exact gain %s of an accepted move is not positive' % mv['gain'], pc); bad = True
                    if 'gain' in d and not close(mv['gain'], d['gain'], extra=1e-13 * float(modq.gain_scale(case))):
                        ctx.mismatch(fn + ':gain', where + ': exact gain %s (%.12g) vs claimed %r' % (mv['gain'], float(mv['gain']), d['gain']), pc); bad = True
                if mv['labels'] != [int(x) for x in d['labels']]:
                    ctx.mismatch(fn + ':labels', where + ': labels differ', pc, mv['labels'], d['labels']); bad = True
                for key, kf in zip(('ca', 'cb'), CHAN_FIELDS[R.family]):
                    if kf is None:
                        continue
                    if not (arr_close(mv[key][0], d[kf[0]]) and arr_close(mv[key][1], d[kf[1]])):
                        ctx.mismatch(fn + ':' + kf[0], where + ': node-to-module / module sums differ from the model', pc); bad = True
                if bad:
                    break
            if bad:
                break
        if M['ci'] != [int(x) for x in ci] or not close(M['q'], q):
            ctx.mismatch(fn + ':result', 'final (ci, q) differ: model (%s, %.12g) impl (%s, %r)' % (M['ci'], float(M['q']), list(ci), q), pc)
        # in-model cross-check of the monotonicity theorem on this run
        if fn in DET and fn != 'modularity_louvain_dir' and M['qd'] < M['qstart']:
            ctx.mismatch(fn + ':theorem', 'model: definitional Q of the result %s < Q of the start %s' % (M['qd'], M['qstart']), pc)
