"""C13 — fail-closed Python-`ast` translator: bct source  ->  programs of Model/AliasLang.v (Gen/Alias.v).

Every function reachable from the bct namespace (public functions, the private helpers they call, and
lambda-lifted nested defs) becomes one `fundef`.  The translation is purely SYNTACTIC (which names an
expression may share memory with; which statements write through a name); all flow-sensitive reasoning is
done by the Coq checker `may_alias_params`, of which `ai` below is a line-by-line Python mirror used only
to GUESS the summaries (fmut / fret / fcontract) that Coq then verifies (`summaries_ok`) on every run.

Fail-closed rules
  * an expression whose aliasing is not understood evaluates to Unknown (may point anywhere);
  * a call that is not a known-pure NumPy/builtin routine nor a bct function writes (Mutate) through every
    name its arguments / receiver may alias, and returns Unknown;
  * an unsupported statement makes the whole function body `Bind $u Unknown; Mutate $u` (always rejected).
"""
import ast, os, re, sys, json, hashlib

SKIP_FILES = ('citations.py', 'due.py', 'version.py', 'nbs_parallel.py', '_verif.py')

# ----------------------------------------------------------------------------- classification tables
# module-level NumPy / SciPy routines that write into their first argument
NP_INPLACE = {'fill_diagonal', 'put', 'place', 'putmask', 'copyto', 'shuffle', 'put_along_axis', 'setdiff1d_inplace'}
# routines whose result may share memory with an array argument
NP_VIEW = {'asarray', 'asanyarray', 'ascontiguousarray', 'asfortranarray', 'atleast_1d', 'atleast_2d', 'atleast_3d',
           'squeeze', 'reshape', 'ravel', 'transpose', 'swapaxes', 'moveaxis', 'rollaxis', 'real', 'imag', 'diagonal',
           'diag', 'broadcast_to', 'expand_dims', 'masked_array', 'asmatrix', 'mat', 'matrix', 'nditer', 'flatiter',
           'split', 'array_split', 'hsplit', 'vsplit', 'dsplit', 'flip', 'fliplr', 'flipud', 'rot90', 'trim_zeros',
           'nan_to_num_view', 'require', 'broadcast_arrays', 'view', 'real_if_close'}
# routines that only read their arguments and return new memory
NP_PURE = {'array', 'abs', 'absolute', 'outer', 'all', 'allclose', 'any', 'append', 'arange', 'arccos', 'argmax', 'argmin', 'argsort',
           'around', 'ceil', 'concatenate', 'corrcoef', 'cumsum', 'delete', 'dot', 'dstack', 'errstate', 'exp', 'eye',
           'floor', 'histogram', 'hstack', 'inner', 'intersect1d', 'isinf', 'isnan', 'ix_', 'lexsort', 'eig', 'eigh',
           'inv', 'solve', 'toeplitz', 'log', 'log2', 'log10', 'logical_and', 'logical_not', 'logical_or', 'logical_xor',
           'masked_where', 'max', 'mean', 'min', 'mod', 'ndim', 'ones', 'power', 'prod', 'RandomState', 'randint',
           'random_sample', 'rand', 'randn', 'random', 'permutation', 'choice', 'repeat', 'round', 'setdiff1d', 'shape',
           'sign', 'size', 'sort', 'sqrt', 'square', 'stack', 'std', 'sum', 'tile', 'trace', 'tril', 'tril_indices',
           'triu', 'triu_indices', 'uint32', 'uint64', 'int32', 'int64', 'float32', 'float64', 'union1d', 'unique',
           'unravel_index', 'var', 'vstack', 'where', 'zeros', 'zeros_like', 'ones_like', 'empty', 'empty_like', 'full',
           'full_like', 'nonzero', 'flatnonzero', 'count_nonzero', 'isfinite', 'isclose', 'array_equal', 'maximum',
           'minimum', 'nansum', 'nanmax', 'nanmin', 'nanmean', 'median', 'cumprod', 'diff', 'linspace', 'meshgrid',
           'matmul', 'kron', 'multiply', 'divide', 'add', 'subtract', 'copy', 'identity', 'diagflat', 'cbrt', 'norm',
           'pinv', 'det', 'svd', 'expm', 'csc_matrix', 'csr_matrix', 'loadmat', 'pdf', 'cdf', 'Random', 'cpu_count',
           'dirname', 'join', 'exists', 'abspath', 'time', 'clock', 'product', 'combinations', 'permutations',
           'deepcopy', 'emit', '_snap', 'from_numpy_matrix', 'connected_components', 'isscalar', 'issubdtype', 'bincount',
           'digitize', 'searchsorted', 'argwhere', 'roll', 'clip', 'nan_to_num', 'fromiter', 'logspace', 'tanh', 'cos',
           'sin', 'arctan', 'floor_divide', 'remainder', 'dcite', 'cite', 'average', 'percentile', 'ptp', 'amax', 'amin',
           'mode', 'savemat', 'figure', 'warn'}
NP_PURE_DOTTED = {'add.outer', 'subtract.outer', 'multiply.outer', 'maximum.outer', 'minimum.outer',
                  'add.reduce', 'multiply.reduce', 'maximum.reduce', 'logical_or.reduce', 'logical_and.reduce'}
# names that denote modules (calls through them are classified by the tables above, never as methods)
MODULE_ROOTS = {'np', 'numpy', 'linalg', 'sp', 'scipy', 'nx', 'random', 'os', 'time', 'itertools', 'copy_module',
                'math', 'warnings', '_verif', 'due', 'stats', 'io', 'plt', 'mlab', 'multiprocessing', 'sys', 'la'}
BUILTIN_PURE = {'len', 'range', 'int', 'float', 'bool', 'str', 'abs', 'sum', 'min', 'max', 'round', 'isinstance',
                'type', 'print', 'sorted', 'any', 'all', 'open', 'repr', 'hash', 'id', 'callable', 'divmod', 'pow',
                'ord', 'chr', 'format', 'complex', 'hasattr', 'issubclass', 'xrange', 'input', 'frozenset', 'bytes'}
# builtins whose result holds references to (the elements of) their arguments
BUILTIN_ALIAS = {'list', 'tuple', 'set', 'dict', 'enumerate', 'zip', 'reversed', 'iter', 'next', 'map', 'filter',
                 'getattr', 'vars'}
# ufuncs and friends accept their output array positionally: np.add(a, b, out), np.sqrt(a, out), np.clip(a, lo, hi, out)
OUT_POSITION = {**{u: 1 for u in ('abs', 'absolute', 'sqrt', 'square', 'exp', 'log', 'log2', 'log10', 'sign', 'ceil', 'floor', 'isnan',
                                  'isinf', 'isfinite', 'logical_not', 'cbrt', 'tanh', 'cos', 'sin', 'arctan', 'arccos', 'negative',
                                  'reciprocal', 'conj', 'rint', 'trunc', 'fabs')},
                **{u: 2 for u in ('add', 'subtract', 'multiply', 'divide', 'true_divide', 'floor_divide', 'power', 'mod', 'remainder',
                                  'maximum', 'minimum', 'logical_and', 'logical_or', 'logical_xor', 'matmul', 'dot', 'round', 'around',
                                  'cumsum', 'cumprod', 'take', 'fmax', 'fmin', 'hypot', 'arctan2', 'greater', 'less', 'equal', 'not_equal')},
                'clip': 3, 'choose': 2}
# reflection: the translator cannot see what these touch
FORBIDDEN_CALLS = {'exec', 'eval', 'compile', 'globals', 'locals', '__import__', 'setattr', 'delattr', 'memoryview'}
EXC_NAMES = {'BCTParamError', 'ValueError', 'KeyError', 'TypeError', 'NotImplementedError', 'ImportError',
             'IndexError', 'RuntimeError', 'Exception', 'AssertionError', 'ZeroDivisionError', 'StopIteration',
             'BibTeX', 'Doi', 'Url', 'Text'}
# methods that write into their receiver
METH_INPLACE = {'sort', 'fill', 'itemset', 'partition', 'resize', 'put', 'setflags', 'setfield', 'byteswap', 'append',
                'extend', 'insert', 'pop', 'remove', 'reverse', 'clear', 'update', 'add', 'discard', 'shuffle',
                'setdefault', 'popitem', '__setitem__', '__iadd__', '__imul__', 'sort_indices', 'eliminate_zeros',
                'setdiag', 'partial_fit', 'difference_update', 'intersection_update', 'symmetric_difference_update'}
# methods that also make the receiver hold a reference to the argument
METH_STORE = {'append', 'extend', 'insert', 'add', 'update', 'setdefault', '__setitem__'}
# methods whose result may share memory with the receiver
METH_VIEW = {'reshape', 'ravel', 'squeeze', 'view', 'transpose', 'swapaxes', 'diagonal', 'get', 'items', 'values',
             'keys', 'pop', 'popitem', 'setdefault', '__getitem__', 'conj', 'conjugate', 'newbyteorder', 'getfield',
             'item', 'base', 'getA', 'getA1', 'filled', 'compressed_view', 'todense_view'}
# methods that only read their receiver / arguments and return new memory
METH_PURE = {'copy', 'astype', 'flatten', 'tolist', 'sum', 'mean', 'max', 'min', 'any', 'all', 'nonzero', 'argsort',
             'argmax', 'argmin', 'cumsum', 'cumprod', 'dot', 'round', 'std', 'var', 'prod', 'trace', 'toarray', 'todense',
             'multiply', 'format', 'join', 'zfill', 'isdisjoint', 'union', 'intersection', 'difference', 'count', 'index',
             'startswith', 'endswith', 'lower', 'upper', 'strip', 'split', 'replace', 'rand', 'randint', 'random_sample',
             'permutation', 'choice', 'randn', 'random', 'normal', 'uniform', 'seed', 'get_state', 'pdf', 'cdf', 'map',
             'close', 'write', 'read', 'readlines', 'Pool', 'cpu_count', 'dirname', 'exists', 'loadmat', 'savemat',
             'emit', 'cite', 'dcite', 'glyph', 'scalar_scatter', 'vector_scatter', 'vectors', 'threshold', 'mode',
             'issubset', 'issuperset', 'tobytes', 'tostring', 'clip', 'repeat', 'take', 'compress', 'searchsorted',
             'encode', 'decode', 'ptp', 'is_integer', 'bit_length', 'terminate', 'figure', 'outer', 'flatten_copy'}
ATTR_NONARRAY = {'shape', 'size', 'ndim', 'dtype', 'nbytes', 'itemsize', 'flags', 'strides', 'name', '__name__', 'ON'}
ATTR_VIEW = {'T', 'flat', 'real', 'imag', 'base', 'data', 'A', 'A1', 'mask', 'H', 'I_view'}
# plotting back-ends: assumed to only read the data they are given (trusted, named in the evidence)
PURE_MODULE_ROOTS = {'mlab', 'plt'}
FANCY_INDEX_CALLS = {'where', 'ix_', 'nonzero', 'logical_and', 'logical_or', 'logical_not', 'argsort', 'arange',
                     'triu_indices', 'tril_indices', 'isnan', 'isinf', 'array', 'unique', 'setdiff1d', 'intersect1d',
                     'union1d', 'flatnonzero', 'range', 'list', 'permutation', 'lexsort', 'astype', 'isfinite'}
COPY_CALLS = {'copy', 'array', 'astype', 'flatten', 'deepcopy'}


class Unsupported(Exception):
    pass


# ----------------------------------------------------------------------------- command constructors
SKIP = ('Skip',)


def seq(cs):
    cs = [c for c in cs if c != SKIP]
    if not cs:
        return SKIP
    out = cs[-1]
    for c in reversed(cs[:-1]):
        out = ('Seq', c, out)
    return out


def choice(cs):
    out = cs[-1]
    for c in reversed(cs[:-1]):
        out = ('Choice', c, out)
    return out


def bind_from(x, A):
    """Bind x to anything the alias set A = (names, unknown) may denote."""
    S, u = A
    if u:
        return ('Bind', x, ('Unknown',))
    S = sorted(S)
    if not S:
        return ('Bind', x, ('Fresh',))
    return choice([('Bind', x, ('AliasOf', y)) for y in S])


def weak_bind(x, A):
    """x may additionally hold references into A (container store)."""
    S, u = A
    if not S and not u:
        return SKIP
    return ('Choice', bind_from(x, A), SKIP)


EMPTY = (frozenset(), False)
UNK = (frozenset(), True)


def aunion(*As):
    S, u = frozenset(), False
    for a in As:
        S |= a[0]
        u = u or a[1]
    return (S, u)


# ----------------------------------------------------------------------------- numpydoc parameter kinds
SCALAR_RE = re.compile(r'^\s*(int|integer|float|bool|boolean|str|string|enum|hashable|any|number|scalar|callable|function|none or enum|\{.*\})\b', re.I)
ARRAY_WORDS = re.compile(r'array|matrix|vector|list|tuple|\bN\s*x|\bNx|\bMx|x\s*N\b|dict|sequence|iterable', re.I)


def doc_kinds(doc):
    out = {}
    if not doc:
        return out
    lines = doc.split('\n')
    insec = False
    for i, l in enumerate(lines):
        s = l.strip()
        nxt = lines[i + 1].strip() if i + 1 < len(lines) else ''
        if s in ('Parameters', 'Inputs', 'Input') and nxt and set(nxt) <= set('-='):
            insec = True
            continue
        if insec and s in ('Returns', 'Notes', 'Note', 'Output', 'Outputs', 'References', 'Examples', 'Raises', 'See Also') \
                and nxt and set(nxt) <= set('-='):
            break
        if insec:
            m = re.match(r'^\s*([A-Za-z_][A-Za-z0-9_, ]*?)\s*:\s*(.*)$', l)
            if m:
                for nm in m.group(1).split(','):
                    out.setdefault(nm.strip(), m.group(2).strip())
    return out


def is_scalar_kind(ty):
    return bool(ty) and bool(SCALAR_RE.match(ty)) and not ARRAY_WORDS.search(ty)


def doc_dims(ty):
    """number of array dimensions the numpydoc type announces (1, 2, 3) or None"""
    if not ty or '|' in ty or ' or ' in ty:
        return None
    t = ty.replace(' ', '')
    m = re.match(r'^\(?([A-Za-z0-9]+)x([A-Za-z0-9]+)(x[A-Za-z0-9]+)?\)?(np\.|array|$)', t)
    if not m:
        return None
    if m.group(3):
        return 3
    if m.group(2) == '1':
        return 1          # bctpy convention: "Nx1" is a length-N vector
    return 2


# ----------------------------------------------------------------------------- scopes
class Fn:
    def __init__(self, node, module, parent, relpath):
        self.node, self.module, self.parent, self.relpath = node, module, parent, relpath
        self.name = node.name
        self.nested = {}
        a = node.args
        self.params = [x.arg for x in getattr(a, 'posonlyargs', [])] + [x.arg for x in a.args] + [x.arg for x in a.kwonlyargs]
        self.npos = len(getattr(a, 'posonlyargs', [])) + len(a.args)
        self.vararg = a.vararg.arg if a.vararg else None
        self.kwarg = a.kwarg.arg if a.kwarg else None
        if self.vararg:
            self.params.append(self.vararg)
        if self.kwarg:
            self.params.append(self.kwarg)
        defaults = {}
        pos = [x.arg for x in getattr(a, 'posonlyargs', [])] + [x.arg for x in a.args]
        for p, d in zip(pos[len(pos) - len(a.defaults):], a.defaults):
            defaults[p] = d
        for p, d in zip([x.arg for x in a.kwonlyargs], a.kw_defaults):
            if d is not None:
                defaults[p] = d
        self.defaults = defaults
        self.locals = set(self.params)
        self.loads = set()
        self.globals_decl = set()
        self.containers = set()
        self.stored = {}          # name -> number of binding statements
        self._scan(node.body)
        self.locals -= self.globals_decl
        self.fvs = []
        self.qname = None

    def _scan(self, stmts):
        for s in stmts:
            self._scan_node(s)

    def _scan_node(self, n):
        if isinstance(n, (ast.FunctionDef, ast.AsyncFunctionDef)):
            self.locals.add(n.name)
            self.nested[n.name] = Fn(n, self.module, self, self.relpath)
            for d in n.args.defaults + [d for d in n.args.kw_defaults if d is not None] + n.decorator_list:
                self._scan_node(d)
            return
        if isinstance(n, ast.Lambda):
            raise Unsupported('lambda')
        if isinstance(n, ast.ClassDef):
            raise Unsupported('nested class')
        if isinstance(n, (ast.Global, ast.Nonlocal)):
            self.globals_decl |= set(n.names)
            if isinstance(n, ast.Nonlocal):
                raise Unsupported('nonlocal')
        if isinstance(n, ast.Name):
            if isinstance(n.ctx, (ast.Store, ast.Del)):
                self.locals.add(n.id)
                self.stored[n.id] = self.stored.get(n.id, 0) + 1
            else:
                self.loads.add(n.id)
        if isinstance(n, (ast.Import, ast.ImportFrom)):
            for al in n.names:
                self.locals.add((al.asname or al.name).split('.')[0])
        if isinstance(n, ast.ExceptHandler) and n.name:
            self.locals.add(n.name)
        if isinstance(n, ast.Assign):
            v = n.value
            cont = isinstance(v, (ast.List, ast.Dict, ast.Set, ast.ListComp, ast.DictComp, ast.SetComp)) or \
                (isinstance(v, ast.Call) and isinstance(v.func, ast.Name) and v.func.id in ('list', 'dict', 'set', 'defaultdict', 'OrderedDict'))
            if cont:
                for t in n.targets:
                    if isinstance(t, ast.Name):
                        self.containers.add(t.id)
        if isinstance(n, (ast.ListComp, ast.SetComp, ast.DictComp, ast.GeneratorExp)):
            # comprehension targets are local to the comprehension (handled by substitution), not to the function
            comp_targets = set()
            for g in n.generators:
                for t in ast.walk(g.target):
                    if isinstance(t, ast.Name):
                        comp_targets.add(t.id)
            before_l, before_s = set(self.locals), dict(self.stored)
            for c in ast.iter_child_nodes(n):
                self._scan_node(c)
            for t in comp_targets:
                if t not in before_l:
                    self.locals.discard(t)
                if t in before_s:
                    self.stored[t] = before_s[t]
                else:
                    self.stored.pop(t, None)
            return
        for c in ast.iter_child_nodes(n):
            self._scan_node(c)

    def all_nested(self):
        for f in self.nested.values():
            yield f
            yield from f.all_nested()

    def enclosing_locals(self):
        out, p = set(), self.parent
        while p is not None:
            out |= p.locals
            p = p.parent
        return out

    def resolve_nested(self, name):
        """nested def visible from this scope under that name (or None)"""
        sc = self
        while sc is not None:
            if name in sc.locals:
                if name in sc.nested and sc.stored.get(name, 0) == 0:
                    return sc.nested[name]
                return None
            sc = sc.parent
        return None


def compute_fvs(top):
    fns = list(top.all_nested())
    fv = {f: set() for f in fns}
    changed = True
    while changed:
        changed = False
        for f in fns:
            s = set(f.loads)
            for h in f.nested.values():
                s |= fv[h]
            for nm in list(f.loads):
                h = f.resolve_nested(nm)
                if h is not None:
                    s |= fv[h]
            s -= f.locals
            s &= f.enclosing_locals()
            # names of nested defs are not variables
            s = {x for x in s if f.resolve_nested(x) is None}
            if s != fv[f]:
                fv[f] = s
                changed = True
    for f in fns:
        f.fvs = sorted(fv[f])


# ----------------------------------------------------------------------------- translation of one function
class Tr:
    def __init__(self, fn, world):
        self.fn, self.world = fn, world
        self.k = 0
        self.flagparam = 'copy' if ('copy' in fn.params and fn.stored.get('copy', 0) == 0 and fn.parent is None) else None
        self.loop_depth = 0
        self.line = fn.node.lineno
        self.root = fn
        while self.root.parent is not None:
            self.root = self.root.parent
        kinds = doc_kinds(ast.get_docstring(fn.node)) if fn.parent is None else {}
        self.dims = {p: doc_dims(kinds.get(p, '')) for p in fn.params if doc_dims(kinds.get(p, ''))}
        self.forwards = []        # (callee qname, formal, own parameter passed as is)

    def tmp(self, tag):
        self.k += 1
        return '$%s%d' % (tag, self.k)

    # ---- expressions: returns (cmds, alias set)
    def ev(self, e, sub):
        if e is None:
            return [], EMPTY
        if isinstance(e, ast.Constant) or isinstance(e, (ast.JoinedStr, ast.FormattedValue)):
            cs = []
            if isinstance(e, ast.JoinedStr):
                for v in e.values:
                    if isinstance(v, ast.FormattedValue):
                        c, _ = self.ev(v.value, sub)
                        cs += c
            return cs, EMPTY
        if isinstance(e, ast.Name):
            if e.id in sub:
                return [], sub[e.id]
            h = self.fn.resolve_nested(e.id)
            if h is not None:
                # a nested function used as a value: it may be called later by code we do not see
                return [('Choice', SKIP, ('Loop', seq(self.call_lifted(h, [], {}, sub, escaped=True)[0])))], EMPTY
            if e.id in MODULE_ROOTS or e.id in ('True', 'False', 'None'):
                return [], EMPTY
            return [], (frozenset([e.id]), False)
        if isinstance(e, (ast.BinOp,)):
            c1, _ = self.ev(e.left, sub)
            c2, _ = self.ev(e.right, sub)
            return c1 + c2, EMPTY
        if isinstance(e, ast.UnaryOp):
            c, _ = self.ev(e.operand, sub)
            return c, EMPTY
        if isinstance(e, ast.Compare):
            cs, _ = self.ev(e.left, sub)
            for x in e.comparators:
                c, _ = self.ev(x, sub)
                cs += c
            return cs, EMPTY
        if isinstance(e, ast.BoolOp):
            cs, A = [], EMPTY
            for x in e.values:
                c, a = self.ev(x, sub)
                cs += c
                A = aunion(A, a)
            return cs, A
        if isinstance(e, ast.IfExp):
            c0, _ = self.ev(e.test, sub)
            c1, a1 = self.ev(e.body, sub)
            c2, a2 = self.ev(e.orelse, sub)
            return c0 + c1 + c2, aunion(a1, a2)
        if isinstance(e, ast.Attribute):
            c, a = self.ev(e.value, sub)
            if e.attr in ATTR_NONARRAY:
                return c, EMPTY
            if isinstance(e.value, ast.Name) and e.value.id in MODULE_ROOTS and e.value.id not in sub:
                return c, EMPTY            # np.pi, np.inf, np.random, ...
            return c, a                    # .T, .flat, ... and any unknown attribute: may share memory
        if isinstance(e, ast.Subscript):
            c1, a = self.ev(e.value, sub)
            c2, _ = self.ev_index(e.slice, sub)
            return c1 + c2, (EMPTY if (self.is_fancy(e.slice) or self.is_element(e)) else a)
        if isinstance(e, ast.Starred):
            return self.ev(e.value, sub)
        if isinstance(e, (ast.Tuple, ast.List, ast.Set)):
            cs, A = [], EMPTY
            for x in e.elts:
                c, a = self.ev(x, sub)
                cs += c
                A = aunion(A, a)
            return cs, A
        if isinstance(e, ast.Dict):
            cs, A = [], EMPTY
            for x in list(e.keys) + list(e.values):
                if x is not None:
                    c, a = self.ev(x, sub)
                    cs += c
                    A = aunion(A, a)
            return cs, A
        if isinstance(e, (ast.ListComp, ast.SetComp, ast.GeneratorExp, ast.DictComp)):
            sub2 = dict(sub)
            pre, inner = [], []
            for g in e.generators:
                c, a = self.ev(g.iter, sub2)
                (pre if g is e.generators[0] else inner).extend(c)
                for t in ast.walk(g.target):
                    if isinstance(t, ast.Name):
                        sub2[t.id] = a
                for cond in g.ifs:
                    c, _ = self.ev(cond, sub2)
                    inner += c
            if isinstance(e, ast.DictComp):
                c1, a1 = self.ev(e.key, sub2)
                c2, a2 = self.ev(e.value, sub2)
                inner += c1 + c2
                A = aunion(a1, a2)
            else:
                c, A = self.ev(e.elt, sub2)
                inner += c
            # alias sets that mention comprehension-local temporaries are fine: temporaries are bound names
            body = seq(inner)
            return pre + ([('Loop', body)] if body != SKIP else []), A
        if isinstance(e, ast.Call):
            return self.ev_call(e, sub)
        if isinstance(e, ast.Slice):
            return self.ev_index(e, sub)
        if isinstance(e, ast.NamedExpr):
            c, a = self.ev(e.value, sub)
            return c + [bind_from(e.target.id, a)], a
        if isinstance(e, ast.Lambda):
            raise Unsupported('lambda')
        raise Unsupported('expression ' + type(e).__name__)

    def ev_index(self, ix, sub):
        cs = []
        if isinstance(ix, ast.Slice):
            for x in (ix.lower, ix.upper, ix.step):
                if x is not None:
                    c, _ = self.ev(x, sub)
                    cs += c
            return cs, EMPTY
        if isinstance(ix, ast.Tuple):
            for x in ix.elts:
                c, _ = self.ev_index(x, sub)
                cs += c
            return cs, EMPTY
        if hasattr(ast, 'Index') and isinstance(ix, ast.Index):     # py<3.9
            return self.ev_index(ix.value, sub)
        if hasattr(ast, 'ExtSlice') and isinstance(ix, ast.ExtSlice):
            for x in ix.dims:
                c, _ = self.ev_index(x, sub)
                cs += c
            return cs, EMPTY
        return self.ev(ix, sub)

    def is_fancy(self, ix):
        """index expressions that certainly select by array / mask (NumPy then copies)"""
        if hasattr(ast, 'Index') and isinstance(ix, ast.Index):
            return self.is_fancy(ix.value)
        if isinstance(ix, (ast.Compare, ast.List, ast.ListComp)):
            return True
        if isinstance(ix, ast.UnaryOp) and isinstance(ix.op, (ast.Invert, ast.Not)):
            return True
        if isinstance(ix, ast.Call):
            f = ix.func
            nm = f.attr if isinstance(f, ast.Attribute) else getattr(f, 'id', None)
            return nm in FANCY_INDEX_CALLS
        if isinstance(ix, ast.Tuple):
            return any(self.is_fancy(x) for x in ix.elts)
        return False

    def is_element(self, e):
        """e = P[i] / P[i, j] selects ONE element (a NumPy scalar, never a view): P is a parameter that is never
        re-bound, documented as a d-dimensional array, indexed by d indices none of which is a slice"""
        v = e.value
        if not isinstance(v, ast.Name) or v.id not in self.dims or self.root.stored.get(v.id, 0) != 0 or self.fn is not self.root:
            return False
        ix = e.slice
        if hasattr(ast, 'Index') and isinstance(ix, ast.Index):
            ix = ix.value
        elts = ix.elts if isinstance(ix, ast.Tuple) else [ix]
        if any(isinstance(x, (ast.Slice, ast.Starred)) or (isinstance(x, ast.Constant) and x.value in (None, Ellipsis)) for x in elts):
            return False
        return len(elts) == self.dims[v.id]

    def mutate(self, A):
        S, u = A
        cs = [('Mutate', y, self.line) for y in sorted(S)]
        if u:
            t = self.tmp('u')
            cs += [('Bind', t, ('Unknown',)), ('Mutate', t, self.line)]
        return cs

    def dotted(self, f):
        parts = []
        while isinstance(f, ast.Attribute):
            parts.append(f.attr)
            f = f.value
        if isinstance(f, ast.Name):
            parts.append(f.id)
            return list(reversed(parts))
        return None

    def ev_call(self, e, sub):
        f = e.func
        has_star = any(isinstance(a, ast.Starred) for a in e.args) or any(k.arg is None for k in e.keywords)
        # evaluate arguments first
        cs, argA, kwA = [], [], {}
        for a in e.args:
            c, A = self.ev(a, sub)
            cs += c
            argA.append(A)
        for k in e.keywords:
            c, A = self.ev(k.value, sub)
            cs += c
            kwA[k.arg] = A
        allA = aunion(EMPTY, *(argA + list(kwA.values())))
        # out= always writes
        if 'out' in kwA:
            cs += self.mutate(kwA['out'])

        def pessimistic(recvA=EMPTY):
            return cs + self.mutate(aunion(allA, recvA)), UNK

        if isinstance(f, ast.Name):
            nm = f.id
            if nm in FORBIDDEN_CALLS:
                raise Unsupported('call of ' + nm)
            if nm in sub:
                return pessimistic(sub[nm])
            h = self.fn.resolve_nested(nm)
            if h is not None:
                if has_star:
                    return pessimistic()
                c, A = self.call_lifted(h, e.args, {k.arg: k.value for k in e.keywords}, sub, pre=(argA, kwA))
                return cs + c, A
            if self.is_local_var(nm):
                return pessimistic((frozenset([nm]), False))      # call through a variable (callable parameter)
            tgt = self.world.resolve_function(self.fn.module, nm)
            if tgt is not None:
                if has_star:
                    return pessimistic()
                c, A = self.call_fn(tgt, e, argA, kwA)
                return cs + c, A
            if nm in BUILTIN_PURE or nm in EXC_NAMES or nm.endswith('Error') or nm.endswith('Exception') or nm.endswith('Warning'):
                return cs, EMPTY
            if nm in BUILTIN_ALIAS:
                return cs, allA
            return pessimistic()
        if isinstance(f, ast.Attribute):
            d = self.dotted(f)
            if d is not None and d[0] in MODULE_ROOTS and d[0] not in sub and not self.is_local_var(d[0]) or \
                    (d is not None and d[0] in MODULE_ROOTS and self.is_import_local(d[0])):
                last, tail2 = d[-1], '.'.join(d[-2:])
                if d[0] in PURE_MODULE_ROOTS:
                    return cs, EMPTY
                if last in NP_INPLACE:
                    return cs + (self.mutate(argA[0]) if argA else self.mutate(allA)), EMPTY
                if last in OUT_POSITION and len(argA) > OUT_POSITION[last]:
                    cs = cs + self.mutate(argA[OUT_POSITION[last]])        # positional out argument
                if tail2 in NP_PURE_DOTTED:
                    return cs, EMPTY
                if last in NP_VIEW:
                    return cs, allA
                if last == 'array' and 'copy' in kwA:
                    return cs, allA                     # np.array(x, copy=False)
                if last in NP_PURE:
                    return cs, EMPTY
                # a bct function reached through a module path (bct.utils.binarize, other.binarize)
                tgt = self.world.resolve_function(self.fn.module, last) if d[0] not in ('np', 'numpy') else None
                if tgt is not None and not has_star:
                    c, A = self.call_fn(tgt, e, argA, kwA)
                    return cs + c, A
                return pessimistic()
            # method call on a value
            c0, recvA = self.ev(f.value, sub)
            cs = c0 + cs
            m = f.attr
            if m == 'astype' and 'copy' in kwA:
                return cs, recvA
            if m == 'shuffle':
                return cs + self.mutate(aunion(recvA, allA)), EMPTY       # rng.shuffle(x) permutes x in place
            if m in OUT_POSITION and len(argA) > OUT_POSITION[m] - 1:
                cs = cs + self.mutate(argA[OUT_POSITION[m] - 1])          # a.dot(b, out), a.clip(lo, hi, out), ...
            if m in METH_INPLACE:
                extra = []
                if m in METH_STORE:
                    S, u = recvA
                    for y in sorted(S):
                        extra.append(weak_bind(y, allA))
                out = recvA if m in METH_VIEW else EMPTY
                return cs + self.mutate(recvA) + extra, out
            if m in METH_VIEW:
                return cs, aunion(recvA, allA) if m in ('get', 'setdefault') else recvA
            if m in METH_PURE:
                return cs, EMPTY
            return pessimistic(recvA)
        # call of a call result, subscripted callable, ...
        c0, A0 = self.ev(f, sub)
        cs = c0 + cs
        return pessimistic(A0)

    def is_local_var(self, nm):
        sc = self.fn
        while sc is not None:
            if nm in sc.locals:
                return not self.is_import_local(nm)
            sc = sc.parent
        return False

    def is_import_local(self, nm):
        """nm is bound in this function only by an import statement"""
        sc = self.fn
        while sc is not None:
            if nm in sc.locals:
                return sc.stored.get(nm, 0) == 0 and nm not in sc.params and nm not in sc.nested
            sc = sc.parent
        return False

    def bind_args(self, callee, args, kwargs, argA, kwA):
        """actual alias set for every formal of callee, or None if the call does not bind cleanly"""
        pos = callee.params[:callee.npos]
        got = {}
        if len(argA) > len(pos):
            if callee.vararg is None:
                return None
            got[callee.vararg] = aunion(EMPTY, *argA[len(pos):])
        for p, A in zip(pos, argA):
            got[p] = A
        for k, A in kwA.items():
            if k in got:
                return None
            if k in callee.params and k not in (callee.vararg, callee.kwarg):
                got[k] = A
            elif callee.kwarg is not None:
                got[callee.kwarg] = aunion(got.get(callee.kwarg, EMPTY), A)
            else:
                return None
        return got

    def flag_of(self, callee, e, kwargs_nodes, pos_nodes):
        if 'copy' not in callee.params or callee.parent is not None:
            return 'FTrue'
        node = None
        idx = callee.params.index('copy')
        if 'copy' in kwargs_nodes:
            node = kwargs_nodes['copy']
        elif idx < len(pos_nodes) and idx < callee.npos:
            node = pos_nodes[idx]
        else:
            node = callee.defaults.get('copy')
            if node is None:
                return 'FAny'
        if isinstance(node, ast.Constant) and node.value is True:
            return 'FTrue'
        if isinstance(node, ast.Constant) and node.value is False:
            return 'FFalse'
        if isinstance(node, ast.Name) and node.id == self.flagparam:
            return 'FSame'
        return 'FAny'

    def emit_call(self, qname, callee, got, fl, extra_names=()):
        cs, names = [], []
        for i, p in enumerate(callee.params):
            t = self.tmp('a')
            A = got.get(p, EMPTY)
            cs.append(bind_from(t, A))
            names.append(t)
            if len(A[0]) == 1 and not A[1] and next(iter(A[0])) in self.fn.params:
                self.forwards.append((qname, p, next(iter(A[0]))))
        names += list(extra_names)
        r = self.tmp('r')
        cs.append(('CallFn', r, qname, names, fl, self.line))
        return cs, (frozenset([r]), False)

    def call_fn(self, tgt, e, argA, kwA):
        got = self.bind_args(tgt, e.args, e.keywords, argA, kwA)
        if got is None:
            return self.mutate(aunion(EMPTY, *(argA + list(kwA.values())))), UNK
        fl = self.flag_of(tgt, e, {k.arg: k.value for k in e.keywords}, e.args)
        return self.emit_call(tgt.qname, tgt, got, fl)

    def call_lifted(self, h, args, kwargs, sub, pre=None, escaped=False):
        if escaped:
            got = {}
        else:
            argA, kwA = pre
            got = self.bind_args(h, args, kwargs, argA, kwA)
            if got is None:
                return self.mutate(aunion(EMPTY, *(argA + list(kwA.values())))), UNK
        if escaped:
            # unknown actuals: whatever the callee does to its own parameters is covered at the (pessimistic) call site
            pass
        return self.emit_call(h.qname, h, got, 'FTrue', extra_names=h.fvs)

    # ---- assignment targets
    def assign(self, t, A, sub, value=None):
        if isinstance(t, ast.Name):
            S, u = A
            if value is not None and len(S) == 1 and not u and self.is_copy_expr(value):
                return [('Bind', t.id, ('CopyOf', next(iter(S))))]
            return [bind_from(t.id, A)]
        if isinstance(t, (ast.Tuple, ast.List)):
            cs = []
            for x in t.elts:
                cs += self.assign(x, A, sub)
            return cs
        if isinstance(t, ast.Starred):
            return self.assign(t.value, A, sub)
        if isinstance(t, ast.Subscript):
            c1, baseA = self.ev(t.value, sub)
            c2, _ = self.ev_index(t.slice, sub)
            cs = c1 + c2 + self.mutate(baseA)
            # a Python container now holds a reference to the stored object
            root = t.value
            while isinstance(root, (ast.Subscript, ast.Attribute)):
                root = root.value
            if isinstance(root, ast.Name) and self.is_container(root.id):
                for y in sorted(baseA[0]):
                    cs.append(weak_bind(y, A))
            return cs
        if isinstance(t, ast.Attribute):
            c1, baseA = self.ev(t.value, sub)
            cs = c1 + self.mutate(baseA)
            for y in sorted(baseA[0]):
                cs.append(weak_bind(y, A))          # obj.attr = value : obj now refers to value
            return cs
        raise Unsupported('assignment target ' + type(t).__name__)

    def is_container(self, nm):
        sc = self.fn
        while sc is not None:
            if nm in sc.locals:
                return nm in sc.containers
            sc = sc.parent
        return False

    def is_copy_expr(self, v):
        """v is syntactically  <alias-expr>.copy() / np.array(<alias-expr>) / np.copy(...) / .astype(...)"""
        if isinstance(v, ast.Call):
            f = v.func
            nm = f.attr if isinstance(f, ast.Attribute) else getattr(f, 'id', None)
            return nm in COPY_CALLS
        return False

    def copy_source(self, v, sub):
        """alias set of the thing being copied, for the cosmetic CopyOf"""
        f = v.func
        if isinstance(f, ast.Attribute) and not (isinstance(f.value, ast.Name) and f.value.id in MODULE_ROOTS):
            return self.ev(f.value, sub)[1]
        if v.args:
            return self.ev(v.args[0], sub)[1]
        return EMPTY

    # ---- statements
    def block(self, stmts, sub):
        out = []
        for i, s in enumerate(stmts):
            out.append(self.stmt(s, sub))
            if self.loop_depth > 0 and self.has_jump(s):
                rest = self.block(stmts[i + 1:], sub)
                if rest != SKIP:
                    out.append(('Choice', rest, SKIP))     # after break / continue the rest of the body is skipped
                break
        return seq(out)

    def has_jump(self, s):
        """s contains a break/continue that targets the loop enclosing s"""
        if isinstance(s, (ast.Break, ast.Continue)):
            return True
        if isinstance(s, (ast.For, ast.While)):
            return any(self.has_jump(x) for x in s.orelse)
        if isinstance(s, (ast.FunctionDef, ast.ClassDef)):
            return False
        for fld in ('body', 'orelse', 'handlers', 'finalbody'):
            for x in getattr(s, fld, []) or []:
                if self.has_jump(x):
                    return True
        return False

    def flag_test(self, t):
        """+1: `copy`, -1: `not copy`, 0: not a test of the copy flag"""
        if self.flagparam is None:
            return 0
        if isinstance(t, ast.Name) and t.id == self.flagparam:
            return 1
        if isinstance(t, ast.UnaryOp) and isinstance(t.op, ast.Not) and isinstance(t.operand, ast.Name) and t.operand.id == self.flagparam:
            return -1
        if isinstance(t, ast.Compare) and len(t.ops) == 1 and isinstance(t.left, ast.Name) and t.left.id == self.flagparam \
                and isinstance(t.comparators[0], ast.Constant) and isinstance(t.comparators[0].value, bool):
            pos = isinstance(t.ops[0], (ast.Is, ast.Eq)) == t.comparators[0].value
            if isinstance(t.ops[0], (ast.Is, ast.Eq, ast.IsNot, ast.NotEq)):
                return 1 if pos else -1
        return 0

    def stmt(self, s, sub):
        self.line = getattr(s, 'lineno', self.line)
        if isinstance(s, ast.Assign):
            cs, A = self.ev(s.value, sub)
            if len(s.targets) == 1 and isinstance(s.targets[0], (ast.Tuple, ast.List)) and isinstance(s.value, (ast.Tuple, ast.List)) \
                    and len(s.targets[0].elts) == len(s.value.elts) \
                    and not any(isinstance(x, ast.Starred) for x in s.targets[0].elts + s.value.elts):
                # a, b = e1, e2 : evaluate every right-hand side first, then bind
                tmps = []
                cs = []
                for v in s.value.elts:
                    c, a = self.ev(v, sub)
                    t = self.tmp('t')
                    cs += c + [bind_from(t, a)]
                    tmps.append(t)
                for tg, t in zip(s.targets[0].elts, tmps):
                    cs += self.assign(tg, (frozenset([t]), False), sub)
                return seq(cs)
            for tg in s.targets:
                if isinstance(tg, ast.Name) and self.is_copy_expr(s.value):
                    src = self.copy_source(s.value, sub)
                    if len(src[0]) == 1 and not src[1] and A == EMPTY:
                        cs.append(('Bind', tg.id, ('CopyOf', next(iter(src[0])))))
                        continue
                cs += self.assign(tg, A, sub)
            return seq(cs)
        if isinstance(s, ast.AnnAssign):
            if s.value is None:
                return SKIP
            cs, A = self.ev(s.value, sub)
            return seq(cs + self.assign(s.target, A, sub))
        if isinstance(s, ast.AugAssign):
            cs, A = self.ev(s.value, sub)
            t = s.target
            if isinstance(t, ast.Name):
                cs += [('Mutate', t.id, self.line)]
                if self.is_container(t.id):
                    cs.append(weak_bind(t.id, A))
                return seq(cs)
            if isinstance(t, (ast.Subscript, ast.Attribute)):
                c1, baseA = self.ev(t.value, sub)
                c2 = self.ev_index(t.slice, sub)[0] if isinstance(t, ast.Subscript) else []
                return seq(cs + c1 + c2 + self.mutate(baseA))
            raise Unsupported('augassign target')
        if isinstance(s, ast.Expr):
            return seq(self.ev(s.value, sub)[0])
        if isinstance(s, ast.If):
            c0, _ = self.ev(s.test, sub)
            a, b = self.block(s.body, sub), self.block(s.orelse, sub)
            ft = self.flag_test(s.test)
            if ft == 1:
                return seq(c0 + [('IfFlag', a, b)])
            if ft == -1:
                return seq(c0 + [('IfFlag', b, a)])
            return seq(c0 + [('Choice', a, b)])
        if isinstance(s, (ast.For, ast.While)):
            if isinstance(s, ast.For):
                c0, A = self.ev(s.iter, sub)
                head = self.assign(s.target, A, sub)
            else:
                c0, head = [], self.ev(s.test, sub)[0]
            self.loop_depth += 1
            body = self.block(s.body, sub)
            self.loop_depth -= 1
            return seq(c0 + [('Loop', seq(head + [body]))] + [self.block(s.orelse, sub)])
        if isinstance(s, ast.With):
            cs = []
            for it in s.items:
                c, A = self.ev(it.context_expr, sub)
                cs += c
                if it.optional_vars is not None:
                    cs += self.assign(it.optional_vars, A, sub)
            return seq(cs + [self.block(s.body, sub)])
        if isinstance(s, ast.Try):
            if s.finalbody:
                raise Unsupported('try/finally')
            body = seq([self.block(s.body, sub), self.block(s.orelse, sub)])
            hs = []
            for h in s.handlers:
                pre = [('Bind', h.name, ('Fresh',))] if h.name else []
                if h.type is not None:
                    pre = self.ev(h.type, sub)[0] + pre
                hs.append(seq(pre + [self.block(h.body, sub)]))
            return ('Try', body, choice(hs) if hs else SKIP)
        if isinstance(s, ast.Return):
            if s.value is None:
                t = self.tmp('ret')
                return seq([('Bind', t, ('Fresh',)), ('Return', t)])
            cs, A = self.ev(s.value, sub)
            S, u = A
            outs = [('Return', y) for y in sorted(S)]
            if u:
                t = self.tmp('u')
                outs.append(seq([('Bind', t, ('Unknown',)), ('Return', t)]))
            if not outs:
                t = self.tmp('ret')
                outs = [seq([('Bind', t, ('Fresh',)), ('Return', t)])]
            return seq(cs + [choice(outs)])
        if isinstance(s, ast.Raise):
            cs = self.ev(s.exc, sub)[0] if s.exc is not None else []
            return seq(cs + [('Raise',)])
        if isinstance(s, ast.Assert):
            return seq(self.ev(s.test, sub)[0] + (self.ev(s.msg, sub)[0] if s.msg else []))
        if isinstance(s, ast.Delete):
            cs = []
            for t in s.targets:
                if isinstance(t, ast.Name):
                    cs.append(('Bind', t.id, ('Fresh',)))
                elif isinstance(t, (ast.Subscript, ast.Attribute)):
                    c, A = self.ev(t.value, sub)
                    cs += c + self.mutate(A)
                else:
                    raise Unsupported('del target')
            return seq(cs)
        if isinstance(s, (ast.Pass, ast.Break, ast.Continue, ast.Global, ast.Import, ast.ImportFrom)):
            return SKIP
        if isinstance(s, (ast.FunctionDef, ast.AsyncFunctionDef)):
            cs = []
            for d in s.args.defaults + [d for d in s.args.kw_defaults if d is not None]:
                cs += self.ev(d, sub)[0]
            return seq(cs)          # the body is lifted to its own fundef
        raise Unsupported('statement ' + type(s).__name__)

    def body(self):
        try:
            return self.block(self.fn.node.body, {}), None
        except Unsupported as ex:
            return seq([('Bind', '$u', ('Unknown',)), ('Mutate', '$u')]), str(ex)
        except RecursionError:
            return seq([('Bind', '$u', ('Unknown',)), ('Mutate', '$u')]), 'recursion limit'


# ----------------------------------------------------------------------------- the whole package
class World:
    def __init__(self, repo):
        self.repo = repo
        self.modules = {}      # relpath -> {name: Fn}
        self.public = []
        self.errors = []
        self.load()

    def load(self):
        root = os.path.join(self.repo, 'bct')
        paths = []
        for d, _, fs in sorted(os.walk(root)):
            for f in sorted(fs):
                if f.endswith('.py') and f not in SKIP_FILES:
                    paths.append(os.path.join(d, f))
        self.star = {}
        self.allnames = {}
        for p in sorted(paths):
            rel = os.path.relpath(p, self.repo)
            try:
                tree = ast.parse(open(p).read())
            except SyntaxError as ex:
                self.errors.append('%s: %s' % (rel, ex))
                continue
            fns = {}
            stars = []
            dunder_all = None
            for n in tree.body:
                if isinstance(n, ast.FunctionDef):
                    try:
                        fns[n.name] = Fn(n, rel, None, rel)
                    except Unsupported as ex:
                        fns[n.name] = ('unsupported', n, str(ex))
                elif isinstance(n, ast.ImportFrom) and any(a.name == '*' for a in n.names):
                    stars.append((n.level, n.module))
                elif isinstance(n, ast.Assign) and any(isinstance(t, ast.Name) and t.id == '__all__' for t in n.targets):
                    try:
                        dunder_all = list(ast.literal_eval(n.value))
                    except Exception:
                        dunder_all = None
            self.modules[rel] = fns
            self.star[rel] = stars
            self.allnames[rel] = dunder_all
        # unsupported top-level functions: keep a stub Fn so that callers resolve (their body is rejected)
        for rel, fns in self.modules.items():
            for k, v in list(fns.items()):
                if isinstance(v, tuple):
                    stub = Fn.__new__(Fn)
                    node = v[1]
                    stub.node, stub.module, stub.parent, stub.relpath, stub.name = node, rel, None, rel, node.name
                    stub.nested = {}
                    a = node.args
                    stub.params = [x.arg for x in a.args] + [x.arg for x in a.kwonlyargs]
                    stub.npos = len(a.args)
                    stub.vararg = stub.kwarg = None
                    stub.defaults, stub.locals, stub.loads = {}, set(stub.params), set()
                    stub.globals_decl, stub.containers, stub.stored, stub.fvs = set(), set(), {}, []
                    stub.unsupported = v[2]
                    fns[k] = stub
        # qualified names: public functions keep their plain name
        self.public = self.public_names()
        taken = set(self.public)
        self.byq = {}
        for rel in sorted(self.modules):
            mod = os.path.splitext(os.path.basename(rel))[0]
            for nm in sorted(self.modules[rel]):
                fn = self.modules[rel][nm]
                if nm in self.public and self.public[nm] == rel:
                    q = nm
                else:
                    q = mod + '.' + nm
                    while q in self.byq or q in taken:
                        q = '_' + q
                fn.qname = q
                self.byq[q] = fn
                if not hasattr(fn, 'unsupported'):
                    compute_fvs(fn)
                    for h in fn.all_nested():
                        path, p = [h.name], h.parent
                        while p is not None:
                            path.append(p.qname if p.parent is None else p.name)
                            p = p.parent
                        h.qname = '.'.join(reversed(path))
                        self.byq[h.qname] = h

    def resolve_rel(self, rel, level, module):
        base = os.path.dirname(rel)
        for _ in range(max(level - 1, 0)):
            base = os.path.dirname(base)
        if level == 0:
            base = ''
        parts = (module or '').split('.') if module else []
        cand = os.path.join(base, *parts)
        if cand + '.py' in self.modules:
            return cand + '.py'
        if os.path.join(cand, '__init__.py') in self.modules:
            return os.path.join(cand, '__init__.py')
        return None

    def exported(self, rel, seen=None):
        """name -> defining module, for `from rel import *`"""
        seen = seen or set()
        if rel in seen or rel not in self.modules:
            return {}
        seen.add(rel)
        out = {}
        for level, module in self.star[rel]:
            tgt = self.resolve_rel(rel, level, module)
            if tgt:
                out.update(self.exported(tgt, seen))
        for nm in self.modules[rel]:
            out[nm] = rel
        allow = self.allnames[rel]
        if allow is not None:
            out = {k: v for k, v in out.items() if k in allow}
        else:
            out = {k: v for k, v in out.items() if not k.startswith('_')}
        return out

    def public_names(self):
        init = os.path.join('bct', '__init__.py')
        if init not in self.modules:
            self.errors.append('bct/__init__.py not found')
            return {}
        return self.exported(init)

    def resolve_function(self, rel, nm):
        """a top-level bct function visible under the bare name nm from module rel"""
        if nm in self.modules.get(rel, {}):
            return self.modules[rel][nm]
        cands = [r for r in sorted(self.modules) if nm in self.modules[r]]
        if not cands:
            return None
        if nm in self.public:
            return self.modules[self.public[nm]][nm]
        return self.modules[cands[0]][nm]

    def translate(self):
        """-> list of fundef dicts (sorted by name), before summaries"""
        funs = []
        for q in sorted(self.byq):
            fn = self.byq[q]
            forwards = []
            if hasattr(fn, 'unsupported'):
                body, err = seq([('Bind', '$u', ('Unknown',)), ('Mutate', '$u')]), fn.unsupported
            else:
                tr = Tr(fn, self)
                body, err = tr.body()
                forwards = tr.forwards
            kinds = doc_kinds(ast.get_docstring(fn.node)) if fn.parent is None else {}
            params = list(fn.params) + list(fn.fvs)
            # library convention: `seed` is a hashable / RandomState, also where the docstring forgets it
            arr = [p for p in params if not (is_scalar_kind(kinds.get(p, '')) or (p == 'seed' and p not in kinds))]
            undocumented = [p for p in fn.params if p not in kinds] if fn.parent is None else []
            is_pub = fn.parent is None and self.public.get(fn.name) == fn.relpath and fn.qname == fn.name
            util = is_pub and fn.relpath.replace(os.sep, '/').endswith('utils/other.py') and 'copy' in fn.params
            funs.append({'name': q, 'params': params, 'arr': arr, 'mut_t': [], 'mut_f': [], 'ret_t': False, 'ret_f': False,
                         'public': bool(is_pub), 'copyutil': bool(util), 'contract': False, 'body': body,
                         'file': fn.relpath.replace(os.sep, '/'), 'line': fn.node.lineno, 'error': err,
                         'forwards': forwards, 'undocumented': undocumented})
        # kind inference by forwarding: an UNDOCUMENTED parameter handed as is to a formal that the callee documents
        # as a scalar is a scalar
        byname = {fd['name']: fd for fd in funs}
        changed = True
        while changed:
            changed = False
            for fd in funs:
                for (callee, formal, own) in fd['forwards']:
                    cd = byname.get(callee)
                    if cd is not None and own in fd['undocumented'] and own in fd['arr'] and formal in cd['params'] and formal not in cd['arr']:
                        fd['arr'].remove(own)
                        changed = True
        return funs


# ----------------------------------------------------------------------------- Python mirror of the Coq checker
def mb(c):
    k = c[0]
    if k == 'Bind':
        return [c[1]] if c[2][0] in ('AliasOf', 'Unknown') else []
    if k == 'CallFn':
        return [c[1]]
    if k in ('Seq', 'Choice', 'IfFlag', 'Try'):
        return mb(c[1]) + mb(c[2])
    if k == 'Loop':
        return mb(c[1])
    return []


def bound(c):
    k = c[0]
    if k in ('Bind', 'CallFn'):
        return [c[1]]
    if k in ('Seq', 'Choice', 'IfFlag', 'Try'):
        return bound(c[1]) + bound(c[2])
    if k == 'Loop':
        return bound(c[1])
    return []


def flags_of(fl, cur):
    return {'FTrue': [True], 'FFalse': [False], 'FSame': [cur], 'FAny': [True, False]}[fl]


def protected(fd, b):
    m = fd['mut_t'] if b else fd['mut_f']
    return frozenset(p for p in fd['arr'] if p not in m)


def args_ok(T, Tc, ps, args):
    return all((a not in T) or (p in Tc) for p, a in zip(ps, args))


BLAME = None


def blame(prog, fd, T, cur):
    """why does the checker reject fd's body from T?  -> list of (line, reason)"""
    global BLAME
    BLAME = []
    try:
        ai(prog, fd['body'], frozenset(T), cur)
        return sorted(set(BLAME))
    finally:
        BLAME = None


def ai(prog, c, T, cur):
    """mirror of may_alias_params: None = reject, else (T', R)"""
    k = c[0]
    if k in ('Skip', 'Raise'):
        return T, False
    if k == 'Bind':
        x, r = c[1], c[2]
        if r[0] in ('Fresh', 'CopyOf'):
            return T - {x}, False
        if r[0] == 'AliasOf':
            return (T | {x}) if r[1] in T else (T - {x}), False
        return T | {x}, False
    if k == 'Mutate':
        if c[1] in T and BLAME is not None:
            BLAME.append((c[2] if len(c) > 2 else 0, 'writes through %s' % c[1]))
        return None if c[1] in T else (T, False)
    if k == 'Return':
        return T, c[1] in T
    if k == 'CallFn':
        _, x, f, args, fl = c[:5]
        fd = prog.get(f)
        if fd is None:
            if BLAME is not None:
                BLAME.append((c[5] if len(c) > 5 else 0, 'call of %s, which no summary validates' % f))
            return None
        fls = flags_of(fl, cur)
        if not all(args_ok(T, protected(fd, b), fd['params'], args) for b in fls):
            if BLAME is not None:
                bad = [p for b in fls for p, a in zip(fd['params'], args) if a in T and p not in protected(fd, b)]
                BLAME.append((c[5] if len(c) > 5 else 0, 'passes a caller array to %s, which writes its parameter %s' % (f, '/'.join(sorted(set(bad))))))
            return None
        ret = any((fd['ret_t'] if b else fd['ret_f']) for b in fls)
        return ((T | {x}) if ret else (T - {x})), False
    if k == 'Seq':
        r1 = ai(prog, c[1], T, cur)
        if r1 is None:
            return None
        r2 = ai(prog, c[2], r1[0], cur)
        if r2 is None:
            return None
        return r2[0], r1[1] or r2[1]
    if k == 'Choice':
        r1, r2 = ai(prog, c[1], T, cur), ai(prog, c[2], T, cur)
        if r1 is None or r2 is None:
            return None
        return r1[0] | r2[0], r1[1] or r2[1]
    if k == 'IfFlag':
        return ai(prog, c[1] if cur else c[2], T, cur)
    if k == 'Loop':
        fuel = len(mb(c[1])) + 2
        while fuel > 0:
            r = ai(prog, c[1], T, cur)
            if r is None:
                return None
            if r[0] <= T:
                return T, r[1]
            T = r[0] | T
            fuel -= 1
        return None
    if k == 'Try':
        r1 = ai(prog, c[1], T, cur)
        r2 = ai(prog, c[2], T | frozenset(mb(c[1])), cur)
        if r1 is None or r2 is None:
            return None
        return r1[0] | r2[0], r1[1] or r2[1]
    raise ValueError(k)


def must_alias(prog, c, M, cur):
    k = c[0]
    if k in ('Skip', 'Mutate', 'Raise'):
        return M
    if k == 'Bind':
        x, r = c[1], c[2]
        if r[0] == 'AliasOf':
            return (M | {x}) if r[1] in M else (M - {x})
        return M - {x}
    if k == 'CallFn':
        _, x, f, args, fl = c[:5]
        fd = prog.get(f)
        if fd is not None and args and args[0] in M and fd['contract'] and not any(flags_of(fl, cur)):
            return M | {x}
        return M - {x}
    if k == 'Return':
        return M if c[1] in M else None
    if k == 'Seq':
        m1 = must_alias(prog, c[1], M, cur)
        return None if m1 is None else must_alias(prog, c[2], m1, cur)
    if k == 'Choice':
        m1, m2 = must_alias(prog, c[1], M, cur), must_alias(prog, c[2], M, cur)
        return None if m1 is None or m2 is None else m1 & m2
    if k == 'IfFlag':
        return must_alias(prog, c[1] if cur else c[2], M, cur)
    if k == 'Loop':
        M2 = M - frozenset(bound(c[1]))
        return None if must_alias(prog, c[1], M2, cur) is None else M2
    if k == 'Try':
        m1 = must_alias(prog, c[1], M, cur)
        m2 = must_alias(prog, c[2], M - frozenset(bound(c[1])), cur)
        return None if m1 is None or m2 is None else m1 & m2
    raise ValueError(k)


def always_returns(c, cur):
    k = c[0]
    if k in ('Return', 'Raise'):
        return True
    if k == 'Seq':
        return always_returns(c[1], cur) or always_returns(c[2], cur)
    if k == 'Choice':
        return always_returns(c[1], cur) and always_returns(c[2], cur)
    if k == 'IfFlag':
        return always_returns(c[1] if cur else c[2], cur)
    if k == 'Try':
        return always_returns(c[1], cur) and always_returns(c[2], cur)
    return False


def check_body(prog, fd):
    for b in (True, False):
        r = ai(prog, fd['body'], protected(fd, b), b)
        if r is None or (r[1] and not (fd['ret_t'] if b else fd['ret_f'])):
            return False
    return True


def check_contract(prog, fd):
    if not fd['contract']:
        return True
    if not fd['params']:
        return False
    return must_alias(prog, fd['body'], frozenset([fd['params'][0]]), False) is not None and always_returns(fd['body'], False)


def check_decl(fd):
    return (not fd['public']) or (not fd['mut_t'] and (not fd['mut_f'] or fd['copyutil']))


def infer_summaries(funs):
    """least summaries (fmut, fret, fcontract) under which every body passes the checker; functions for which no
    summary works (they write through Unknown) are returned separately and left out of the program."""
    prog = {fd['name']: fd for fd in funs}
    hopeless = {}
    changed = True
    rounds = 0
    while changed:
        changed = False
        rounds += 1
        for fd in funs:
            if fd['name'] in hopeless:
                continue
            for b in (True, False):
                key_m, key_r = ('mut_t', 'ret_t') if b else ('mut_f', 'ret_f')
                if ai(prog, fd['body'], frozenset(), b) is None:
                    hopeless[fd['name']] = 'writes through a name that may point anywhere (flag=%s)' % b
                    del prog[fd['name']]
                    changed = True
                    break
                mut = [p for p in fd['arr'] if p in fd[key_m] or ai(prog, fd['body'], frozenset([p]), b) is None]
                if mut != fd[key_m]:
                    fd[key_m] = mut
                    changed = True
                r = ai(prog, fd['body'], protected(fd, b), b)
                if r is None:
                    # not distributive here (should not happen): give up on every array parameter
                    fd[key_m] = list(fd['arr'])
                    changed = True
                    r = ai(prog, fd['body'], protected(fd, b), b)
                if r is not None and r[1] and not fd[key_r]:
                    fd[key_r] = True
                    changed = True
        if rounds > 50:
            raise RuntimeError('summary inference does not converge')
    # contracts (greatest fixpoint: start by claiming every utility, drop the ones the mirror refuses)
    for fd in funs:
        fd['contract'] = bool(fd['copyutil']) and fd['name'] in prog
    changed = True
    while changed:
        changed = False
        for fd in funs:
            if fd['contract'] and not check_contract(prog, fd):
                fd['contract'] = False
                changed = True
    kept = [fd for fd in funs if fd['name'] in prog]
    return kept, hopeless


# ----------------------------------------------------------------------------- Coq / driver output
def q(s):
    return '"' + s.replace('"', '""') + '"'


def qlist(xs):
    return '[' + '; '.join(q(x) for x in xs) + ']'


def coq_cmd(c, ind=2):
    k = c[0]
    if k == 'Skip':
        return 'Skip'
    if k == 'Raise':
        return 'Raise'
    if k == 'Bind':
        r = c[2]
        rs = {'Fresh': 'Fresh', 'Unknown': 'Unknown'}.get(r[0]) or '(%s %s)' % (r[0], q(r[1]))
        return '(Bind %s %s)' % (q(c[1]), rs)
    if k == 'Mutate':
        return '(Mutate %s)' % q(c[1])
    if k == 'Return':
        return '(Return %s)' % q(c[1])
    if k == 'CallFn':
        return '(CallFn %s %s %s %s)' % (q(c[1]), q(c[2]), qlist(c[3]), c[4])
    if k == 'Loop':
        return '(Loop\n%s%s)' % (' ' * ind, coq_cmd(c[1], ind + 1))
    if k == 'Seq':
        # flatten right-nested sequences for readability
        items = []
        while c[0] == 'Seq':
            items.append(c[1])
            c = c[2]
        items.append(c)
        s = coq_cmd(items[-1], ind + 1)
        for it in reversed(items[:-1]):
            s = '(Seq %s\n%s%s)' % (coq_cmd(it, ind + 1), ' ' * ind, s)
        return s
    return '(%s %s\n%s%s)' % (k, coq_cmd(c[1], ind + 1), ' ' * ind, coq_cmd(c[2], ind + 1))


def b(x):
    return 'true' if x else 'false'


def coq_fundef(fd):
    return '(mkfun %s %s %s %s %s %s %s %s %s %s\n  %s)' % (
        q(fd['name']), qlist(fd['params']), qlist(fd['arr']), qlist(fd['mut_t']), qlist(fd['mut_f']),
        b(fd['ret_t']), b(fd['ret_f']), b(fd['public']), b(fd['copyutil']), b(fd['contract']), coq_cmd(fd['body'], 3))


def ser_cmd(c, out):
    k = c[0]
    if k == 'Skip':
        out.append('S')
    elif k == 'Raise':
        out.append('X')
    elif k == 'Bind':
        r = c[2]
        out += ['B', c[1], {'Fresh': 'F', 'CopyOf': 'C', 'AliasOf': 'A', 'Unknown': 'U'}[r[0]]] + ([r[1]] if len(r) > 1 else [])
    elif k == 'Mutate':
        out += ['M', c[1]]
    elif k == 'Return':
        out += ['R', c[1]]
    elif k == 'CallFn':
        out += ['K', c[1], c[2], str(len(c[3]))] + list(c[3]) + [c[4]]
    elif k == 'Loop':
        out.append('L')
        ser_cmd(c[1], out)
    else:
        out.append({'Seq': 'Q', 'Choice': 'C', 'IfFlag': 'I', 'Try': 'T'}[k])
        ser_cmd(c[1], out)
        ser_cmd(c[2], out)


def serialise(funs):
    """one line for ocaml/drv_c13: check <n> <fundef>*"""
    out = ['check', str(len(funs))]
    for fd in funs:
        out.append(fd['name'])
        for key in ('params', 'arr', 'mut_t', 'mut_f'):
            out += [str(len(fd[key]))] + list(fd[key])
        out += ['1' if fd[k] else '0' for k in ('ret_t', 'ret_f', 'public', 'copyutil', 'contract')]
        ser_cmd(fd['body'], out)
    return ' '.join(out)


def cmd_size(c):
    return 1 + sum(cmd_size(x) for x in c[1:] if isinstance(x, tuple) and x and isinstance(x[0], str) and x[0] in
                   ('Skip', 'Raise', 'Bind', 'Mutate', 'Return', 'CallFn', 'Loop', 'Seq', 'Choice', 'IfFlag', 'Try'))


def analyse(repo):
    """-> dict(funs (kept, with summaries), hopeless{name: why}, flagged[names], errors, public{name: file})"""
    sys.setrecursionlimit(max(sys.getrecursionlimit(), 20000))
    w = World(repo)
    funs = w.translate()
    kept, hopeless = infer_summaries(funs)
    prog = {fd['name']: fd for fd in kept}
    flagged = sorted(fd['name'] for fd in kept if not (check_body(prog, fd) and check_contract(prog, fd) and check_decl(fd)))
    return {'funs': kept, 'all': funs, 'hopeless': hopeless, 'flagged': flagged, 'errors': w.errors,
            'public': dict(w.public), 'untranslatable': {fd['name']: fd['error'] for fd in funs if fd['error']}}


def render(res, repo):
    funs, flagged, hopeless = res['funs'], res['flagged'], res['hopeless']
    L = []
    L.append('(* Gen/Alias.v — GENERATED by harness/translate_alias.py from the bct sources on every run. DO NOT EDIT.')
    L.append('   %d functions (%d public), %d flagged by the checker, %d left out (no summary validates them). *)'
             % (len(funs), sum(1 for f in funs if f['public']), len(flagged), len(hopeless)))
    L.append('From Coq Require Import List String Bool.')
    L.append('From BCT Require Import Model.AliasLang.')
    L.append('Import ListNotations.')
    L.append('Open Scope string_scope.')
    L.append('')
    for i, fd in enumerate(funs):
        L.append('(* %s  %s:%d%s *)' % (fd['name'], fd['file'], fd['line'], ('  UNTRANSLATABLE: ' + fd['error'].replace('*)', '* )')) if fd['error'] else ''))
        L.append('Definition fn_%d : fundef :=\n %s.' % (i, coq_fundef(fd)))
        L.append('')
    L.append('(* every function, with the summary the translator guessed for it *)')
    L.append('Definition all_functions : list fundef :=\n  [' + ';\n   '.join('fn_%d' % i for i in range(len(funs))) + '].')
    L.append('')
    L.append('Definition flagged_names : list name := %s.' % qlist(flagged))
    for nm, why in sorted(hopeless.items()):
        L.append('(* LEFT OUT: %s — %s *)' % (nm, why))
    L.append('Definition left_out : list name := %s.' % qlist(sorted(hopeless)))
    L.append('Definition program : list fundef := filter (fun fd => negb (mem (fname fd) flagged_names)) all_functions.')
    L.append('Definition flagged : list fundef := filter (fun fd => mem (fname fd) flagged_names) all_functions.')
    L.append('')
    L.append('(* the guessed summaries are verified against the bodies by the Coq checker *)')
    L.append('Example summaries_verified : summaries_ok all_functions = true.')
    L.append('Proof. vm_compute. reflexivity. Qed.')
    L.append('')
    L.append('(* every function that is not flagged is accepted: public ones write no parameter (copy utilities: only under copy=False) *)')
    L.append('Example all_pure : forallb (check all_functions) program = true.')
    L.append('Proof. vm_compute. reflexivity. Qed.')
    L.append('')
    L.append('(* the same, stated without filter (used by Properties/C13.v) *)')
    L.append('Example all_unflagged_pure :')
    L.append('  forallb (fun fd => mem (fname fd) flagged_names || check all_functions fd) all_functions = true.')
    L.append('Proof. vm_compute. reflexivity. Qed.')
    L.append('')
    L.append('(* the flagged ones are really rejected by the checker (they are reported by the harness) *)')
    L.append('Example flagged_rejected : forallb (fun fd => negb (check all_functions fd)) flagged = true.')
    L.append('Proof. vm_compute. reflexivity. Qed.')
    L.append('')
    L.append('Example flagged_count : List.length flagged = %d.' % len(flagged))
    L.append('Proof. vm_compute. reflexivity. Qed.')
    L.append('')
    return '\n'.join(L)


def generate(repo, coqdir, write=True):
    res = analyse(repo)
    txt = render(res, repo)
    path = os.path.join(coqdir, 'theories', 'Gen', 'Alias.v')
    if write:
        os.makedirs(os.path.dirname(path), exist_ok=True)
        old = open(path).read() if os.path.exists(path) else None
        if old != txt:
            with open(path + '.tmp', 'w') as f:
                f.write(txt)
            os.replace(path + '.tmp', path)
    res['path'] = path
    res['sha1'] = hashlib.sha1(txt.encode()).hexdigest()
    return res


if __name__ == '__main__':
    repo = sys.argv[1] if len(sys.argv) > 1 else os.environ.get('VERIF_REPO', '/repo')
    here = os.path.dirname(os.path.dirname(os.path.abspath(__file__)))
    r = generate(repo, os.path.join(here, 'coq'), write='--dry' not in sys.argv)
    print('functions', len(r['funs']), 'public', sum(1 for f in r['funs'] if f['public']))
    print('flagged', r['flagged'])
    print('left out', r['hopeless'])
    print('untranslatable', r['untranslatable'])
    print('errors', r['errors'])
    for fd in r['funs']:
        if fd['mut_t'] or fd['mut_f'] or fd['ret_t'] or fd['ret_f']:
            print('  summary', fd['name'], 'mut_t', fd['mut_t'], 'mut_f', fd['mut_f'], 'ret', fd['ret_t'], fd['ret_f'], 'contract', fd['contract'])
