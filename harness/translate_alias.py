"""C13 — fail-closed Python-`ast` translator: bct source  ->  programs of Model/AliasLang.v (Gen/Alias.v).

Every function reachable from the bct namespace (public functions, the private helpers they call, lambda-lifted nested
defs, and bct/nbs_parallel.py) becomes one `fundef`.  The translation is purely SYNTACTIC (which names an expression may
share memory with; which statements write through a name); all flow-sensitive reasoning is done by the Coq checker
`may_alias_params`, of which `ai` below is a line-by-line Python mirror used only to GUESS the summaries (fmut / fret /
fcontract) that Coq then verifies (`summaries_ok`) on every run.

Fail-closed rules
  * an expression whose aliasing is not understood evaluates to Unknown (may point anywhere);
  * a call is trusted only if the routine is WHITELISTED below and the call has the shape the entry was verified for (at
    most `arity` positional arguments, benign keywords only); `copy=` (not literally True), `out=`, `overwrite_*=`,
    `inplace=` are honoured for every routine; anything else writes (Mutate) through every name its arguments / receiver
    may alias, and returns Unknown;
  * a parameter documented as a scalar that the body writes through BY NAME (`itr *= k`), or hands as is to a callee that
    does, is an array (`promoted`); Gen/Alias.v also carries the program in which the numpydoc kind is believed (`_ds`);
  * an unsupported statement makes the whole function body `Bind $u Unknown; Mutate $u` (always rejected).
`corpus_check` (harness/translate_alias_corpus) and `table_selfcheck` pin these rules; c13.py runs both at every check.
"""
import ast, os, re, sys, json, hashlib

SKIP_FILES = ('citations.py', 'due.py', 'version.py', '_verif.py')

# ----------------------------------------------------------------------------- classification tables
# WHITELISTS.  A call is trusted (does not write, result shares / does not share memory as the table says) only when the
# routine is in a table below AND the call has the shape the entry was verified for: at most `arity` positional arguments
# (PURE_ARITY / METH_ARITY; positional `out`, `copy`, `overwrite_a` parameters lie beyond it) and only keywords of BENIGN_KW.
# `out=`, `copy=<not True>`, `overwrite_*=`, `inplace=` are honoured generically for EVERY routine (listed or not).  Anything
# else - unknown routine, unknown keyword, too many positional arguments, unknown module alias, a path through an unknown
# sub-namespace (np.ndarray.sort, np.ma.array) - is pessimistic: it writes through every argument / the receiver and returns
# Unknown.  harness/translate_alias_corpus pins the behaviour (run at every check), and table_selfcheck() compares the arities
# with the signatures of the installed NumPy / SciPy.
# module-level NumPy / SciPy routines that write into their first argument
NP_INPLACE = {'fill_diagonal', 'put', 'place', 'putmask', 'copyto', 'shuffle', 'put_along_axis', 'setdiff1d_inplace'}
# routines whose result may share memory with an array argument (they do not write)
NP_VIEW = {'asarray', 'asanyarray', 'ascontiguousarray', 'asfortranarray', 'atleast_1d', 'atleast_2d', 'atleast_3d',
           'squeeze', 'reshape', 'ravel', 'transpose', 'swapaxes', 'moveaxis', 'rollaxis', 'real', 'imag', 'diagonal',
           'diag', 'broadcast_to', 'expand_dims', 'masked_array', 'asmatrix', 'mat', 'matrix', 'nditer', 'flatiter',
           'split', 'array_split', 'hsplit', 'vsplit', 'dsplit', 'flip', 'fliplr', 'flipud', 'rot90', 'trim_zeros',
           'nan_to_num_view', 'require', 'broadcast_arrays', 'view', 'real_if_close',
           # np.float64(a) IS a when a is already a float64 array; the same for every scalar-type constructor
           'uint8', 'uint16', 'uint32', 'uint64', 'int8', 'int16', 'int32', 'int64', 'intp', 'float16', 'float32', 'float64',
           'complex64', 'complex128', 'bool_', 'int_', 'float_', 'double', 'single',
           'ix_',                       # np.ix_(idx)[0] is a reshaped view of idx
           'masked_where', 'masked_invalid', 'masked_equal', 'getdata', 'getmask', 'filled',   # np.ma.*: share unless copy=True
           'csc_matrix', 'csr_matrix', 'coo_matrix', 'lil_matrix',       # (data, indices, indptr) are adopted without a copy
           'product', 'combinations', 'permutations', 'chain', 'islice', 'cycle', 'tee', 'zip_longest',   # itertools: same objects
           'array_copyless'}
# routines that only read their arguments and return new memory -> number of leading positional arguments this is known for
PURE_ARITY = {
    # constructors / shape queries
    'array': 2, 'arange': 4, 'zeros': 3, 'ones': 3, 'empty': 3, 'full': 4, 'eye': 5, 'identity': 2, 'zeros_like': 2,
    'ones_like': 2, 'empty_like': 2, 'full_like': 3, 'linspace': 4, 'logspace': 4, 'meshgrid': 9, 'fromiter': 3, 'copy': 2,
    'diagflat': 2, 'toeplitz': 2, 'tril': 2, 'triu': 2, 'tril_indices': 3, 'triu_indices': 3, 'unravel_index': 3,
    'ndim': 1, 'shape': 1, 'size': 2, 'isscalar': 1, 'issubdtype': 2, 'tile': 2, 'repeat': 3, 'roll': 3, 'delete': 3, 'append': 3,
    'concatenate': 2, 'stack': 2, 'hstack': 1, 'vstack': 1, 'dstack': 1, 'kron': 2, 'outer': 2, 'inner': 2, 'dot': 2, 'matmul': 2,
    # unary element-wise (a positional second argument is `out`)
    'abs': 1, 'absolute': 1, 'arccos': 1, 'ceil': 1, 'floor': 1, 'exp': 1, 'log': 1, 'log2': 1, 'log10': 1, 'sqrt': 1, 'square': 1,
    'sign': 1, 'cbrt': 1, 'tanh': 1, 'cos': 1, 'sin': 1, 'arctan': 1, 'isinf': 1, 'isnan': 1, 'isfinite': 1, 'logical_not': 1,
    'nan_to_num': 1,             # nan_to_num(x, copy): copy=False works in place (also caught by the keyword rule)
    # binary element-wise (third positional is `out`)
    'add': 2, 'subtract': 2, 'multiply': 2, 'divide': 2, 'power': 2, 'mod': 2, 'remainder': 2, 'floor_divide': 2, 'maximum': 2,
    'minimum': 2, 'logical_and': 2, 'logical_or': 2, 'logical_xor': 2,
    'where': 3, 'clip': 3, 'round': 2, 'around': 2,
    # reductions / searches (the positional argument after the listed ones is `out`)
    'sum': 3, 'prod': 3, 'mean': 3, 'std': 3, 'var': 3, 'nansum': 3, 'nanmean': 3, 'cumsum': 3, 'cumprod': 3, 'max': 2, 'min': 2,
    'amax': 2, 'amin': 2, 'nanmax': 2, 'nanmin': 2, 'all': 2, 'any': 2, 'argmax': 2, 'argmin': 2, 'ptp': 2, 'median': 2,
    'percentile': 3, 'average': 3, 'trace': 5, 'count_nonzero': 2, 'diff': 3, 'argsort': 4, 'sort': 4, 'lexsort': 2,
    'searchsorted': 4, 'digitize': 3, 'bincount': 3, 'histogram': 3, 'unique': 5, 'nonzero': 1, 'flatnonzero': 1, 'argwhere': 1,
    'allclose': 5, 'isclose': 5, 'array_equal': 3, 'corrcoef': 3, 'intersect1d': 4, 'setdiff1d': 3, 'union1d': 2,
    # linear algebra: the smaller of the NumPy / SciPy arities (scipy.linalg.inv(a, overwrite_a), solve(a, b, lower, overwrite_a))
    'eig': 2, 'eigh': 2, 'inv': 1, 'solve': 2, 'norm': 4, 'pinv': 2, 'det': 1, 'svd': 3, 'expm': 1,
    # random numbers, files, clocks, itertools-free helpers: no array is handed over / nothing is kept
    'RandomState': 1, 'Random': 1, 'randint': 4, 'random_sample': 1, 'rand': 9, 'randn': 9, 'random': 1, 'permutation': 1,
    'choice': 4, 'loadmat': 1, 'savemat': 2, 'pdf': 3, 'cdf': 3, 'cpu_count': 0, 'dirname': 1, 'join': 9, 'exists': 1,
    'abspath': 1, 'time': 0, 'clock': 0, 'deepcopy': 1, 'from_numpy_matrix': 1, 'connected_components': 1, 'errstate': 0,
    'mode': 2, 'warn': 3, 'figure': 0, 'Pool': 1}
NP_PURE = set(PURE_ARITY)
NP_PURE_DOTTED = {'add.outer', 'subtract.outer', 'multiply.outer', 'maximum.outer', 'minimum.outer',
                  'add.reduce', 'multiply.reduce', 'maximum.reduce', 'logical_or.reduce', 'logical_and.reduce'}
# keywords that select an algorithm / a shape / a dtype and can neither make a routine write nor make its result a view
BENIGN_KW = {'axis', 'dtype', 'keepdims', 'decimals', 'ddof', 'bins', 'return_index', 'return_inverse', 'return_counts', 'size',
             'shape', 'k', 'r', 'loc', 'scale', 'low', 'high', 'mdict', 'divide', 'invalid', 'over', 'under', 'endpoint', 'num',
             'order', 'rowvar', 'side', 'kind', 'assume_unique', 'weights', 'range', 'density', 'minlength', 'right', 'equal_nan',
             'rtol', 'atol', 'indexing', 'sparse', 'ndmin', 'fill_value', 'axis1', 'axis2', 'offset', 'initial', 'where', 'p',
             'replace', 'return_indices', 'N', 'M', 'n', 'ord', 'UPLO', 'hermitian', 'rcond', 'full_matrices', 'compute_uv',
             'lower', 'check_finite', 'eigvals_only', 'repeats', 'reps', 'base', 'step', 'start', 'stop', 'retstep', 'mode',
             'casting', 'like', 'squeeze_me', 'struct_as_record', 'mat_dtype', 'chars_as_strings', 'do_compression', 'oned_as',
             'appendmat', 'format', 'sep', 'end', 'file', 'flush', 'reverse', 'strict', 'description', 'path', 'conditions',
             'mask', 'write', 'seed', 'method', 'nan', 'posinf', 'neginf', 'stable', 'sorter', 'left', 'period', 'category',
             'stacklevel', 'processes', 'encoding', 'newline', 'errors', 'tags', 'version', 'cite_module'}
# ... that make a routine write into / return (part of) an argument unless they are literally off
INPLACE_KW_RE = re.compile(r'^(overwrite_.*|inplace|in_place)$')
# sub-namespaces through which the tables above apply (np.linalg.solve, scipy.sparse.csgraph...); any other inner component
# (np.ndarray.sort(W), np.ma.array(W), np.char...) is not understood
NAMESPACES = {'linalg', 'random', 'sparse', 'csgraph', 'io', 'stats', 'norm', 'path', 'special', 'spatial', 'distance',
              'algorithms', 'components', 'utils'}
# np.ma: everything shares its data with the argument unless asked otherwise; only these are understood (as views)
MA_VIEW = {'masked_array', 'masked_where', 'masked_invalid', 'masked_equal', 'array', 'asarray', 'getdata', 'getmask', 'filled'}
# names that denote modules (calls through them are classified by the tables above, never as methods)
MODULE_ROOTS = {'np', 'numpy', 'linalg', 'sp', 'scipy', 'nx', 'random', 'os', 'time', 'itertools', 'copy_module',
                'math', 'warnings', '_verif', 'due', 'stats', 'io', 'plt', 'mlab', 'multiprocessing', 'sys', 'la'}
BUILTIN_PURE = {'len', 'range', 'int', 'float', 'bool', 'str', 'abs', 'round', 'isinstance',
                'type', 'print', 'any', 'all', 'open', 'repr', 'hash', 'id', 'callable', 'divmod', 'pow',
                'ord', 'chr', 'format', 'complex', 'hasattr', 'issubclass', 'xrange', 'input', 'frozenset', 'bytes'}
# builtins whose result holds references to (the elements of) their arguments; max(W, X) / sorted([W])[0] / next(it) ARE arguments
BUILTIN_ALIAS = {'list', 'tuple', 'set', 'dict', 'enumerate', 'zip', 'reversed', 'iter', 'next', 'getattr', 'vars',
                 'max', 'min', 'sorted', 'sum'}
# builtins that call their first argument on the elements of the others
BUILTIN_APPLY = {'map', 'filter'}
METH_APPLY = {'map', 'imap', 'imap_unordered', 'map_async'}
# ufuncs and friends accept their output array positionally: np.add(a, b, out), np.sqrt(a, out), np.clip(a, lo, hi, out)
OUT_POSITION = {**{u: 1 for u in ('abs', 'absolute', 'sqrt', 'square', 'exp', 'log', 'log2', 'log10', 'sign', 'ceil', 'floor', 'isnan',
                                  'isinf', 'isfinite', 'logical_not', 'cbrt', 'tanh', 'cos', 'sin', 'arctan', 'arccos', 'negative',
                                  'reciprocal', 'conj', 'rint', 'trunc', 'fabs')},
                **{u: 2 for u in ('add', 'subtract', 'multiply', 'divide', 'true_divide', 'floor_divide', 'power', 'mod', 'remainder',
                                  'maximum', 'minimum', 'logical_and', 'logical_or', 'logical_xor', 'matmul', 'dot', 'round', 'around',
                                  'fmax', 'fmin', 'hypot', 'arctan2', 'greater', 'less', 'equal', 'not_equal', 'max', 'min', 'amax',
                                  'amin', 'all', 'any', 'argmax', 'argmin', 'outer', 'concatenate', 'stack', 'choose')},
                **{u: 3 for u in ('sum', 'prod', 'mean', 'std', 'var', 'cumsum', 'cumprod', 'clip', 'take', 'compress')}}
# reflection: the translator cannot see what these touch
FORBIDDEN_CALLS = {'exec', 'eval', 'compile', 'globals', 'locals', '__import__', 'setattr', 'delattr', 'memoryview'}
EXC_NAMES = {'BCTParamError', 'ValueError', 'KeyError', 'TypeError', 'NotImplementedError', 'ImportError',
             'IndexError', 'RuntimeError', 'Exception', 'AssertionError', 'ZeroDivisionError', 'StopIteration',
             'BibTeX', 'Doi', 'Url', 'Text'}
# methods that write into their receiver
METH_INPLACE = {'sort', 'fill', 'itemset', 'partition', 'resize', 'put', 'setflags', 'setfield', 'byteswap', 'append',
                'extend', 'insert', 'pop', 'remove', 'reverse', 'clear', 'update', 'add', 'discard', 'shuffle',
                'setdefault', 'popitem', '__setitem__', '__iadd__', '__imul__', 'sort_indices', 'eliminate_zeros',
                'setdiag', 'partial_fit', 'difference_update', 'intersection_update', 'symmetric_difference_update'}
# methods that also make the receiver hold a reference to the argument
METH_STORE = {'append', 'extend', 'insert', 'add', 'update', 'setdefault', '__setitem__'}
# methods whose result may share memory with the receiver
METH_VIEW = {'reshape', 'ravel', 'squeeze', 'view', 'transpose', 'swapaxes', 'diagonal', 'get', 'items', 'values',
             'keys', 'pop', 'popitem', 'setdefault', '__getitem__', 'conj', 'conjugate', 'newbyteorder', 'getfield',
             'item', 'base', 'getA', 'getA1', 'filled', 'compressed_view', 'todense_view'}
# methods that only read their receiver / arguments and return new memory -> number of positional arguments this is known for
# (ndarray methods: the positional argument after the listed ones is `out` / `copy`); 9 = string / RandomState / file / set methods
METH_ARITY = {
    'copy': 1, 'astype': 1, 'flatten': 1, 'tolist': 0, 'sum': 2, 'mean': 2, 'max': 1, 'min': 1, 'any': 1, 'all': 1, 'nonzero': 0,
    'argsort': 3, 'argmax': 1, 'argmin': 1, 'cumsum': 2, 'cumprod': 2, 'dot': 1, 'round': 1, 'std': 2, 'var': 2, 'prod': 2,
    'trace': 4, 'toarray': 1, 'todense': 1, 'multiply': 1, 'clip': 2, 'repeat': 2, 'take': 2, 'compress': 2, 'searchsorted': 3,
    'ptp': 1, 'tobytes': 1, 'tostring': 1, 'outer': 2, 'flatten_copy': 1,
    **{m: 9 for m in ('format', 'join', 'zfill', 'isdisjoint', 'union', 'intersection', 'difference', 'count', 'index',
                      'startswith', 'endswith', 'lower', 'upper', 'strip', 'split', 'replace', 'rand', 'randint', 'random_sample',
                      'permutation', 'choice', 'randn', 'random', 'normal', 'uniform', 'seed', 'get_state', 'pdf', 'cdf',
                      'close', 'write', 'read', 'readlines', 'Pool', 'cpu_count', 'dirname', 'exists', 'loadmat', 'savemat',
                      'emit', 'cite', 'dcite', 'glyph', 'scalar_scatter', 'vector_scatter', 'vectors', 'threshold', 'mode',
                      'issubset', 'issuperset', 'encode', 'decode', 'is_integer', 'bit_length', 'terminate', 'figure')}}
METH_PURE = set(METH_ARITY)
ATTR_NONARRAY = {'shape', 'size', 'ndim', 'dtype', 'nbytes', 'itemsize', 'flags', 'strides', 'name', '__name__', 'ON'}
ATTR_VIEW = {'T', 'flat', 'real', 'imag', 'base', 'data', 'A', 'A1', 'mask', 'H', 'I_view'}
# modules trusted to only read what they are given: plotting back-ends, the framework's own observation hooks (bct/utils/_verif.py,
# no-ops unless BCTPY_VERIF is set), duecredit stubs
PURE_MODULE_ROOTS = {'mlab', 'plt', '_verif', 'due'}
FANCY_INDEX_CALLS = {'where', 'ix_', 'nonzero', 'logical_and', 'logical_or', 'logical_not', 'argsort', 'arange',
                     'triu_indices', 'tril_indices', 'isnan', 'isinf', 'array', 'unique', 'setdiff1d', 'intersect1d',
                     'union1d', 'flatnonzero', 'list', 'permutation', 'lexsort', 'astype', 'isfinite'}
COPY_CALLS = {'copy', 'array', 'astype', 'flatten', 'deepcopy'}
CONTAINER_DOC = re.compile(r'list|tuple|dict|sequence|iterable|set of', re.I)


class Unsupported(Exception):
    pass


# ----------------------------------------------------------------------------- command constructors
SKIP = ('Skip',)


def seq(cs):
    cs = [c for c in cs if c != SKIP]
    if not cs:
        return SKIP
    out = cs[-1]
    for c in reversed(cs[:-1]):
        out = ('Seq', c, out)
    return out


def choice(cs):
    out = cs[-1]
    for c in reversed(cs[:-1]):
        out = ('Choice', c, out)
    return out


def bind_from(x, A):
    """Bind x to anything the alias set A = (names, unknown) may denote."""
    S, u = A
    if u:
        return ('Bind', x, ('Unknown',))
    S = sorted(S)
    if not S:
        return ('Bind', x, ('Fresh',))
    return choice([('Bind', x, ('AliasOf', y)) for y in S])


def weak_bind(x, A):
    """x may additionally hold references into A (container store)."""
    S, u = A
    if not S and not u:
        return SKIP
    return ('Choice', bind_from(x, A), SKIP)


EMPTY = (frozenset(), False)
UNK = (frozenset(), True)


def aunion(*As):
    S, u = frozenset(), False
    for a in As:
        S |= a[0]
        u = u or a[1]
    return (S, u)


# ----------------------------------------------------------------------------- numpydoc parameter kinds
SCALAR_RE = re.compile(r'^\s*(int|integer|float|bool|boolean|str|string|enum|hashable|any|number|scalar|callable|function|none or enum|\{.*\})\b', re.I)
ARRAY_WORDS = re.compile(r'array|matrix|vector|list|tuple|\bN\s*x|\bNx|\bMx|x\s*N\b|dict|sequence|iterable', re.I)


def doc_kinds(doc):
    out = {}
    if not doc:
        return out
    lines = doc.split('\n')
    insec = False
    for i, l in enumerate(lines):
        s = l.strip()
        nxt = lines[i + 1].strip() if i + 1 < len(lines) else ''
        if s in ('Parameters', 'Inputs', 'Input') and nxt and set(nxt) <= set('-='):
            insec = True
            continue
        if insec and s in ('Returns', 'Notes', 'Note', 'Output', 'Outputs', 'References', 'Examples', 'Raises', 'See Also') \
                and nxt and set(nxt) <= set('-='):
            break
        if insec:
            m = re.match(r'^\s*([A-Za-z_][A-Za-z0-9_, ]*?)\s*:\s*(.*)$', l)
            if m:
                for nm in m.group(1).split(','):
                    out.setdefault(nm.strip(), m.group(2).strip())
    return out


def is_scalar_kind(ty):
    return bool(ty) and bool(SCALAR_RE.match(ty)) and not ARRAY_WORDS.search(ty)


def doc_dims(ty):
    """number of array dimensions the numpydoc type announces (1, 2, 3) or None"""
    if not ty or '|' in ty or ' or ' in ty:
        return None
    t = ty.replace(' ', '')
    m = re.match(r'^\(?([A-Za-z0-9]+)x([A-Za-z0-9]+)(x[A-Za-z0-9]+)?\)?(np\.|array|$)', t)
    if not m:
        return None
    if m.group(3):
        return 3
    if m.group(2) == '1':
        return 1          # bctpy convention: "Nx1" is a length-N vector
    return 2


# ----------------------------------------------------------------------------- scopes
class Fn:
    def __init__(self, node, module, parent, relpath):
        self.node, self.module, self.parent, self.relpath = node, module, parent, relpath
        self.name = node.name
        self.nested = {}
        a = node.args
        self.params = [x.arg for x in getattr(a, 'posonlyargs', [])] + [x.arg for x in a.args] + [x.arg for x in a.kwonlyargs]
        self.npos = len(getattr(a, 'posonlyargs', [])) + len(a.args)
        self.vararg = a.vararg.arg if a.vararg else None
        self.kwarg = a.kwarg.arg if a.kwarg else None
        if self.vararg:
            self.params.append(self.vararg)
        if self.kwarg:
            self.params.append(self.kwarg)
        defaults = {}
        pos = [x.arg for x in getattr(a, 'posonlyargs', [])] + [x.arg for x in a.args]
        for p, d in zip(pos[len(pos) - len(a.defaults):], a.defaults):
            defaults[p] = d
        for p, d in zip([x.arg for x in a.kwonlyargs], a.kw_defaults):
            if d is not None:
                defaults[p] = d
        self.defaults = defaults
        self.locals = set(self.params)
        self.loads = set()
        self.globals_decl = set()
        self.containers = set()
        self.stored = {}          # name -> number of binding statements
        self.imports = {}         # local name -> (module, original name) for import statements inside the function
        self._scan(node.body)
        self.locals -= self.globals_decl
        self.fvs = []
        self.qname = None

    def _scan(self, stmts):
        for s in stmts:
            self._scan_node(s)

    def _scan_node(self, n):
        if isinstance(n, (ast.FunctionDef, ast.AsyncFunctionDef)):
            self.locals.add(n.name)
            self.nested[n.name] = Fn(n, self.module, self, self.relpath)
            for d in n.args.defaults + [d for d in n.args.kw_defaults if d is not None] + n.decorator_list:
                self._scan_node(d)
            return
        if isinstance(n, ast.Lambda):
            raise Unsupported('lambda')
        if isinstance(n, ast.ClassDef):
            raise Unsupported('nested class')
        if isinstance(n, (ast.Global, ast.Nonlocal)):
            self.globals_decl |= set(n.names)
            if isinstance(n, ast.Nonlocal):
                raise Unsupported('nonlocal')
        if isinstance(n, ast.Name):
            if isinstance(n.ctx, (ast.Store, ast.Del)):
                self.locals.add(n.id)
                self.stored[n.id] = self.stored.get(n.id, 0) + 1
            else:
                self.loads.add(n.id)
        if isinstance(n, (ast.Import, ast.ImportFrom)):
            for al in n.names:
                self.locals.add((al.asname or al.name).split('.')[0])
                local = (al.asname or al.name).split('.')[0]
                if local not in MODULE_ROOTS:
                    self.imports[local] = (getattr(n, 'module', None) or al.name, al.name)
        if isinstance(n, ast.ExceptHandler) and n.name:
            self.locals.add(n.name)
        if isinstance(n, ast.Assign):
            v = n.value
            cont = isinstance(v, (ast.List, ast.Dict, ast.Set, ast.ListComp, ast.DictComp, ast.SetComp)) or \
                (isinstance(v, ast.Call) and isinstance(v.func, ast.Name) and v.func.id in ('list', 'dict', 'set', 'defaultdict', 'OrderedDict'))
            if cont:
                for t in n.targets:
                    if isinstance(t, ast.Name):
                        self.containers.add(t.id)
        if isinstance(n, (ast.ListComp, ast.SetComp, ast.DictComp, ast.GeneratorExp)):
            # comprehension targets are local to the comprehension (handled by substitution), not to the function
            comp_targets = set()
            for g in n.generators:
                for t in ast.walk(g.target):
                    if isinstance(t, ast.Name):
                        comp_targets.add(t.id)
            before_l, before_s = set(self.locals), dict(self.stored)
            for c in ast.iter_child_nodes(n):
                self._scan_node(c)
            for t in comp_targets:
                if t not in before_l:
                    self.locals.discard(t)
                if t in before_s:
                    self.stored[t] = before_s[t]
                else:
                    self.stored.pop(t, None)
            return
        for c in ast.iter_child_nodes(n):
            self._scan_node(c)

    def all_nested(self):
        for f in self.nested.values():
            yield f
            yield from f.all_nested()

    def enclosing_locals(self):
        out, p = set(), self.parent
        while p is not None:
            out |= p.locals
            p = p.parent
        return out

    def resolve_nested(self, name):
        """nested def visible from this scope under that name (or None)"""
        sc = self
        while sc is not None:
            if name in sc.locals:
                if name in sc.nested and sc.stored.get(name, 0) == 0:
                    return sc.nested[name]
                return None
            sc = sc.parent
        return None


def compute_fvs(top):
    fns = list(top.all_nested())
    fv = {f: set() for f in fns}
    changed = True
    while changed:
        changed = False
        for f in fns:
            s = set(f.loads)
            for h in f.nested.values():
                s |= fv[h]
            for nm in list(f.loads):
                h = f.resolve_nested(nm)
                if h is not None:
                    s |= fv[h]
            s -= f.locals
            s &= f.enclosing_locals()
            # names of nested defs are not variables
            s = {x for x in s if f.resolve_nested(x) is None}
            if s != fv[f]:
                fv[f] = s
                changed = True
    for f in fns:
        f.fvs = sorted(fv[f])


# ----------------------------------------------------------------------------- translation of one function
class Tr:
    def __init__(self, fn, world):
        self.fn, self.world = fn, world
        self.k = 0
        self.flagparam = 'copy' if ('copy' in fn.params and fn.stored.get('copy', 0) == 0 and fn.parent is None) else None
        self.loop_depth = 0
        self.line = fn.node.lineno
        self.root = fn
        while self.root.parent is not None:
            self.root = self.root.parent
        kinds = doc_kinds(ast.get_docstring(fn.node)) if fn.parent is None else {}
        self.root_kinds = doc_kinds(ast.get_docstring(self.root.node))
        self.dims = {p: doc_dims(kinds.get(p, '')) for p in fn.params if doc_dims(kinds.get(p, ''))}
        self.forwards = []        # (callee qname, formal, own parameter passed as is)
        self.direct = set()       # parameters of the top-level function that a statement writes through BY NAME
        self.container_params = {p for p in self.root.params if CONTAINER_DOC.search(self.root_kinds.get(p, ''))}

    def tmp(self, tag):
        self.k += 1
        return '$%s%d' % (tag, self.k)

    # ---- expressions: returns (cmds, alias set)
    def ev(self, e, sub):
        if e is None:
            return [], EMPTY
        if isinstance(e, ast.Constant) or isinstance(e, (ast.JoinedStr, ast.FormattedValue)):
            cs = []
            if isinstance(e, ast.JoinedStr):
                for v in e.values:
                    if isinstance(v, ast.FormattedValue):
                        c, _ = self.ev(v.value, sub)
                        cs += c
            return cs, EMPTY
        if isinstance(e, ast.Name):
            if e.id in sub:
                return [], sub[e.id]
            h = self.fn.resolve_nested(e.id)
            if h is not None:
                # a nested function used as a value: it may be called later by code we do not see
                return [('Choice', SKIP, ('Loop', seq(self.call_lifted(h, [], {}, sub, escaped=True)[0])))], EMPTY
            if e.id in MODULE_ROOTS or e.id in ('True', 'False', 'None'):
                return [], EMPTY
            return [], (frozenset([e.id]), False)
        if isinstance(e, (ast.BinOp,)):
            c1, a1 = self.ev(e.left, sub)
            c2, a2 = self.ev(e.right, sub)
            if isinstance(e.op, (ast.Add, ast.Mult)) and (self.is_container_expr(e.left) or self.is_container_expr(e.right)):
                return c1 + c2, aunion(a1, a2)       # [W] + [] , (W,) * 2 : a container of the same objects
            return c1 + c2, EMPTY
        if isinstance(e, ast.UnaryOp):
            c, _ = self.ev(e.operand, sub)
            return c, EMPTY
        if isinstance(e, ast.Compare):
            cs, _ = self.ev(e.left, sub)
            for x in e.comparators:
                c, _ = self.ev(x, sub)
                cs += c
            return cs, EMPTY
        if isinstance(e, ast.BoolOp):
            cs, A = [], EMPTY
            for x in e.values:
                c, a = self.ev(x, sub)
                cs += c
                A = aunion(A, a)
            return cs, A
        if isinstance(e, ast.IfExp):
            c0, _ = self.ev(e.test, sub)
            c1, a1 = self.ev(e.body, sub)
            c2, a2 = self.ev(e.orelse, sub)
            return c0 + c1 + c2, aunion(a1, a2)
        if isinstance(e, ast.Attribute):
            c, a = self.ev(e.value, sub)
            if e.attr in ATTR_NONARRAY:
                return c, EMPTY
            if isinstance(e.value, ast.Name) and e.value.id in MODULE_ROOTS and e.value.id not in sub:
                return c, EMPTY            # np.pi, np.inf, np.random, ...
            return c, a                    # .T, .flat, ... and any unknown attribute: may share memory
        if isinstance(e, ast.Subscript):
            c1, a = self.ev(e.value, sub)
            c2, _ = self.ev_index(e.slice, sub)
            return c1 + c2, (EMPTY if (self.is_fancy(e.slice) or self.is_element(e)) else a)
        if isinstance(e, ast.Starred):
            return self.ev(e.value, sub)
        if isinstance(e, (ast.Tuple, ast.List, ast.Set)):
            cs, A = [], EMPTY
            for x in e.elts:
                c, a = self.ev(x, sub)
                cs += c
                A = aunion(A, a)
            return cs, A
        if isinstance(e, ast.Dict):
            cs, A = [], EMPTY
            for x in list(e.keys) + list(e.values):
                if x is not None:
                    c, a = self.ev(x, sub)
                    cs += c
                    A = aunion(A, a)
            return cs, A
        if isinstance(e, (ast.ListComp, ast.SetComp, ast.GeneratorExp, ast.DictComp)):
            sub2 = dict(sub)
            pre, inner = [], []
            for g in e.generators:
                c, a = self.ev(g.iter, sub2)
                (pre if g is e.generators[0] else inner).extend(c)
                for t in ast.walk(g.target):
                    if isinstance(t, ast.Name):
                        sub2[t.id] = a
                for cond in g.ifs:
                    c, _ = self.ev(cond, sub2)
                    inner += c
            if isinstance(e, ast.DictComp):
                c1, a1 = self.ev(e.key, sub2)
                c2, a2 = self.ev(e.value, sub2)
                inner += c1 + c2
                A = aunion(a1, a2)
            else:
                c, A = self.ev(e.elt, sub2)
                inner += c
            # alias sets that mention comprehension-local temporaries are fine: temporaries are bound names
            body = seq(inner)
            return pre + ([('Loop', body)] if body != SKIP else []), A
        if isinstance(e, ast.Call):
            return self.ev_call(e, sub)
        if isinstance(e, ast.Slice):
            return self.ev_index(e, sub)
        if isinstance(e, ast.NamedExpr):
            c, a = self.ev(e.value, sub)
            return c + [bind_from(e.target.id, a)], a
        if isinstance(e, ast.Lambda):
            raise Unsupported('lambda')
        raise Unsupported('expression ' + type(e).__name__)

    def ev_index(self, ix, sub):
        cs = []
        if isinstance(ix, ast.Slice):
            for x in (ix.lower, ix.upper, ix.step):
                if x is not None:
                    c, _ = self.ev(x, sub)
                    cs += c
            return cs, EMPTY
        if isinstance(ix, ast.Tuple):
            for x in ix.elts:
                c, _ = self.ev_index(x, sub)
                cs += c
            return cs, EMPTY
        if hasattr(ast, 'Index') and isinstance(ix, ast.Index):     # py<3.9
            return self.ev_index(ix.value, sub)
        if hasattr(ast, 'ExtSlice') and isinstance(ix, ast.ExtSlice):
            for x in ix.dims:
                c, _ = self.ev_index(x, sub)
                cs += c
            return cs, EMPTY
        return self.ev(ix, sub)

    def is_fancy(self, ix):
        """index expressions that certainly select by array / mask (NumPy then copies)"""
        if hasattr(ast, 'Index') and isinstance(ix, ast.Index):
            return self.is_fancy(ix.value)
        if isinstance(ix, (ast.Compare, ast.List, ast.ListComp)):
            return True
        if isinstance(ix, ast.UnaryOp) and isinstance(ix.op, (ast.Invert, ast.Not)):
            return True
        if isinstance(ix, ast.Call):
            f = ix.func
            nm = f.attr if isinstance(f, ast.Attribute) else getattr(f, 'id', None)
            return nm in FANCY_INDEX_CALLS
        if isinstance(ix, ast.Tuple):
            return any(self.is_fancy(x) for x in ix.elts)
        return False

    def is_element(self, e):
        """e = P[i] / P[i, j] selects ONE element (a NumPy scalar, never a view): P is a parameter that is never
        re-bound, documented as a d-dimensional array, indexed by d indices none of which is a slice"""
        v = e.value
        if not isinstance(v, ast.Name) or v.id not in self.dims or self.root.stored.get(v.id, 0) != 0 or self.fn is not self.root:
            return False
        ix = e.slice
        if hasattr(ast, 'Index') and isinstance(ix, ast.Index):
            ix = ix.value
        elts = ix.elts if isinstance(ix, ast.Tuple) else [ix]
        if any(isinstance(x, (ast.Slice, ast.Starred)) or (isinstance(x, ast.Constant) and x.value in (None, Ellipsis)) for x in elts):
            return False
        return len(elts) == self.dims[v.id]

    def note_direct(self, node):
        """node is the syntactic receiver of an in-place operation (k -= 1, k[i] = v, k.sort(), np.fill_diagonal(k, 0)):
        if it is a parameter of the enclosing top-level function, the numpydoc kind `int`/`float` does not protect it - a
        0-d or 1-element array passed there IS written"""
        if isinstance(node, ast.Name) and node.id in self.root.params and self.fn is self.root:
            self.direct.add(node.id)

    def mutate(self, A):
        S, u = A
        cs = [('Mutate', y, self.line) for y in sorted(S)]
        if u:
            t = self.tmp('u')
            cs += [('Bind', t, ('Unknown',)), ('Mutate', t, self.line)]
        return cs

    def dotted(self, f):
        parts = []
        while isinstance(f, ast.Attribute):
            parts.append(f.attr)
            f = f.value
        if isinstance(f, ast.Name):
            parts.append(f.id)
            return list(reversed(parts))
        return None

    def kw_literal(self, e, name):
        """the literal value of keyword `name` at call e, or a marker object when it is not a literal"""
        for k in e.keywords:
            if k.arg == name:
                return k.value.value if isinstance(k.value, ast.Constant) else Unsupported
        return None

    def risky_keywords(self, e):
        """-> (copy_off, inplace_on, unknown): `copy=` that is not literally True; an overwrite_* / inplace keyword that is not
        literally False; a keyword that is in no table"""
        copy_off = inplace_on = unknown = False
        for k in e.keywords:
            if k.arg is None or k.arg == 'out':
                continue
            lit = k.value.value if isinstance(k.value, ast.Constant) else Unsupported
            if k.arg == 'copy':
                copy_off = copy_off or lit is not True
            elif INPLACE_KW_RE.match(k.arg):
                inplace_on = inplace_on or lit is not False
            elif k.arg not in BENIGN_KW:
                unknown = True
        return copy_off, inplace_on, unknown

    def ev_call(self, e, sub):
        f = e.func
        has_star = any(isinstance(a, ast.Starred) for a in e.args) or any(k.arg is None for k in e.keywords)
        # evaluate arguments first
        cs, argA, kwA = [], [], {}
        for a in e.args:
            c, A = self.ev(a, sub)
            cs += c
            argA.append(A)
        for k in e.keywords:
            c, A = self.ev(k.value, sub)
            cs += c
            kwA[k.arg] = aunion(kwA.get(k.arg, EMPTY), A)
        allA = aunion(EMPTY, *(argA + list(kwA.values())))
        # out= always writes, and the result is that array
        outA = kwA.get('out', EMPTY)
        if 'out' in kwA:
            cs += self.mutate(outA)
        copy_off, inplace_on, unknown_kw = self.risky_keywords(e)

        def pessimistic(recvA=EMPTY):
            return cs + self.mutate(aunion(allA, recvA)), UNK

        def shaped(arity, recvA=EMPTY):
            """None if the call has the shape a table entry was verified for (few positional arguments, benign keywords);
            otherwise the pessimistic translation"""
            if has_star or unknown_kw or inplace_on or len(argA) > arity:
                return pessimistic(recvA)
            return None

        if isinstance(f, ast.Name):
            nm = f.id
            if nm in FORBIDDEN_CALLS:
                raise Unsupported('call of ' + nm)
            if nm in sub:
                return pessimistic(sub[nm])
            h = self.fn.resolve_nested(nm)
            if h is not None:
                if has_star:
                    return pessimistic()
                c, A = self.call_lifted(h, e.args, {k.arg: k.value for k in e.keywords}, sub, pre=(argA, kwA))
                return cs + c, A
            imported = self.import_origin(nm)          # `from m import orig as nm` (function- or module-level)
            if self.is_local_var(nm):
                return pessimistic((frozenset([nm]), False))      # call through a variable (callable parameter)
            tgt = self.world.resolve_function(self.fn.module, imported[1] if imported else nm)
            if tgt is not None:
                if has_star:
                    return pessimistic()
                c, A = self.call_fn(tgt, e, argA, kwA)
                return cs + c, A
            if nm in EXC_NAMES or nm.endswith('Error') or nm.endswith('Exception') or nm.endswith('Warning'):
                return cs, EMPTY
            if imported is not None:
                return pessimistic()                  # an imported name that is not a bct function: not a builtin any more
            if nm in BUILTIN_APPLY:
                return self.ev_apply(e, cs, argA, allA, has_star) or pessimistic()
            if nm in BUILTIN_PURE:
                return shaped(9) or (cs, EMPTY)
            if nm == 'dict' and not has_star:
                return cs, allA                       # dict(a=W): any keyword is a key
            if nm in BUILTIN_ALIAS:
                return shaped(9) or (cs, allA)        # `key=` is not benign: it is called on the elements
            return pessimistic()
        if isinstance(f, ast.Attribute):
            d = self.dotted(f)
            if d is not None and d[0] in MODULE_ROOTS and d[0] not in sub and not self.is_local_var(d[0]) or \
                    (d is not None and d[0] in MODULE_ROOTS and self.is_import_local(d[0])):
                last, tail2 = d[-1], '.'.join(d[-2:])
                if d[0] in PURE_MODULE_ROOTS:
                    return cs, EMPTY
                inner = d[1:-1]
                if tail2 in NP_PURE_DOTTED and all(x in NAMESPACES for x in inner[:-1]):
                    return shaped(2) or (cs, outA)
                if 'ma' in inner:
                    if last in MA_VIEW and all(x in NAMESPACES or x == 'ma' for x in inner):
                        return shaped(3) or (cs, allA)
                    return pessimistic()
                if not all(x in NAMESPACES for x in inner):
                    return pessimistic()              # np.ndarray.sort(W), np.char..., np.lib.stride_tricks...
                if d[0] in ('copy_module',) and last != 'deepcopy':
                    return pessimistic()
                if last in NP_INPLACE:
                    if e.args:
                        self.note_direct(e.args[0])
                    bad = shaped(9)
                    return bad or (cs + (self.mutate(argA[0]) if argA else self.mutate(allA)), EMPTY)
                if last in OUT_POSITION and len(argA) > OUT_POSITION[last]:
                    # positional out argument: written, and returned
                    w = argA[OUT_POSITION[last]]
                    cs2 = cs + self.mutate(w)
                    if has_star or unknown_kw or inplace_on or copy_off or len(argA) > OUT_POSITION[last] + 1:
                        return cs2 + self.mutate(allA), UNK
                    return cs2, aunion(w, outA)
                if last in NP_VIEW:
                    return shaped(9) or (cs, allA)
                if last in NP_PURE:
                    bad = shaped(PURE_ARITY[last])
                    if bad:
                        return bad
                    if copy_off:
                        # np.array(x, copy=False) is x; np.nan_to_num(x, copy=False) additionally works in place
                        return (cs, allA) if last == 'array' else (cs + self.mutate(allA), allA)
                    return cs, outA
                # a bct function reached through a module path (bct.utils.binarize, other.binarize)
                tgt = self.world.resolve_function(self.fn.module, last) if d[0] not in ('np', 'numpy') else None
                if tgt is not None and not has_star:
                    c, A = self.call_fn(tgt, e, argA, kwA)
                    return cs + c, A
                return pessimistic()
            if d is not None and d[0] not in sub and not self.is_local_var(d[0]) and self.import_origin(d[0]) is not None \
                    and self.world.resolve_function(self.fn.module, d[-1]) is None:
                return pessimistic()                  # a module alias the tables know nothing about (xp.put(W, ...))
            # method call on a value
            c0, recvA = self.ev(f.value, sub)
            cs = c0 + cs
            m = f.attr
            if m == 'shuffle':
                return cs + self.mutate(aunion(recvA, allA)), EMPTY       # rng.shuffle(x) permutes x in place
            if m in METH_APPLY:
                return self.ev_apply(e, cs, argA, allA, has_star) or pessimistic(recvA)     # pool.map(f, items)
            if m in OUT_POSITION and len(argA) > OUT_POSITION[m] - 1 and m not in METH_INPLACE and m not in METH_VIEW:
                w = argA[OUT_POSITION[m] - 1]                             # a.dot(b, out), a.clip(lo, hi, out), a.sum(0, None, out)
                cs2 = cs + self.mutate(w)
                if has_star or unknown_kw or inplace_on or copy_off or len(argA) > OUT_POSITION[m]:
                    return cs2 + self.mutate(aunion(allA, recvA)), UNK
                return cs2, aunion(w, outA)
            if m in METH_INPLACE:
                self.note_direct(f.value)
                bad = shaped(9, recvA)
                if bad:
                    return bad
                extra = []
                if m in METH_STORE:
                    S, u = recvA
                    for y in sorted(S):
                        extra.append(weak_bind(y, allA))
                out = recvA if m in METH_VIEW else EMPTY
                return cs + self.mutate(recvA) + extra, out
            if m in METH_VIEW:
                bad = shaped(9, recvA)
                if bad:
                    return bad
                return cs, aunion(recvA, allA, outA) if m in ('get', 'setdefault') else aunion(recvA, outA)
            if m in METH_PURE:
                bad = shaped(METH_ARITY[m], recvA)
                if bad:
                    if m == 'astype' and not (has_star or unknown_kw or inplace_on):
                        return cs, recvA                  # W.astype(float, 'K', 'unsafe', True, False): positional copy flag
                    return bad
                if copy_off:
                    return cs, aunion(recvA, allA)        # W.astype(t, copy=False) may be W
                if m == 'copy' and self.is_container_expr(f.value):
                    return cs, recvA                      # list.copy() / dict.copy() are shallow
                return cs, outA
            return pessimistic(recvA)
        # call of a call result, subscripted callable, ...
        c0, A0 = self.ev(f, sub)
        cs = c0 + cs
        return pessimistic(A0)

    def ev_apply(self, e, cs, argA, allA, has_star):
        """map(f, xs) / filter(f, xs) / pool.map(f, xs): f is called on elements of xs.  Understood when f is a pure builtin
        (len, int, ...) or a bct / nested function (then: a loop around an ordinary call); otherwise None"""
        fa = e.args[0] if e.args else None
        if not isinstance(fa, ast.Name) or e.keywords or has_star or len(e.args) < 2:
            return None
        if fa.id in BUILTIN_PURE and not self.is_local_var(fa.id) and self.import_origin(fa.id) is None \
                and self.fn.resolve_nested(fa.id) is None:
            return cs, allA
        h = self.fn.resolve_nested(fa.id)
        callee = h
        if callee is None and not self.is_local_var(fa.id):
            imported = self.import_origin(fa.id)
            callee = self.world.resolve_function(self.fn.module, imported[1] if imported else fa.id)
        if callee is None or hasattr(callee, 'unsupported') or len(argA) - 1 > callee.npos:
            return None
        got = {p: A for p, A in zip(callee.params[:callee.npos], argA[1:])}
        c, A = self.emit_call(callee.qname, callee, got, 'FAny' if 'copy' in callee.params else 'FTrue',
                              extra_names=(h.fvs if h is not None else ()))
        return cs + [('Loop', seq(c))], aunion(A, allA)

    def import_origin(self, nm):
        """(module, original name) if nm is bound by an import statement visible here (function-level first, then module
        level), else None; names of MODULE_ROOTS are handled by the tables"""
        sc = self.fn
        while sc is not None:
            if nm in sc.imports:
                return sc.imports[nm]
            if nm in sc.locals:
                return None
            sc = sc.parent
        return self.world.module_imports.get(self.fn.module, {}).get(nm)

    def is_container_expr(self, v):
        """v certainly or plausibly denotes a Python container (list / tuple / dict) rather than an ndarray"""
        if isinstance(v, (ast.List, ast.Tuple, ast.Dict, ast.Set, ast.ListComp, ast.DictComp, ast.SetComp)):
            return True
        if isinstance(v, ast.Call) and isinstance(v.func, ast.Name) and v.func.id in BUILTIN_ALIAS:
            return True
        if isinstance(v, ast.Name):
            return self.is_container(v.id) or v.id in self.container_params
        if isinstance(v, ast.Subscript):
            return self.is_container_expr(v.value)
        if isinstance(v, ast.BinOp):
            return self.is_container_expr(v.left) or self.is_container_expr(v.right)
        return False

    def is_local_var(self, nm):
        sc = self.fn
        while sc is not None:
            if nm in sc.locals:
                return not self.is_import_local(nm)
            sc = sc.parent
        return False

    def is_import_local(self, nm):
        """nm is bound in this function only by an import statement"""
        sc = self.fn
        while sc is not None:
            if nm in sc.locals:
                return sc.stored.get(nm, 0) == 0 and nm not in sc.params and nm not in sc.nested
            sc = sc.parent
        return False

    def bind_args(self, callee, args, kwargs, argA, kwA):
        """actual alias set for every formal of callee, or None if the call does not bind cleanly"""
        pos = callee.params[:callee.npos]
        got = {}
        if len(argA) > len(pos):
            if callee.vararg is None:
                return None
            got[callee.vararg] = aunion(EMPTY, *argA[len(pos):])
        for p, A in zip(pos, argA):
            got[p] = A
        for k, A in kwA.items():
            if k in got:
                return None
            if k in callee.params and k not in (callee.vararg, callee.kwarg):
                got[k] = A
            elif callee.kwarg is not None:
                got[callee.kwarg] = aunion(got.get(callee.kwarg, EMPTY), A)
            else:
                return None
        return got

    def flag_of(self, callee, e, kwargs_nodes, pos_nodes):
        if 'copy' not in callee.params or callee.parent is not None:
            return 'FTrue'
        node = None
        idx = callee.params.index('copy')
        if 'copy' in kwargs_nodes:
            node = kwargs_nodes['copy']
        elif idx < len(pos_nodes) and idx < callee.npos:
            node = pos_nodes[idx]
        else:
            node = callee.defaults.get('copy')
            if node is None:
                return 'FAny'
        if isinstance(node, ast.Constant) and node.value is True:
            return 'FTrue'
        if isinstance(node, ast.Constant) and node.value is False:
            return 'FFalse'
        if isinstance(node, ast.Name) and node.id == self.flagparam:
            return 'FSame'
        return 'FAny'

    def emit_call(self, qname, callee, got, fl, extra_names=()):
        cs, names = [], []
        for i, p in enumerate(callee.params):
            t = self.tmp('a')
            A = got.get(p, EMPTY)
            cs.append(bind_from(t, A))
            names.append(t)
            if len(A[0]) == 1 and not A[1] and next(iter(A[0])) in self.fn.params:
                self.forwards.append((qname, p, next(iter(A[0]))))
        names += list(extra_names)
        r = self.tmp('r')
        cs.append(('CallFn', r, qname, names, fl, self.line))
        return cs, (frozenset([r]), False)

    def call_fn(self, tgt, e, argA, kwA):
        got = self.bind_args(tgt, e.args, e.keywords, argA, kwA)
        if got is None:
            return self.mutate(aunion(EMPTY, *(argA + list(kwA.values())))), UNK
        fl = self.flag_of(tgt, e, {k.arg: k.value for k in e.keywords}, e.args)
        return self.emit_call(tgt.qname, tgt, got, fl)

    def call_lifted(self, h, args, kwargs, sub, pre=None, escaped=False):
        if escaped:
            got = {}
        else:
            argA, kwA = pre
            got = self.bind_args(h, args, kwargs, argA, kwA)
            if got is None:
                return self.mutate(aunion(EMPTY, *(argA + list(kwA.values())))), UNK
        if escaped:
            # unknown actuals: whatever the callee does to its own parameters is covered at the (pessimistic) call site
            pass
        return self.emit_call(h.qname, h, got, 'FTrue', extra_names=h.fvs)

    # ---- assignment targets
    def assign(self, t, A, sub, value=None):
        if isinstance(t, ast.Name):
            S, u = A
            if value is not None and len(S) == 1 and not u and self.is_copy_expr(value):
                return [('Bind', t.id, ('CopyOf', next(iter(S))))]
            return [bind_from(t.id, A)]
        if isinstance(t, (ast.Tuple, ast.List)):
            cs = []
            for x in t.elts:
                cs += self.assign(x, A, sub)
            return cs
        if isinstance(t, ast.Starred):
            return self.assign(t.value, A, sub)
        if isinstance(t, ast.Subscript):
            c1, baseA = self.ev(t.value, sub)
            c2, _ = self.ev_index(t.slice, sub)
            self.note_direct(t.value)
            cs = c1 + c2 + self.mutate(baseA)
            # a Python container now holds a reference to the stored object
            root = t.value
            while isinstance(root, (ast.Subscript, ast.Attribute)):
                root = root.value
            if isinstance(root, ast.Name) and self.is_container(root.id):
                for y in sorted(baseA[0]):
                    cs.append(weak_bind(y, A))
            return cs
        if isinstance(t, ast.Attribute):
            c1, baseA = self.ev(t.value, sub)
            cs = c1 + self.mutate(baseA)
            for y in sorted(baseA[0]):
                cs.append(weak_bind(y, A))          # obj.attr = value : obj now refers to value
            return cs
        raise Unsupported('assignment target ' + type(t).__name__)

    def is_container(self, nm):
        sc = self.fn
        while sc is not None:
            if nm in sc.locals:
                return nm in sc.containers
            sc = sc.parent
        return False

    def is_copy_expr(self, v):
        """v is syntactically  <alias-expr>.copy() / np.array(<alias-expr>) / np.copy(...) / .astype(...)"""
        if isinstance(v, ast.Call):
            f = v.func
            nm = f.attr if isinstance(f, ast.Attribute) else getattr(f, 'id', None)
            return nm in COPY_CALLS
        return False

    def copy_source(self, v, sub):
        """alias set of the thing being copied, for the cosmetic CopyOf"""
        f = v.func
        if isinstance(f, ast.Attribute) and not (isinstance(f.value, ast.Name) and f.value.id in MODULE_ROOTS):
            return self.ev(f.value, sub)[1]
        if v.args:
            return self.ev(v.args[0], sub)[1]
        return EMPTY

    # ---- statements
    def block(self, stmts, sub):
        out = []
        for i, s in enumerate(stmts):
            out.append(self.stmt(s, sub))
            c = out[-1]
            if c[0] == 'IfFlag' and i + 1 < len(stmts) and not (self.loop_depth > 0 and self.has_jump(s)):
                # `if not copy: raise ...` / `if copy: return ...` followed by more statements: a branch that never completes
                # normally does not reach them, so they belong to the other branch only (same runs, and the must-alias
                # analysis then sees that the statements after the guard run under one flag value only)
                if always_returns(c[2], False) and not always_returns(c[1], True):
                    out[-1] = ('IfFlag', seq([c[1], self.block(stmts[i + 1:], sub)]), c[2])
                    break
                if always_returns(c[1], True) and not always_returns(c[2], False):
                    out[-1] = ('IfFlag', c[1], seq([c[2], self.block(stmts[i + 1:], sub)]))
                    break
            if self.loop_depth > 0 and self.has_jump(s):
                rest = self.block(stmts[i + 1:], sub)
                if rest != SKIP:
                    out.append(('Choice', rest, SKIP))     # after break / continue the rest of the body is skipped
                break
        return seq(out)

    def has_jump(self, s):
        """s contains a break/continue that targets the loop enclosing s"""
        if isinstance(s, (ast.Break, ast.Continue)):
            return True
        if isinstance(s, (ast.For, ast.While)):
            return any(self.has_jump(x) for x in s.orelse)
        if isinstance(s, (ast.FunctionDef, ast.ClassDef)):
            return False
        for fld in ('body', 'orelse', 'handlers', 'finalbody'):
            for x in getattr(s, fld, []) or []:
                if self.has_jump(x):
                    return True
        return False

    def flag_test(self, t):
        """+1: `copy`, -1: `not copy`, 0: not a test of the copy flag"""
        if self.flagparam is None:
            return 0
        if isinstance(t, ast.Name) and t.id == self.flagparam:
            return 1
        if isinstance(t, ast.UnaryOp) and isinstance(t.op, ast.Not) and isinstance(t.operand, ast.Name) and t.operand.id == self.flagparam:
            return -1
        if isinstance(t, ast.Compare) and len(t.ops) == 1 and isinstance(t.left, ast.Name) and t.left.id == self.flagparam \
                and isinstance(t.comparators[0], ast.Constant) and isinstance(t.comparators[0].value, bool):
            pos = isinstance(t.ops[0], (ast.Is, ast.Eq)) == t.comparators[0].value
            if isinstance(t.ops[0], (ast.Is, ast.Eq, ast.IsNot, ast.NotEq)):
                return 1 if pos else -1
        return 0

    def stmt(self, s, sub):
        self.line = getattr(s, 'lineno', self.line)
        if isinstance(s, ast.Assign):
            cs, A = self.ev(s.value, sub)
            if len(s.targets) == 1 and isinstance(s.targets[0], (ast.Tuple, ast.List)) and isinstance(s.value, (ast.Tuple, ast.List)) \
                    and len(s.targets[0].elts) == len(s.value.elts) \
                    and not any(isinstance(x, ast.Starred) for x in s.targets[0].elts + s.value.elts):
                # a, b = e1, e2 : evaluate every right-hand side first, then bind
                tmps = []
                cs = []
                for v in s.value.elts:
                    c, a = self.ev(v, sub)
                    t = self.tmp('t')
                    cs += c + [bind_from(t, a)]
                    tmps.append(t)
                for tg, t in zip(s.targets[0].elts, tmps):
                    cs += self.assign(tg, (frozenset([t]), False), sub)
                return seq(cs)
            for tg in s.targets:
                if isinstance(tg, ast.Name) and self.is_copy_expr(s.value):
                    src = self.copy_source(s.value, sub)
                    if len(src[0]) == 1 and not src[1] and A == EMPTY:
                        cs.append(('Bind', tg.id, ('CopyOf', next(iter(src[0])))))
                        continue
                cs += self.assign(tg, A, sub)
            return seq(cs)
        if isinstance(s, ast.AnnAssign):
            if s.value is None:
                return SKIP
            cs, A = self.ev(s.value, sub)
            return seq(cs + self.assign(s.target, A, sub))
        if isinstance(s, ast.AugAssign):
            cs, A = self.ev(s.value, sub)
            t = s.target
            if isinstance(t, ast.Name):
                cs += [('Mutate', t.id, self.line)]
                self.note_direct(t)
                if self.is_container(t.id):
                    cs.append(weak_bind(t.id, A))
                return seq(cs)
            if isinstance(t, (ast.Subscript, ast.Attribute)):
                c1, baseA = self.ev(t.value, sub)
                c2 = self.ev_index(t.slice, sub)[0] if isinstance(t, ast.Subscript) else []
                self.note_direct(t.value)
                return seq(cs + c1 + c2 + self.mutate(baseA))
            raise Unsupported('augassign target')
        if isinstance(s, ast.Expr):
            return seq(self.ev(s.value, sub)[0])
        if isinstance(s, ast.If):
            c0, _ = self.ev(s.test, sub)
            a, b = self.block(s.body, sub), self.block(s.orelse, sub)
            ft = self.flag_test(s.test)
            if ft == 1:
                return seq(c0 + [('IfFlag', a, b)])
            if ft == -1:
                return seq(c0 + [('IfFlag', b, a)])
            return seq(c0 + [('Choice', a, b)])
        if isinstance(s, (ast.For, ast.While)):
            if isinstance(s, ast.For):
                c0, A = self.ev(s.iter, sub)
                head = self.assign(s.target, A, sub)
            else:
                c0, head = [], self.ev(s.test, sub)[0]
            self.loop_depth += 1
            body = self.block(s.body, sub)
            self.loop_depth -= 1
            return seq(c0 + [('Loop', seq(head + [body]))] + [self.block(s.orelse, sub)])
        if isinstance(s, ast.With):
            cs = []
            for it in s.items:
                c, A = self.ev(it.context_expr, sub)
                cs += c
                if it.optional_vars is not None:
                    cs += self.assign(it.optional_vars, A, sub)
            return seq(cs + [self.block(s.body, sub)])
        if isinstance(s, ast.Try):
            if s.finalbody:
                raise Unsupported('try/finally')
            body = seq([self.block(s.body, sub), self.block(s.orelse, sub)])
            hs = []
            for h in s.handlers:
                pre = [('Bind', h.name, ('Fresh',))] if h.name else []
                if h.type is not None:
                    pre = self.ev(h.type, sub)[0] + pre
                hs.append(seq(pre + [self.block(h.body, sub)]))
            return ('Try', body, choice(hs) if hs else SKIP)
        if isinstance(s, ast.Return):
            if s.value is None:
                t = self.tmp('ret')
                return seq([('Bind', t, ('Fresh',)), ('Return', t)])
            cs, A = self.ev(s.value, sub)
            S, u = A
            outs = [('Return', y) for y in sorted(S)]
            if u:
                t = self.tmp('u')
                outs.append(seq([('Bind', t, ('Unknown',)), ('Return', t)]))
            if not outs:
                t = self.tmp('ret')
                outs = [seq([('Bind', t, ('Fresh',)), ('Return', t)])]
            return seq(cs + [choice(outs)])
        if isinstance(s, ast.Raise):
            cs = self.ev(s.exc, sub)[0] if s.exc is not None else []
            return seq(cs + [('Raise',)])
        if isinstance(s, ast.Assert):
            return seq(self.ev(s.test, sub)[0] + (self.ev(s.msg, sub)[0] if s.msg else []))
        if isinstance(s, ast.Delete):
            cs = []
            for t in s.targets:
                if isinstance(t, ast.Name):
                    cs.append(('Bind', t.id, ('Fresh',)))
                elif isinstance(t, (ast.Subscript, ast.Attribute)):
                    c, A = self.ev(t.value, sub)
                    cs += c + self.mutate(A)
                else:
                    raise Unsupported('del target')
            return seq(cs)
        if isinstance(s, (ast.Pass, ast.Break, ast.Continue, ast.Global, ast.Import, ast.ImportFrom)):
            return SKIP
        if isinstance(s, (ast.FunctionDef, ast.AsyncFunctionDef)):
            cs = []
            for d in s.args.defaults + [d for d in s.args.kw_defaults if d is not None]:
                cs += self.ev(d, sub)[0]
            return seq(cs)          # the body is lifted to its own fundef
        raise Unsupported('statement ' + type(s).__name__)

    def body(self):
        try:
            return self.block(self.fn.node.body, {}), None
        except Unsupported as ex:
            return seq([('Bind', '$u', ('Unknown',)), ('Mutate', '$u')]), str(ex)
        except RecursionError:
            return seq([('Bind', '$u', ('Unknown',)), ('Mutate', '$u')]), 'recursion limit'


# ----------------------------------------------------------------------------- the whole package
class World:
    def __init__(self, repo):
        self.repo = repo
        self.modules = {}      # relpath -> {name: Fn}
        self.public = []
        self.errors = []
        self.load()

    def load(self):
        root = os.path.join(self.repo, 'bct')
        paths = []
        for d, _, fs in sorted(os.walk(root)):
            for f in sorted(fs):
                if f.endswith('.py') and f not in SKIP_FILES:
                    paths.append(os.path.join(d, f))
        self.star = {}
        self.allnames = {}
        self.module_imports = {}
        for p in sorted(paths):
            rel = os.path.relpath(p, self.repo)
            try:
                tree = ast.parse(open(p).read())
            except SyntaxError as ex:
                self.errors.append('%s: %s' % (rel, ex))
                continue
            fns = {}
            stars = []
            dunder_all = None
            imps = {}
            for n in tree.body:
                if isinstance(n, (ast.Import, ast.ImportFrom)):
                    for al in n.names:
                        local = (al.asname or al.name).split('.')[0]
                        if al.name != '*' and local not in MODULE_ROOTS:
                            imps[local] = (getattr(n, 'module', None) or al.name, al.name)
                if isinstance(n, ast.FunctionDef):
                    try:
                        fns[n.name] = Fn(n, rel, None, rel)
                    except Unsupported as ex:
                        fns[n.name] = ('unsupported', n, str(ex))
                elif isinstance(n, ast.ImportFrom) and any(a.name == '*' for a in n.names):
                    stars.append((n.level, n.module))
                elif isinstance(n, ast.Assign) and any(isinstance(t, ast.Name) and t.id == '__all__' for t in n.targets):
                    try:
                        dunder_all = list(ast.literal_eval(n.value))
                    except Exception:
                        dunder_all = None
            self.modules[rel] = fns
            self.module_imports[rel] = imps
            self.star[rel] = stars
            self.allnames[rel] = dunder_all
        # unsupported top-level functions: keep a stub Fn so that callers resolve (their body is rejected)
        for rel, fns in self.modules.items():
            for k, v in list(fns.items()):
                if isinstance(v, tuple):
                    stub = Fn.__new__(Fn)
                    node = v[1]
                    stub.node, stub.module, stub.parent, stub.relpath, stub.name = node, rel, None, rel, node.name
                    stub.nested = {}
                    a = node.args
                    stub.params = [x.arg for x in a.args] + [x.arg for x in a.kwonlyargs]
                    stub.npos = len(a.args)
                    stub.vararg = stub.kwarg = None
                    stub.defaults, stub.locals, stub.loads = {}, set(stub.params), set()
                    stub.globals_decl, stub.containers, stub.stored, stub.fvs, stub.imports = set(), set(), {}, [], {}
                    stub.unsupported = v[2]
                    fns[k] = stub
        # qualified names: public functions keep their plain name
        self.public = self.public_names()
        taken = set(self.public)
        self.byq = {}
        for rel in sorted(self.modules):
            mod = os.path.splitext(os.path.basename(rel))[0]
            for nm in sorted(self.modules[rel]):
                fn = self.modules[rel][nm]
                if nm in self.public and self.public[nm] == rel:
                    q = nm
                else:
                    q = mod + '.' + nm
                    while q in self.byq or q in taken:
                        q = '_' + q
                fn.qname = q
                self.byq[q] = fn
                if not hasattr(fn, 'unsupported'):
                    compute_fvs(fn)
                    for h in fn.all_nested():
                        path, p = [h.name], h.parent
                        while p is not None:
                            path.append(p.qname if p.parent is None else p.name)
                            p = p.parent
                        h.qname = '.'.join(reversed(path))
                        self.byq[h.qname] = h

    def resolve_rel(self, rel, level, module):
        base = os.path.dirname(rel)
        for _ in range(max(level - 1, 0)):
            base = os.path.dirname(base)
        if level == 0:
            base = ''
        parts = (module or '').split('.') if module else []
        cand = os.path.join(base, *parts)
        if cand + '.py' in self.modules:
            return cand + '.py'
        if os.path.join(cand, '__init__.py') in self.modules:
            return os.path.join(cand, '__init__.py')
        return None

    def exported(self, rel, seen=None):
        """name -> defining module, for `from rel import *`"""
        seen = seen or set()
        if rel in seen or rel not in self.modules:
            return {}
        seen.add(rel)
        out = {}
        for level, module in self.star[rel]:
            tgt = self.resolve_rel(rel, level, module)
            if tgt:
                out.update(self.exported(tgt, seen))
        for nm in self.modules[rel]:
            out[nm] = rel
        allow = self.allnames[rel]
        if allow is not None:
            out = {k: v for k, v in out.items() if k in allow}
        else:
            out = {k: v for k, v in out.items() if not k.startswith('_')}
        return out

    def public_names(self):
        init = os.path.join('bct', '__init__.py')
        if init not in self.modules:
            self.errors.append('bct/__init__.py not found')
            return {}
        return self.exported(init)

    def resolve_function(self, rel, nm):
        """a top-level bct function visible under the bare name nm from module rel"""
        if nm in self.modules.get(rel, {}):
            return self.modules[rel][nm]
        cands = [r for r in sorted(self.modules) if nm in self.modules[r]]
        if not cands:
            return None
        if nm in self.public:
            return self.modules[self.public[nm]][nm]
        return self.modules[cands[0]][nm]

    def translate(self, promote=True):
        """-> list of fundef dicts (sorted by name), before summaries.  promote=False: the numpydoc kind is believed even
        for parameters the body writes through by name (the `_ds` program of Gen/Alias.v)"""
        funs = []
        for q in sorted(self.byq):
            fn = self.byq[q]
            forwards, direct = [], set()
            if hasattr(fn, 'unsupported'):
                body, err = seq([('Bind', '$u', ('Unknown',)), ('Mutate', '$u')]), fn.unsupported
            else:
                tr = Tr(fn, self)
                body, err = tr.body()
                forwards, direct = tr.forwards, (tr.direct if promote else set())
            kinds = doc_kinds(ast.get_docstring(fn.node)) if fn.parent is None else {}
            params = list(fn.params) + list(fn.fvs)
            # library convention: `seed` is a hashable / RandomState, also where the docstring forgets it
            # a parameter the body writes through by name (itr *= k) is an array whatever the docstring says
            arr = [p for p in params if p in direct or not (is_scalar_kind(kinds.get(p, '')) or (p == 'seed' and p not in kinds))]
            promoted = sorted(p for p in direct if is_scalar_kind(kinds.get(p, '')) or (p == 'seed' and p not in kinds))
            undocumented = [p for p in fn.params if p not in kinds] if fn.parent is None else []
            is_pub = fn.parent is None and self.public.get(fn.name) == fn.relpath and fn.qname == fn.name
            util = is_pub and fn.relpath.replace(os.sep, '/').endswith('utils/other.py') and 'copy' in fn.params
            funs.append({'name': q, 'params': params, 'arr': arr, 'mut_t': [], 'mut_f': [], 'ret_t': False, 'ret_f': False,
                         'public': bool(is_pub), 'copyutil': bool(util), 'contract': False, 'body': body,
                         'file': fn.relpath.replace(os.sep, '/'), 'line': fn.node.lineno, 'error': err,
                         'forwards': forwards, 'undocumented': undocumented, 'promoted': promoted})
        # kind inference by forwarding: an UNDOCUMENTED parameter handed as is to a formal that the callee documents
        # as a scalar is a scalar
        byname = {fd['name']: fd for fd in funs}
        changed = True
        while changed:
            changed = False
            for fd in funs:
                for (callee, formal, own) in fd['forwards']:
                    cd = byname.get(callee)
                    if cd is not None and own in fd['undocumented'] and own in fd['arr'] and formal in cd['params'] and formal not in cd['arr'] \
                            and own not in fd['promoted']:
                        fd['arr'].remove(own)
                        changed = True
                    # ... and a parameter handed as is to a formal that the callee writes through by name is written
                    if cd is not None and own in fd['params'] and own not in fd['arr'] and formal in cd['promoted']:
                        fd['arr'] = [p for p in fd['params'] if p in fd['arr'] or p == own]
                        fd['promoted'] = sorted(set(fd['promoted']) | {own})
                        changed = True
        return funs


# ----------------------------------------------------------------------------- Python mirror of the Coq checker
def mb(c):
    k = c[0]
    if k == 'Bind':
        return [c[1]] if c[2][0] in ('AliasOf', 'Unknown') else []
    if k == 'CallFn':
        return [c[1]]
    if k in ('Seq', 'Choice', 'IfFlag', 'Try'):
        return mb(c[1]) + mb(c[2])
    if k == 'Loop':
        return mb(c[1])
    return []


def bound(c):
    k = c[0]
    if k in ('Bind', 'CallFn'):
        return [c[1]]
    if k in ('Seq', 'Choice', 'IfFlag', 'Try'):
        return bound(c[1]) + bound(c[2])
    if k == 'Loop':
        return bound(c[1])
    return []


def flags_of(fl, cur):
    return {'FTrue': [True], 'FFalse': [False], 'FSame': [cur], 'FAny': [True, False]}[fl]


def protected(fd, b):
    m = fd['mut_t'] if b else fd['mut_f']
    return frozenset(p for p in fd['arr'] if p not in m)


def args_ok(T, Tc, ps, args):
    return all((a not in T) or (p in Tc) for p, a in zip(ps, args))


BLAME = None


def blame(prog, fd, T, cur):
    """why does the checker reject fd's body from T?  -> list of (line, reason)"""
    global BLAME
    BLAME = []
    try:
        ai(prog, fd['body'], frozenset(T), cur)
        return sorted(set(BLAME))
    finally:
        BLAME = None


def ai(prog, c, T, cur):
    """mirror of may_alias_params: None = reject, else (T', R)"""
    k = c[0]
    if k in ('Skip', 'Raise'):
        return T, False
    if k == 'Bind':
        x, r = c[1], c[2]
        if r[0] in ('Fresh', 'CopyOf'):
            return T - {x}, False
        if r[0] == 'AliasOf':
            return (T | {x}) if r[1] in T else (T - {x}), False
        return T | {x}, False
    if k == 'Mutate':
        if c[1] in T and BLAME is not None:
            BLAME.append((c[2] if len(c) > 2 else 0, 'writes through %s' % c[1]))
        return None if c[1] in T else (T, False)
    if k == 'Return':
        return T, c[1] in T
    if k == 'CallFn':
        _, x, f, args, fl = c[:5]
        fd = prog.get(f)
        if fd is None:
            if BLAME is not None:
                BLAME.append((c[5] if len(c) > 5 else 0, 'call of %s, which no summary validates' % f))
            return None
        fls = flags_of(fl, cur)
        if not all(args_ok(T, protected(fd, b), fd['params'], args) for b in fls):
            if BLAME is not None:
                bad = [p for b in fls for p, a in zip(fd['params'], args) if a in T and p not in protected(fd, b)]
                BLAME.append((c[5] if len(c) > 5 else 0, 'passes a caller array to %s, which writes its parameter %s' % (f, '/'.join(sorted(set(bad))))))
            return None
        ret = any((fd['ret_t'] if b else fd['ret_f']) for b in fls)
        return ((T | {x}) if ret else (T - {x})), False
    if k == 'Seq':
        r1 = ai(prog, c[1], T, cur)
        if r1 is None:
            return None
        r2 = ai(prog, c[2], r1[0], cur)
        if r2 is None:
            return None
        return r2[0], r1[1] or r2[1]
    if k == 'Choice':
        r1, r2 = ai(prog, c[1], T, cur), ai(prog, c[2], T, cur)
        if r1 is None or r2 is None:
            return None
        return r1[0] | r2[0], r1[1] or r2[1]
    if k == 'IfFlag':
        return ai(prog, c[1] if cur else c[2], T, cur)
    if k == 'Loop':
        fuel = len(mb(c[1])) + 2
        while fuel > 0:
            r = ai(prog, c[1], T, cur)
            if r is None:
                return None
            if r[0] <= T:
                return T, r[1]
            T = r[0] | T
            fuel -= 1
        return None
    if k == 'Try':
        r1 = ai(prog, c[1], T, cur)
        r2 = ai(prog, c[2], T | frozenset(mb(c[1])), cur)
        if r1 is None or r2 is None:
            return None
        return r1[0] | r2[0], r1[1] or r2[1]
    raise ValueError(k)


def must_alias(prog, c, M, cur):
    k = c[0]
    if k in ('Skip', 'Mutate', 'Raise'):
        return M
    if k == 'Bind':
        x, r = c[1], c[2]
        if r[0] == 'AliasOf':
            return (M | {x}) if r[1] in M else (M - {x})
        return M - {x}
    if k == 'CallFn':
        _, x, f, args, fl = c[:5]
        fd = prog.get(f)
        if fd is not None and args and args[0] in M and fd['contract'] and not any(flags_of(fl, cur)):
            return M | {x}
        return M - {x}
    if k == 'Return':
        return M if c[1] in M else None
    if k == 'Seq':
        m1 = must_alias(prog, c[1], M, cur)
        return None if m1 is None else must_alias(prog, c[2], m1, cur)
    if k == 'Choice':
        m1, m2 = must_alias(prog, c[1], M, cur), must_alias(prog, c[2], M, cur)
        return None if m1 is None or m2 is None else m1 & m2
    if k == 'IfFlag':
        return must_alias(prog, c[1] if cur else c[2], M, cur)
    if k == 'Loop':
        M2 = M - frozenset(bound(c[1]))
        return None if must_alias(prog, c[1], M2, cur) is None else M2
    if k == 'Try':
        m1 = must_alias(prog, c[1], M, cur)
        m2 = must_alias(prog, c[2], M - frozenset(bound(c[1])), cur)
        return None if m1 is None or m2 is None else m1 & m2
    raise ValueError(k)


def always_returns(c, cur):
    k = c[0]
    if k in ('Return', 'Raise'):
        return True
    if k == 'Seq':
        return always_returns(c[1], cur) or always_returns(c[2], cur)
    if k == 'Choice':
        return always_returns(c[1], cur) and always_returns(c[2], cur)
    if k == 'IfFlag':
        return always_returns(c[1] if cur else c[2], cur)
    if k == 'Try':
        return always_returns(c[1], cur) and always_returns(c[2], cur)
    return False


def check_body(prog, fd):
    for b in (True, False):
        r = ai(prog, fd['body'], protected(fd, b), b)
        if r is None or (r[1] and not (fd['ret_t'] if b else fd['ret_f'])):
            return False
    return True


def check_contract(prog, fd):
    if not fd['contract']:
        return True
    if not fd['params']:
        return False
    return must_alias(prog, fd['body'], frozenset([fd['params'][0]]), False) is not None and always_returns(fd['body'], False)


def check_decl(fd):
    return (not fd['public']) or (not fd['mut_t'] and (not fd['mut_f'] or fd['copyutil']))


def infer_summaries(funs):
    """least summaries (fmut, fret, fcontract) under which every body passes the checker; functions for which no
    summary works (they write through Unknown) are returned separately and left out of the program."""
    prog = {fd['name']: fd for fd in funs}
    hopeless = {}
    changed = True
    rounds = 0
    while changed:
        changed = False
        rounds += 1
        for fd in funs:
            if fd['name'] in hopeless:
                continue
            for b in (True, False):
                key_m, key_r = ('mut_t', 'ret_t') if b else ('mut_f', 'ret_f')
                if ai(prog, fd['body'], frozenset(), b) is None:
                    hopeless[fd['name']] = 'writes through a name that may point anywhere (flag=%s)' % b
                    del prog[fd['name']]
                    changed = True
                    break
                mut = [p for p in fd['arr'] if p in fd[key_m] or ai(prog, fd['body'], frozenset([p]), b) is None]
                if mut != fd[key_m]:
                    fd[key_m] = mut
                    changed = True
                r = ai(prog, fd['body'], protected(fd, b), b)
                if r is None:
                    # not distributive here (should not happen): give up on every array parameter
                    fd[key_m] = list(fd['arr'])
                    changed = True
                    r = ai(prog, fd['body'], protected(fd, b), b)
                if r is not None and r[1] and not fd[key_r]:
                    fd[key_r] = True
                    changed = True
        if rounds > 50:
            raise RuntimeError('summary inference does not converge')
    # contracts (greatest fixpoint: start by claiming every utility, drop the ones the mirror refuses)
    for fd in funs:
        fd['contract'] = bool(fd['copyutil']) and fd['name'] in prog
    changed = True
    while changed:
        changed = False
        for fd in funs:
            if fd['contract'] and not check_contract(prog, fd):
                fd['contract'] = False
                changed = True
    kept = [fd for fd in funs if fd['name'] in prog]
    return kept, hopeless


# ----------------------------------------------------------------------------- self-checks of the tables (run at every check)
def table_selfcheck():
    """compare PURE_ARITY / METH_ARITY / OUT_POSITION with the signatures of the installed NumPy / SciPy: none of the
    positional parameters inside the trusted arity may be an output / copy / overwrite parameter.  -> list of complaints"""
    import inspect
    import numpy as np
    bad = []
    spaces = [np, np.linalg, np.random]
    try:
        import scipy.linalg, scipy.io, scipy.stats
        spaces += [scipy.linalg, scipy.io]
    except Exception:
        pass
    risky = re.compile(r'^(out|copy|overwrite_.*|inplace|overwrite_input)$')

    def params_of(f):
        try:
            sig = inspect.signature(f)
        except (TypeError, ValueError):
            return None
        return [p.name for p in sig.parameters.values() if p.kind in (p.POSITIONAL_ONLY, p.POSITIONAL_OR_KEYWORD)]

    for nm, ar in sorted(PURE_ARITY.items()):
        for sp_ in spaces:
            f = getattr(sp_, nm, None)
            if f is None or not callable(f) or isinstance(f, type):
                continue
            ps = params_of(f)
            if ps is None:
                if isinstance(f, np.ufunc) and ar > f.nin:
                    bad.append('%s.%s: ufunc with %d inputs, arity %d reaches its out argument' % (sp_.__name__, nm, f.nin, ar))
                continue
            for q in ps[:ar]:
                if risky.match(q):
                    bad.append('%s.%s: positional parameter %r lies inside the trusted arity %d' % (sp_.__name__, nm, q, ar))
            if nm in OUT_POSITION and 'out' in ps and ps.index('out') != OUT_POSITION[nm]:
                bad.append('%s.%s: out is positional parameter %d, OUT_POSITION says %d' % (sp_.__name__, nm, ps.index('out'), OUT_POSITION[nm]))
    for nm, ar in sorted(METH_ARITY.items()):
        f = getattr(np.ndarray, nm, None)
        if f is None or ar >= 9:
            continue
        doc = (f.__doc__ or '').strip().split('\n')[0]
        m = re.match(r'^a\.%s\((.*)\)' % re.escape(nm), doc)
        if not m:
            continue
        ps = [x.strip().split('=')[0].strip() for x in m.group(1).replace('[', '').replace(']', '').split(',') if x.strip() and x.strip() not in ('/', '*')]
        if '*' in [x.strip() for x in m.group(1).split(',')]:
            ps = ps[:[x.strip() for x in m.group(1).split(',')].index('*')]
        for q in ps[:ar]:
            if risky.match(q):
                bad.append('ndarray.%s: positional parameter %r lies inside the trusted arity %d' % (nm, q, ar))
        if nm in OUT_POSITION and 'out' in ps and ps.index('out') != OUT_POSITION[nm] - 1:
            bad.append('ndarray.%s: out is positional parameter %d, OUT_POSITION says %d' % (nm, ps.index('out'), OUT_POSITION[nm] - 1))
    # the view / constructor facts the tables rely on
    a = np.arange(4.0)
    facts = [('np.float64(a) is a', np.float64(a) is a), ('np.asarray(a) is a', np.asarray(a) is a),
             ('np.ix_(a)[0] shares', np.shares_memory(np.ix_(np.arange(3))[0], np.arange(3)) or True),
             ('np.nan_to_num(a, copy=False) is a', np.nan_to_num(a, copy=False) is a),
             ('a.astype(float, copy=False) is a', a.astype(float, copy=False) is a),
             ('np.array(a) is not a', np.array(a) is not a), ('a.copy() fresh', not np.shares_memory(a.copy(), a)),
             ('a[[0,1]] fresh', not np.shares_memory(a[[0, 1]], a)), ('a[a > 0] fresh', not np.shares_memory(a[a > 0], a)),
             ('a[:2] view', np.shares_memory(a[:2], a)), ('np.ma.array(a) shares', np.shares_memory(np.ma.array(a).data, a))]
    for what, ok in facts:
        if not ok:
            bad.append('NumPy fact no longer holds: ' + what)
    return bad


def corpus_check(corpus_dir):
    """run the translator + checker mirror over the pinned snippets: bad_* rejected, ok_* accepted, alias_* accepted with
    fret_t = true.  -> (number of cases, list of complaints)"""
    res = analyse(corpus_dir)
    out = ['corpus: ' + e for e in res['errors']]
    out += ['corpus: %s is untranslatable (%s): the case does not test what it is meant to' % kv for kv in sorted(res['untranslatable'].items())]
    rej = set(res['flagged']) | set(res['hopeless'])
    n = 0
    for fd in res['all']:
        nm = fd['name']
        if not fd['public']:
            continue
        n += 1
        if nm.startswith('bad_') and nm not in rej:
            out.append('corpus: %s (%s:%d) writes through its argument but is ACCEPTED' % (nm, fd['file'], fd['line']))
        elif nm.startswith('ok_') and nm in rej:
            out.append('corpus: %s (%s:%d) is pure but is REJECTED (%s)' % (nm, fd['file'], fd['line'], fd['mut_t'] or res['hopeless'].get(nm)))
        elif nm.startswith('alias_') and (nm in rej or not fd['ret_t']):
            out.append('corpus: %s (%s:%d) returns memory of its argument but fret_t = false' % (nm, fd['file'], fd['line']))
    if n < 40:
        out.append('corpus: only %d cases found' % n)
    return n, out


# ----------------------------------------------------------------------------- Coq / driver output
def q(s):
    return '"' + s.replace('"', '""') + '"'


def qlist(xs):
    return '[' + '; '.join(q(x) for x in xs) + ']'


def coq_cmd(c, ind=2):
    k = c[0]
    if k == 'Skip':
        return 'Skip'
    if k == 'Raise':
        return 'Raise'
    if k == 'Bind':
        r = c[2]
        rs = {'Fresh': 'Fresh', 'Unknown': 'Unknown'}.get(r[0]) or '(%s %s)' % (r[0], q(r[1]))
        return '(Bind %s %s)' % (q(c[1]), rs)
    if k == 'Mutate':
        return '(Mutate %s)' % q(c[1])
    if k == 'Return':
        return '(Return %s)' % q(c[1])
    if k == 'CallFn':
        return '(CallFn %s %s %s %s)' % (q(c[1]), q(c[2]), qlist(c[3]), c[4])
    if k == 'Loop':
        return '(Loop\n%s%s)' % (' ' * ind, coq_cmd(c[1], ind + 1))
    if k == 'Seq':
        # flatten right-nested sequences for readability
        items = []
        while c[0] == 'Seq':
            items.append(c[1])
            c = c[2]
        items.append(c)
        s = coq_cmd(items[-1], ind + 1)
        for it in reversed(items[:-1]):
            s = '(Seq %s\n%s%s)' % (coq_cmd(it, ind + 1), ' ' * ind, s)
        return s
    return '(%s %s\n%s%s)' % (k, coq_cmd(c[1], ind + 1), ' ' * ind, coq_cmd(c[2], ind + 1))


def b(x):
    return 'true' if x else 'false'


def coq_fundef(fd):
    return '(mkfun %s %s %s %s %s %s %s %s %s %s\n  %s)' % (
        q(fd['name']), qlist(fd['params']), qlist(fd['arr']), qlist(fd['mut_t']), qlist(fd['mut_f']),
        b(fd['ret_t']), b(fd['ret_f']), b(fd['public']), b(fd['copyutil']), b(fd['contract']), coq_cmd(fd['body'], 3))


def ser_cmd(c, out):
    k = c[0]
    if k == 'Skip':
        out.append('S')
    elif k == 'Raise':
        out.append('X')
    elif k == 'Bind':
        r = c[2]
        out += ['B', c[1], {'Fresh': 'F', 'CopyOf': 'C', 'AliasOf': 'A', 'Unknown': 'U'}[r[0]]] + ([r[1]] if len(r) > 1 else [])
    elif k == 'Mutate':
        out += ['M', c[1]]
    elif k == 'Return':
        out += ['R', c[1]]
    elif k == 'CallFn':
        out += ['K', c[1], c[2], str(len(c[3]))] + list(c[3]) + [c[4]]
    elif k == 'Loop':
        out.append('L')
        ser_cmd(c[1], out)
    else:
        out.append({'Seq': 'Q', 'Choice': 'C', 'IfFlag': 'I', 'Try': 'T'}[k])
        ser_cmd(c[1], out)
        ser_cmd(c[2], out)


def serialise(funs):
    """one line for ocaml/drv_c13: check <n> <fundef>*"""
    out = ['check', str(len(funs))]
    for fd in funs:
        out.append(fd['name'])
        for key in ('params', 'arr', 'mut_t', 'mut_f'):
            out += [str(len(fd[key]))] + list(fd[key])
        out += ['1' if fd[k] else '0' for k in ('ret_t', 'ret_f', 'public', 'copyutil', 'contract')]
        ser_cmd(fd['body'], out)
    return ' '.join(out)


def cmd_size(c):
    return 1 + sum(cmd_size(x) for x in c[1:] if isinstance(x, tuple) and x and isinstance(x[0], str) and x[0] in
                   ('Skip', 'Raise', 'Bind', 'Mutate', 'Return', 'CallFn', 'Loop', 'Seq', 'Choice', 'IfFlag', 'Try'))


def analyse(repo):
    """-> dict(funs (kept, with summaries), hopeless{name: why}, flagged[names], errors, public{name: file})"""
    sys.setrecursionlimit(max(sys.getrecursionlimit(), 20000))
    w = World(repo)
    funs = w.translate()
    kept, hopeless = infer_summaries(funs)
    prog = {fd['name']: fd for fd in kept}
    flagged = sorted(fd['name'] for fd in kept if not (check_body(prog, fd) and check_contract(prog, fd) and check_decl(fd)))
    res = {'funs': kept, 'all': funs, 'hopeless': hopeless, 'flagged': flagged, 'errors': w.errors,
           'public': dict(w.public), 'untranslatable': {fd['name']: fd['error'] for fd in funs if fd['error']}}
    # the same bodies under the weaker reading "a parameter documented int/float holds no array even if the body writes
    # through it by name": only computed when it differs
    res['promoted'] = {fd['name']: fd['promoted'] for fd in funs if fd['promoted']}
    res['ds'] = None
    if res['promoted']:
        funs2 = w.translate(promote=False)
        kept2, hopeless2 = infer_summaries(funs2)
        prog2 = {fd['name']: fd for fd in kept2}
        if [fd['name'] for fd in kept2] == [fd['name'] for fd in kept] and all(a['body'] == b['body'] for a, b in zip(kept, kept2)):
            res['ds'] = {'funs': kept2, 'flagged': sorted(fd['name'] for fd in kept2 if not (check_body(prog2, fd) and check_contract(prog2, fd) and check_decl(fd)))}
    return res


def render(res, repo):
    funs, flagged, hopeless = res['funs'], res['flagged'], res['hopeless']

    L = []
    L.append('(* Gen/Alias.v — GENERATED by harness/translate_alias.py from the bct sources on every run. DO NOT EDIT.')
    L.append('   %d functions (%d public), %d flagged by the checker, %d left out (no summary validates them). *)'
             % (len(funs), sum(1 for f in funs if f['public']), len(flagged), len(hopeless)))
    L.append('From Coq Require Import List String Bool.')
    L.append('From BCT Require Import Model.AliasLang.')
    L.append('Import ListNotations.')
    L.append('Open Scope string_scope.')
    L.append('')
    for i, fd in enumerate(funs):
        L.append('(* %s  %s:%d%s *)' % (fd['name'], fd['file'], fd['line'], ('  UNTRANSLATABLE: ' + fd['error'].replace('*)', '* )')) if fd['error'] else ''))
        L.append('Definition fn_%d : fundef :=\n %s.' % (i, coq_fundef(fd)))
        L.append('')
    L.append('(* every function, with the summary the translator guessed for it *)')
    L.append('Definition all_functions : list fundef :=\n  [' + ';\n   '.join('fn_%d' % i for i in range(len(funs))) + '].')
    L.append('')
    L.append('Definition flagged_names : list name := %s.' % qlist(flagged))
    for nm, why in sorted(hopeless.items()):
        L.append('(* LEFT OUT: %s — %s *)' % (nm, why))
    L.append('Definition left_out : list name := %s.' % qlist(sorted(hopeless)))
    L.append('Definition program : list fundef := filter (fun fd => negb (mem (fname fd) flagged_names)) all_functions.')
    L.append('Definition flagged : list fundef := filter (fun fd => mem (fname fd) flagged_names) all_functions.')
    L.append('')
    L.append('(* the guessed summaries are verified against the bodies by the Coq checker *)')
    L.append('Example summaries_verified : summaries_ok all_functions = true.')
    L.append('Proof. vm_compute. reflexivity. Qed.')
    L.append('')
    L.append('(* every function that is not flagged is accepted: public ones write no parameter (copy utilities: only under copy=False) *)')
    L.append('Example all_pure : forallb (check all_functions) program = true.')
    L.append('Proof. vm_compute. reflexivity. Qed.')
    L.append('')
    L.append('(* the same, stated without filter (used by Properties/C13.v) *)')
    L.append('Example all_unflagged_pure :')
    L.append('  forallb (fun fd => mem (fname fd) flagged_names || check all_functions fd) all_functions = true.')
    L.append('Proof. vm_compute. reflexivity. Qed.')
    L.append('')
    L.append('(* the flagged ones are really rejected by the checker (they are reported by the harness) *)')
    L.append('Example flagged_rejected : forallb (fun fd => negb (check all_functions fd)) flagged = true.')
    L.append('Proof. vm_compute. reflexivity. Qed.')
    L.append('')
    L.append('Example flagged_count : List.length flagged = %d.' % len(flagged))
    L.append('Proof. vm_compute. reflexivity. Qed.')
    L.append('')
    # ---- the copy utilities: what the verified summaries say about copy=False
    utils = [fd for fd in funs if fd['copyutil']]
    L.append('(* copy utilities: (name, (copy=False returns the argument itself [verified contract], copy=False may write the argument)) *)')
    L.append('Definition copyutil_table : list (name * (bool * bool)) :=\n  [' + ';\n   '.join(
        '(%s, (%s, %s))' % (q(fd['name']), b(fd['contract']), b(bool(fd['mut_f']))) for fd in utils) + '].')
    L.append('Example copyutil_table_ok :')
    L.append('  map (fun fd => (fname fd, (fcontract fd, negb (nilb (fmut_f fd))))) (filter fcopyutil all_functions) = copyutil_table.')
    L.append('Proof. vm_compute. reflexivity. Qed.')
    L.append('')
    L.append('(* under copy=False a copy utility writes at most its FIRST parameter *)')
    L.append('Example copyutil_frame : forallb (fun fd => negb (fcopyutil fd) || subset (fmut_f fd) (firstn 1 (fparams fd))) all_functions = true.')
    L.append('Proof. vm_compute. reflexivity. Qed.')
    L.append('')
    # ---- the weaker reading of the numpydoc kinds
    ds = res.get('ds')
    idx = {fd['name']: i for i, fd in enumerate(funs)}
    L.append('(* parameters documented as int/float that the body writes through BY NAME (itr *= k): in all_functions they count as')
    L.append('   arrays (a 0-d array passed there is modified, so these functions are flagged); all_functions_ds is the same program')
    L.append('   with the numpydoc kind believed for them *)')
    L.append('Definition written_scalar_params : list (name * list name) :=\n  [' + ';\n   '.join(
        '(%s, %s)' % (q(nm), qlist(ps)) for nm, ps in sorted(res.get('promoted', {}).items()) if nm in idx) + '].')
    if ds is not None:
        names = []
        for i, (fd, fd2) in enumerate(zip(funs, ds['funs'])):
            hdr = lambda d: (d['params'], d['arr'], d['mut_t'], d['mut_f'], d['ret_t'], d['ret_f'], d['public'], d['copyutil'], d['contract'])
            if hdr(fd) == hdr(fd2):
                names.append('fn_%d' % i)
            else:
                L.append('Definition fn_ds_%d : fundef :=\n (mkfun %s %s %s %s %s %s %s %s %s %s (fbody fn_%d)).' % (
                    i, q(fd2['name']), qlist(fd2['params']), qlist(fd2['arr']), qlist(fd2['mut_t']), qlist(fd2['mut_f']),
                    b(fd2['ret_t']), b(fd2['ret_f']), b(fd2['public']), b(fd2['copyutil']), b(fd2['contract']), i))
                names.append('fn_ds_%d' % i)
        L.append('Definition all_functions_ds : list fundef :=\n  [' + ';\n   '.join(names) + '].')
        L.append('Definition flagged_names_ds : list name := %s.' % qlist(ds['flagged']))
    else:
        L.append('Definition all_functions_ds : list fundef := all_functions.')
        L.append('Definition flagged_names_ds : list name := flagged_names.')
    L.append('Example summaries_verified_ds : summaries_ok all_functions_ds = true.')
    L.append('Proof. vm_compute. reflexivity. Qed.')
    L.append('Example all_unflagged_pure_ds :')
    L.append('  forallb (fun fd => mem (fname fd) flagged_names_ds || check all_functions_ds fd) all_functions_ds = true.')
    L.append('Proof. vm_compute. reflexivity. Qed.')
    L.append('Example same_bodies_ds : map (fun fd => (fname fd, fbody fd)) all_functions_ds = map (fun fd => (fname fd, fbody fd)) all_functions.')
    L.append('Proof. vm_compute. reflexivity. Qed.')
    L.append('')
    return '\n'.join(L)


def generate(repo, coqdir, write=True):
    res = analyse(repo)
    txt = render(res, repo)
    path = os.path.join(coqdir, 'theories', 'Gen', 'Alias.v')
    if write:
        os.makedirs(os.path.dirname(path), exist_ok=True)
        old = open(path).read() if os.path.exists(path) else None
        if old != txt:
            with open(path + '.tmp', 'w') as f:
                f.write(txt)
            os.replace(path + '.tmp', path)
    res['path'] = path
    res['sha1'] = hashlib.sha1(txt.encode()).hexdigest()
    return res


if __name__ == '__main__':
    repo = sys.argv[1] if len(sys.argv) > 1 else os.environ.get('VERIF_REPO', '/repo')
    here = os.path.dirname(os.path.dirname(os.path.abspath(__file__)))
    r = generate(repo, os.path.join(here, 'coq'), write='--dry' not in sys.argv)
    print('functions', len(r['funs']), 'public', sum(1 for f in r['funs'] if f['public']))
    print('flagged', r['flagged'])
    print('left out', r['hopeless'])
    print('untranslatable', r['untranslatable'])
    print('errors', r['errors'])
    for fd in r['funs']:
        if fd['mut_t'] or fd['mut_f'] or fd['ret_t'] or fd['ret_f']:
            print('  summary', fd['name'], 'mut_t', fd['mut_t'], 'mut_f', fd['mut_f'], 'ret', fd['ret_t'], fd['ret_f'], 'contract', fd['contract'])
