"""Shared by harness/c01.py and harness/c11.py: generators, implementation runners with recorded
draws + per-swap hook events, encoders for the extracted Model/Rewire.v driver."""
from fractions import Fraction as F
import numpy as np
from common import *

ROUTINES = ['randmio_dir', 'randmio_dir_connected', 'randmio_und', 'randmio_und_connected',
            'latmio_dir', 'latmio_dir_connected', 'latmio_und', 'latmio_und_connected']
UND = {'randmio_und', 'randmio_und_connected', 'latmio_und', 'latmio_und_connected',
       'randomize_graph_partial_und', 'randomizer_bin_und'}
LATT = {'latmio_dir', 'latmio_dir_connected', 'latmio_und', 'latmio_und_connected'}
CONN = {'randmio_dir_connected', 'randmio_und_connected', 'latmio_dir_connected', 'latmio_und_connected'}


# ---------------------------------------------------------------- generators
def two_disjoint_edges(A, und):
    """domain filter of the property: at least two vertex-disjoint edges (otherwise the loops spin forever)"""
    n = len(A)
    E = [(i, j) for i in range(n) for j in range(n) if A[i, j] != 0 and i != j and (not und or i > j)]
    for x in range(len(E)):
        for y in range(x + 1, len(E)):
            a, b = E[x]; c, d = E[y]
            if len({a, b, c, d}) == 4:
                return True
    return False


def strongly_connected(A):
    n = len(A)
    B = (A != 0)
    def reach(M):
        seen = {0}; todo = [0]
        while todo:
            x = todo.pop()
            for y in range(n):
                if M[x, y] and y not in seen:
                    seen.add(y); todo.append(y)
        return len(seen) == n
    return n > 0 and reach(B) and reach(B.T)


def connected_und(A):
    return strongly_connected(((A != 0) | (A != 0).T).astype(int))


def scale_of(M):
    """smallest power of two s with M*s integer-valued.  The model works over Z: the engine only moves weights and
    tests them against 0, the lattice condition is homogeneous in R and in D, the mask is only tested against 0 —
    so a dyadic input is sent to the model multiplied by s (exactly, in binary64) and its output divided again."""
    if M is None:
        return 1
    M = np.asarray(M, dtype=float)
    s = 1
    while not np.array_equal(M * s, np.round(M * s)):
        s *= 2
        if s > 2 ** 20:
            raise ValueError('entry is not a small dyadic rational')
    return s


def gen_weights(r, A, und, fam):
    """binary / integer / signed / dyadic (k/8) / signed dyadic weights on the support of A, then a dtype.
    Presence = nonzero, so the sign is free for every routine, the `_connected` ones included: in their tests P is
    nonzero only where PN is zero (`P *= logical_not(PN)` precedes `PN += P`), nothing can cancel."""
    n = len(A)
    kind = str(r.choice(['bin', 'bin', 'bin', 'bin', 'int', 'int', 'signed', 'dyadic', 'sdyadic']))
    if kind != 'bin':
        if kind in ('int', 'signed'):
            Wt = r.randint(1, 10, size=(n, n)).astype(float)
        else:
            Wt = r.randint(1, 41, size=(n, n)) / 8.0
        if kind in ('signed', 'sdyadic'):
            Wt = Wt * r.choice([-1, 1], size=(n, n))
        if und:
            Wt = np.triu(Wt, 1); Wt = Wt + Wt.T
        A = A * Wt
        fam += '+' + kind
    u = r.rand()
    if kind == 'bin':
        dt = 'float64' if u < 0.55 else 'int64' if u < 0.72 else 'bool' if u < 0.9 else 'float32'
    elif kind in ('int', 'signed'):
        dt = 'float64' if u < 0.6 else 'int64' if u < 0.9 else 'float32'
    else:
        dt = 'float64' if u < 0.85 else 'float32'
    if dt != 'float64':
        fam += '+' + dt
    return A.astype(dt), fam


def gen_graph(r, und, connected=False, weighted=None, big=None):
    """r: np RandomState. Families: ER at several densities, ring + chords, tree + chords, star+path, bridges; exactly two
    disjoint edges; n = 4..9 mostly, about one in eight with n = 10..20 (long ring + chord, path + chords, two cliques +
    bridge, sparse ER) so that the connectivity searches run more than four rounds."""
    for _ in range(400):
        if big is None:
            isbig = r.rand() < 0.125
        else:
            isbig = big
        if isbig:
            n = int(r.randint(10, 21))
            fam = str(r.choice(['longring', 'path', 'cliques', 'er']))
        else:
            n = int(r.randint(4, 10))
            fam = str(r.choice(['er', 'ring', 'tree', 'bridge', 'dense']) if connected else r.choice(['er', 'er', 'ring', 'tree', 'dense', 'iso', 'twoedges']))
        A = np.zeros((n, n))
        if fam in ('er', 'iso', 'dense'):
            p = {'er': float(r.choice([0.2, 0.35, 0.5])) if not isbig else float(r.choice([0.15, 0.25])), 'iso': 0.3, 'dense': 0.8}[fam]
            A = (r.rand(n, n) < p).astype(float)
            if fam == 'iso':
                z = int(r.randint(n)); A[z, :] = 0; A[:, z] = 0
        elif fam in ('ring', 'longring'):
            for i in range(n):
                A[i, (i + 1) % n] = 1
                if und or r.rand() < 0.3:
                    A[(i + 1) % n, i] = 1
            for _c in range(1 if fam == 'longring' else int(r.randint(0, 4))):
                x, y = r.randint(n, size=2)
                A[x, y] = 1
        elif fam in ('tree', 'path'):
            for i in range(1, n):
                pz = i - 1 if fam == 'path' else int(r.randint(i)); A[i, pz] = 1; A[pz, i] = 1
            for _c in range(2 if fam == 'path' else int(r.randint(0, 4))):
                x, y = r.randint(n, size=2)
                A[x, y] = 1
        elif fam in ('bridge', 'cliques'):
            h = n // 2
            q = 0.7 if fam == 'bridge' else 1.0
            A[:h, :h] = r.rand(h, h) < q
            A[h:, h:] = r.rand(n - h, n - h) < q
            A[h - 1, h] = 1; A[h, h - 1] = 1
        elif fam == 'twoedges':
            n = 4; A = np.zeros((n, n)); p4 = r.permutation(4)
            A[p4[0], p4[1]] = 1; A[p4[2], p4[3]] = 1
            if not und and r.rand() < 0.3:
                A[p4[1], p4[0]] = 1
        np.fill_diagonal(A, 0)
        if und:
            A = np.triu(A, 1); A = A + A.T
        if isbig:
            fam = 'n>=10:' + fam
        if weighted is False:
            pass
        elif weighted or r.rand() < 0.55:
            A, fam = gen_weights(r, A, und, fam)
        if not two_disjoint_edges(A, und):
            continue
        if connected and not (connected_und(A) if und else strongly_connected(A)):
            continue
        return A, str(fam)
    raise RuntimeError('generator failed')


def gen_D(r, n, sym):
    """caller-supplied distance matrix: small integers, dyadic k/4 (the documented use is Euclidean distances: the
    fractional part matters), occasionally with negative entries; symmetric or not"""
    kind = str(r.choice(['int', 'int', 'dyadic', 'dyadic', 'sdyadic']))
    if kind == 'int':
        D = r.randint(0, 6, size=(n, n)).astype(float)
    else:
        D = r.randint(0, 21, size=(n, n)) / 4.0
        if kind == 'sdyadic':
            D = D * r.choice([-1, 1, 1, 1], size=(n, n))
    if sym:
        D = np.triu(D, 1); D = D + D.T
    return D, kind


def jmat(M):
    """JSON-able copy of a matrix that keeps fractional entries (cases must be replayable)"""
    return None if M is None else np.asarray(M).tolist()


def case_arrays(c):
    """(A, D, B) of a pinned / replayed case dict"""
    A = np.array(c['A'], dtype=c.get('dtype', 'float64'))
    D = None if c.get('D') is None else np.array(c['D'], dtype=float)
    B = None if c.get('B') is None else np.array(c['B'], dtype=float)
    return A, D, B


# ---------------------------------------------------------------- running the implementation
def flatten_draws(log):
    """recorded RandomState calls -> model stream tokens"""
    toks = []
    for name, a, k, res in log:
        if name == 'randint':
            vals = res if isinstance(res, list) else [res]
            for v in vals:
                toks.append('I %d' % int(v))
        elif name in ('random_sample', 'rand', 'random'):
            vals = res if isinstance(res, list) else [res]
            for v in vals:
                toks.append('F ' + enc_q(F(float(v))))
        elif name == 'permutation':
            toks.append('P ' + enc_list(res))
        else:
            toks.append('X')
    return toks


def run_impl(fn, A, itr, seed, D=None, B=None, t=8.0):
    """returns dict(out, rp, perm, eff, events, draws, error)"""
    import bct
    from bct.utils import _verif
    rec = Rec(seed)
    _verif.reset()
    f = getattr(bct, fn)
    # the implementation gets its own copies: the oracle and the model line read the caller's (untouched) arrays
    Ac = A.copy(); Dc = None if D is None else D.copy(); Bc = None if B is None else B.copy()
    try:
        if fn == 'randomize_graph_partial_und':
            out = call(f, Ac, Bc, itr, seed=rec, _t=t)
            res = {'out': out, 'rp': out, 'perm': None, 'eff': None}
        elif fn in LATT:
            Rl, Rrp, ind, eff = call(f, Ac, itr, D=Dc, seed=rec, _t=t)
            res = {'out': Rl, 'rp': Rrp, 'perm': np.asarray(ind), 'eff': int(eff)}
        else:
            R, eff = call(f, Ac, itr, seed=rec, _t=t)
            res = {'out': R, 'rp': R, 'perm': None, 'eff': int(eff)}
        res['error'] = None
    except Timeout:
        res = {'error': 'timeout'}
    except Exception as e:  # noqa
        res = {'error': type(e).__name__ + ': ' + str(e)[:100], 'etype': type(e).__name__}
    res['mutated'] = not (np.array_equal(Ac, A) and Ac.dtype == A.dtype and (D is None or np.array_equal(Dc, D))
                          and (B is None or np.array_equal(Bc, B)))
    res['scale'] = scale_of(A)
    res['events'] = [kw for tag, kw in _verif.LOG if tag == 'swap']
    res['draws'] = flatten_draws(rec.log)
    _verif.reset()
    tie_variants(res, 'input_variant')       # input-representation layer: the model comparison (compare_run) is batched and comes later
    return res


def enc_zmat(M):
    """matrix -> driver tokens over Z: dyadic entries are scaled by scale_of(M) (see there); zero is written `0`"""
    M = np.asarray(M, dtype=float)
    S = M * scale_of(M)
    return enc_mat([[int(v) for v in row] for row in S.tolist()])


def precheck_line(fn, A):
    return 'precheck %d %s' % (ROUTINES.index(fn), enc_zmat(A))


def model_line(fn, A, itr, draws, D=None, B=None):
    Z = enc_zmat
    s = '%d %s' % (len(draws), ' '.join(draws))
    if fn == 'randomize_graph_partial_und':
        return 'partial %s %s %d %s' % (Z(A), Z(B), itr, s)
    d = '0' if D is None else '1 ' + Z(D)
    return 'rewire %d %s %d %s %s' % (ROUTINES.index(fn), Z(A), itr, d, s)


OUTCOME = {0: 'Done', 1: 'Rejected', 2: 'Raises', 3: 'StreamEnd'}


def expected_code(res):
    """the model outcome that stands for what the implementation did"""
    if not res['error']:
        return 0
    et = res.get('etype')
    if et == 'BCTParamError':
        return 1
    if et in ('ZeroDivisionError', 'ValueError'):
        return 2
    return None          # timeout (a loop that never ends: the model can only run out of stream) / anything else


def dec_result(m):
    """decode the driver's JSON for one run: {'code': outcome, 'res': result or null}"""
    if m is None:
        return None
    if 'code' in m:
        if m['res'] is None:
            return {'code': m['code']}
        d = dec_result(m['res']); d['code'] = m['code']
        return d
    tr = [{'abcd': e['abcd'], 'R': np.array(dec_deep(e['R'], dec_z), dtype=float).reshape(len(e['R']), -1),
           'i': e['i'], 'j': e['j']} for e in m['trace']]
    n = len(m['out'])
    return {'out': np.array(dec_deep(m['out'], dec_z), dtype=float).reshape(n, n),
            'rp': np.array(dec_deep(m['rp'], dec_z), dtype=float).reshape(n, n),
            'perm': m['perm'], 'eff': m['eff'], 'left': m['left'], 'trace': tr}


def compare_run(ctx, key, case, res, mod):
    """correspondence of one run: final matrices, eff, every accepted swap's state, stream fully consumed"""
    want = expected_code(res)
    if res.get('input_variant') and isinstance(case, dict):
        case = dict(case, _input_variant=res['input_variant'])
    if res['error']:
        if want is not None and mod['code'] != want:
            ctx.mismatch(key, 'implementation: %s; model outcome %s (expected %s)' % (res['error'], OUTCOME[mod['code']], OUTCOME[want]), case)
        elif want is None and mod['code'] == 0:
            ctx.mismatch(key, 'implementation failed (%s) where the model returns' % res['error'], case)
        return
    if mod['code'] != 0:
        ctx.mismatch(key, 'model outcome %s where the implementation returns' % OUTCOME[mod['code']], case)
        return
    sc = res.get('scale', 1)      # the model ran on sc * A (dyadic weights, see scale_of)
    if res.get('mutated'):
        ctx.mismatch(key, "the implementation modified its caller's array (the model, like `R = R.copy()`, works on a value)", case); return
    if not np.array_equal(mod['out'], np.asarray(res['out'], dtype=float) * sc):
        ctx.mismatch(key, 'final matrix differs', case, mod['out'] / sc, res['out']); return
    if not np.array_equal(mod['rp'], np.asarray(res['rp'], dtype=float) * sc):
        ctx.mismatch(key, 'latticised-order matrix differs', case, mod['rp'] / sc, res['rp']); return
    if res['eff'] is not None and mod['eff'] != res['eff']:
        ctx.mismatch(key, 'eff differs', case, mod['eff'], res['eff']); return
    if mod['left'] != 0:
        ctx.mismatch(key, 'model left %d recorded draws unread' % mod['left'], case); return
    ev = res['events']
    if len(ev) != len(mod['trace']):
        ctx.mismatch(key, 'number of accepted swaps differs (hook %d, model %d)' % (len(ev), len(mod['trace'])), case); return
    for t, (e, m) in enumerate(zip(ev, mod['trace'])):
        if [int(x) for x in e['abcd']] != m['abcd'] or not np.array_equal(np.asarray(e['R'], dtype=float) * sc, m['R']) \
           or [int(x) for x in e['i']] != m['i'] or [int(x) for x in e['j']] != m['j']:
            ctx.mismatch(key, 'state after accepted swap %d differs' % t, case, m['abcd'], [int(x) for x in e['abcd']]); return


# ---------------------------------------------------------------- stress families (oracle only): long sparse networks, heavy / tiny weights
def _reaches_all(nb, n):
    seen = [False] * n
    seen[0] = True
    todo, k = [0], 1
    while todo:
        x = todo.pop()
        for y in nb[x]:
            if not seen[y]:
                seen[y] = True; k += 1; todo.append(y)
    return k == n


def connected_fast(A, und):
    """connected_und / strongly_connected for n in the hundreds: depth-first search over adjacency lists (O(n + m) once the
    lists are built), forwards and - directed - backwards from node 0.  nan counts as a connection (`nan != 0`)."""
    n = len(A)
    S = np.asarray(A) != 0
    if und:
        S = S | S.T
    xs, ys = np.nonzero(S)
    fw = [[] for _ in range(n)]; bw = [[] for _ in range(n)]
    for x, y in zip(xs.tolist(), ys.tolist()):
        fw[x].append(y); bw[y].append(x)
    return n > 0 and _reaches_all(fw, n) and (und or _reaches_all(bw, n))


STRESS_FAMILIES_UND = ['ring', 'ring+chords', 'chain+chords', 'tree+chords']
STRESS_FAMILIES_DIR = ['dicycle+chords', 'dicycle+fewchords', 'dicycle+back', 'dicycle+skips', 'ring2+chords', 'tree2+chords']
STRESS_WEIGHTS = ['heavy', 'heavy', 'mixed', 'tiny', 'bin']


def stress_graph(r, und, n, fam, wkind):
    """Long sparse networks on which nearly every swap would disconnect and the connectivity searches of the `_connected`
    routines run for dozens of rounds: a ring, a ring / chain / deep tree with 2-4 chords; directed: a ONE-WAY cycle with n/8
    or 3-5 random chords, with skips i -> i+2 at a third of the nodes, with short back connections i+k -> i at a tenth of
    them (the directed test searches forwards around the cycle), and a ring / deep tree with both directions present
    (independent weights; there the directed test is bypassed: the reverse connections close the cycle a-d-c-b).
    Weights: heavy = integers in [1e4, 1e6] (counts), tiny = [1e-6, 1e-4], mixed = either per connection, bin = 1.
    -> (A, edge list [i, j, w])"""
    E = []
    base, _, extra = fam.partition('+')
    two = not und and base.endswith('2')
    base = base.rstrip('2')
    if base in ('ring', 'dicycle'):
        E = [(i, (i + 1) % n) for i in range(n)]
    elif base == 'chain':
        E = [(i, i + 1) for i in range(n - 1)]
    elif base == 'tree':
        E = [(max(0, i - int(r.randint(1, 3))), i) for i in range(1, n)]          # parent 1..2 places back: depth ~ 2n/3
    have = set(E) | {(b, a) for a, b in E}
    if extra == 'skips':
        for i in range(n):
            if r.rand() < 1.0 / 3:
                E.append((i, (i + 2) % n)); have.add(E[-1]); have.add(E[-1][::-1])
    elif extra == 'back':
        for i in range(n):
            if r.rand() < 0.1:
                E.append(((i + int(r.randint(2, 6))) % n, i)); have.add(E[-1]); have.add(E[-1][::-1])
    nch = 0 if extra not in ('chords', 'fewchords') else (max(3, n // 8) if fam == 'dicycle+chords' else int(r.randint(3, 6)) if base == 'dicycle' else int(r.randint(2, 5)))
    while nch:
        x, y = int(r.randint(n)), int(r.randint(n))
        if x != y and (x, y) not in have:
            E.append((x, y)); have.add((x, y)); have.add((y, x)); nch -= 1
    A = np.zeros((n, n))

    def w():
        k = wkind if wkind != 'mixed' else ('heavy' if r.rand() < 0.5 else 'tiny')
        return 1.0 if k == 'bin' else float(np.round(r.uniform(1e4, 1e6))) if k == 'heavy' else float(r.uniform(1e-6, 1e-4))
    for a, b in E:
        A[a, b] = w()
        if und:
            A[b, a] = A[a, b]
        elif two:
            A[b, a] = w()
    p = r.permutation(n)
    A = A[np.ix_(p, p)]
    xs, ys = np.nonzero(np.triu(A) if und else A)
    return A, [[int(x), int(y), float(A[x, y])] for x, y in zip(xs, ys)]


def graph_from_edges(n, edges, und):
    A = np.zeros((n, n))
    for x, y, w in edges:
        A[x, y] = w
        if und:
            A[y, x] = w
    return A


def run_impl_watch(fn, A, itr, seed, on_swap, D=None, t=120.0):
    """one `_connected` run with the per-swap hook handed to `on_swap(kw)` as it fires (no snapshots kept: 260 accepted swaps
    of a 260-node network would be 140 MB in _verif.LOG).  -> dict(out, eff, error)"""
    import bct
    from bct.utils import _verif
    f = getattr(bct, fn)
    old = _verif.emit

    def emit(tag, **kw):
        if tag == 'swap':
            on_swap(kw)
    _verif.emit = emit
    try:
        if fn in LATT:
            out = call(f, A.copy(), itr, D=None if D is None else D.copy(), seed=seed, _t=t)
            res = {'out': out[0], 'eff': int(out[3])}
        else:
            R, eff = call(f, A.copy(), itr, seed=seed, _t=t)
            res = {'out': R, 'eff': int(eff)}
        res['error'] = None
    except Timeout:
        res = {'error': 'timeout'}
    except Exception as e:  # noqa
        res = {'error': type(e).__name__ + ': ' + str(e)[:100]}
    finally:
        _verif.emit = old
        _verif.reset()
    return res
