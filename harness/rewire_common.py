"""Shared by harness/c01.py and harness/c11.py: generators, implementation runners with recorded
draws + per-swap hook events, encoders for the extracted Model/Rewire.v driver."""
from fractions import Fraction as F
import numpy as np
from common import *

ROUTINES = ['randmio_dir', 'randmio_dir_connected', 'randmio_und', 'randmio_und_connected',
            'latmio_dir', 'latmio_dir_connected', 'latmio_und', 'latmio_und_connected']
UND = {'randmio_und', 'randmio_und_connected', 'latmio_und', 'latmio_und_connected',
       'randomize_graph_partial_und', 'randomizer_bin_und'}
LATT = {'latmio_dir', 'latmio_dir_connected', 'latmio_und', 'latmio_und_connected'}
CONN = {'randmio_dir_connected', 'randmio_und_connected', 'latmio_dir_connected', 'latmio_und_connected'}


# ---------------------------------------------------------------- generators
def two_disjoint_edges(A, und):
    """domain filter of the property: at least two vertex-disjoint edges (otherwise the loops spin forever)"""
    n = len(A)
    E = [(i, j) for i in range(n) for j in range(n) if A[i, j] != 0 and i != j and (not und or i > j)]
    for x in range(len(E)):
        for y in range(x + 1, len(E)):
            a, b = E[x]; c, d = E[y]
            if len({a, b, c, d}) == 4:
                return True
    return False


def strongly_connected(A):
    n = len(A)
    B = (A != 0)
    def reach(M):
        seen = {0}; todo = [0]
        while todo:
            x = todo.pop()
            for y in range(n):
                if M[x, y] and y not in seen:
                    seen.add(y); todo.append(y)
        return len(seen) == n
    return n > 0 and reach(B) and reach(B.T)


def connected_und(A):
    return strongly_connected(((A != 0) | (A != 0).T).astype(int))


def gen_graph(r, und, connected=False, weighted=None):
    """r: np RandomState. Families: ER at several densities, ring + chords, tree + chords, star+path, bridges."""
    for _ in range(200):
        n = int(r.randint(4, 10))
        fam = r.choice(['er', 'ring', 'tree', 'bridge', 'dense']) if connected else r.choice(['er', 'er', 'ring', 'tree', 'dense', 'iso'])
        A = np.zeros((n, n))
        if fam in ('er', 'iso', 'dense'):
            p = {'er': float(r.choice([0.2, 0.35, 0.5])), 'iso': 0.3, 'dense': 0.8}[fam]
            A = (r.rand(n, n) < p).astype(float)
            if fam == 'iso':
                z = int(r.randint(n)); A[z, :] = 0; A[:, z] = 0
        elif fam == 'ring':
            for i in range(n):
                A[i, (i + 1) % n] = 1
                if und or r.rand() < 0.3:
                    A[(i + 1) % n, i] = 1
            for _c in range(int(r.randint(0, 4))):
                x, y = r.randint(n, size=2)
                A[x, y] = 1
        elif fam == 'tree':
            for i in range(1, n):
                pz = int(r.randint(i)); A[i, pz] = 1; A[pz, i] = 1
            for _c in range(int(r.randint(0, 4))):
                x, y = r.randint(n, size=2)
                A[x, y] = 1
        elif fam == 'bridge':
            h = n // 2
            A[:h, :h] = r.rand(h, h) < 0.7
            A[h:, h:] = r.rand(n - h, n - h) < 0.7
            A[h - 1, h] = 1; A[h, h - 1] = 1
        np.fill_diagonal(A, 0)
        if und:
            A = np.triu(A, 1); A = A + A.T
        if weighted is None:
            w = r.rand() < 0.5
        else:
            w = weighted
        if w:
            Wt = r.randint(1, 10, size=(n, n)).astype(float)
            if not connected and r.rand() < 0.3:
                Wt = Wt * r.choice([-1, 1], size=(n, n))   # presence = nonzero: signed weights (not for the _connected routines,
                fam = str(fam) + '+signed'                  # whose tests accumulate PN += P and are modelled on the support)
            if und:
                Wt = np.triu(Wt, 1); Wt = Wt + Wt.T
            A = A * Wt
        if not two_disjoint_edges(A, und):
            continue
        if connected and not (connected_und(A) if und else strongly_connected(A)):
            continue
        return A, str(fam)
    raise RuntimeError('generator failed')


# ---------------------------------------------------------------- running the implementation
def flatten_draws(log):
    """recorded RandomState calls -> model stream tokens"""
    toks = []
    for name, a, k, res in log:
        if name == 'randint':
            vals = res if isinstance(res, list) else [res]
            for v in vals:
                toks.append('I %d' % int(v))
        elif name in ('random_sample', 'rand', 'random'):
            vals = res if isinstance(res, list) else [res]
            for v in vals:
                toks.append('F ' + enc_q(F(float(v))))
        elif name == 'permutation':
            toks.append('P ' + enc_list(res))
        else:
            toks.append('X')
    return toks


def run_impl(fn, A, itr, seed, D=None, B=None, t=8.0):
    """returns dict(out, rp, perm, eff, events, draws, error)"""
    import bct
    from bct.utils import _verif
    rec = Rec(seed)
    _verif.reset()
    f = getattr(bct, fn)
    try:
        if fn == 'randomize_graph_partial_und':
            out = call(f, A, B, itr, seed=rec, _t=t)
            res = {'out': out, 'rp': out, 'perm': None, 'eff': None}
        elif fn in LATT:
            Rl, Rrp, ind, eff = call(f, A, itr, D=D, seed=rec, _t=t)
            res = {'out': Rl, 'rp': Rrp, 'perm': np.asarray(ind), 'eff': int(eff)}
        else:
            R, eff = call(f, A, itr, seed=rec, _t=t)
            res = {'out': R, 'rp': R, 'perm': None, 'eff': int(eff)}
        res['error'] = None
    except Timeout:
        res = {'error': 'timeout'}
    except Exception as e:  # noqa
        res = {'error': type(e).__name__ + ': ' + str(e)[:100]}
    res['events'] = [kw for tag, kw in _verif.LOG if tag == 'swap']
    res['draws'] = flatten_draws(rec.log)
    _verif.reset()
    return res


def model_line(fn, A, itr, draws, D=None, B=None):
    Z = lambda M: enc_mat(np.asarray(M).astype(int).tolist())
    s = '%d %s' % (len(draws), ' '.join(draws))
    if fn == 'randomize_graph_partial_und':
        return 'partial %s %s %d %s' % (Z(A), Z(B), itr, s)
    d = '0' if D is None else '1 ' + Z(D)
    return 'rewire %d %s %d %s %s' % (ROUTINES.index(fn), Z(A), itr, d, s)


def dec_result(m):
    """decode the driver's JSON for one run"""
    if m is None:
        return None
    tr = [{'abcd': e['abcd'], 'R': np.array(dec_deep(e['R'], dec_z), dtype=float).reshape(len(e['R']), -1),
           'i': e['i'], 'j': e['j']} for e in m['trace']]
    n = len(m['out'])
    return {'out': np.array(dec_deep(m['out'], dec_z), dtype=float).reshape(n, n),
            'rp': np.array(dec_deep(m['rp'], dec_z), dtype=float).reshape(n, n),
            'perm': m['perm'], 'eff': m['eff'], 'left': m['left'], 'trace': tr}


def compare_run(ctx, key, case, res, mod):
    """correspondence of one run: final matrices, eff, every accepted swap's state, stream fully consumed"""
    if res['error']:
        if mod is not None:
            ctx.mismatch(key, 'implementation failed (%s) where the model runs' % res['error'], case)
        return
    if mod is None:
        ctx.mismatch(key, 'model rejects / runs out of stream where the implementation returns', case)
        return
    if not np.array_equal(mod['out'], res['out']):
        ctx.mismatch(key, 'final matrix differs', case, mod['out'], res['out']); return
    if not np.array_equal(mod['rp'], res['rp']):
        ctx.mismatch(key, 'latticised-order matrix differs', case, mod['rp'], res['rp']); return
    if res['eff'] is not None and mod['eff'] != res['eff']:
        ctx.mismatch(key, 'eff differs', case, mod['eff'], res['eff']); return
    if mod['left'] != 0:
        ctx.mismatch(key, 'model left %d recorded draws unread' % mod['left'], case); return
    ev = res['events']
    if len(ev) != len(mod['trace']):
        ctx.mismatch(key, 'number of accepted swaps differs (hook %d, model %d)' % (len(ev), len(mod['trace'])), case); return
    for t, (e, m) in enumerate(zip(ev, mod['trace'])):
        if [int(x) for x in e['abcd']] != m['abcd'] or not np.array_equal(e['R'], m['R']) \
           or [int(x) for x in e['i']] != m['i'] or [int(x) for x in e['j']] != m['j']:
            ctx.mismatch(key, 'state after accepted swap %d differs' % t, case, m['abcd'], [int(x) for x in e['abcd']]); return
