"""translate_effects.py — fail-closed abstraction of every function under <REPO>/bct to the effect
language of coq/theories/Model/EffectLang.v (property C05), written to coq/theories/Gen/Effects.v.

Only what can touch a random generator (or another source of nondeterminism) survives the translation;
everything else becomes Skip.  WHITELIST-BASED: a name or a callee becomes Skip only if it is CLASSIFIED —
a local value, a builtin known to be pure, a member of a module known to be deterministic (numpy outside
numpy.random / numpy.matlib, scipy.linalg / sparse / special, math, itertools, ...), a class or function of
bct itself (functions become Call, with the seed expression found at the call site), a module-level
constant.  Everything else — an unknown global, a module-level alias, a member of a module that is not
whitelisted (scipy.stats, sklearn, ...), a method whose name is an RNG method on an object of unknown origin,
eval/getattr/..., any mention of the seed parameter / an rng name / np.random / random the translator does
not recognise — becomes DrawNpGlobal / DrawPyGlobal, which the Coq checker always rejects.  Syntactic
sources of non-RNG nondeterminism (time, os, uuid, hash(), id(), np.empty, iteration over a set, zero-argument
rng.seed()) become NonDet (always rejected).  Commands are tuples:
('Skip',) ('GetRng',x,e) ('DrawLocal',x) ('DrawNpGlobal',) ('DrawPyGlobal',) ('NonDet',) ('Call',f,e)
('Seq',a,b) ('Choice',a,b) ('Loop',a);
e in 'ESeed' | ('EVar',x) | 'ENone' | ('EDrawn',x) | 'EComputed' | 'EOther'."""
import ast, os, hashlib, json, builtins as _builtins, random as _pyrandom
import numpy as _np

SKIP, NP, PY, ND = ('Skip',), ('DrawNpGlobal',), ('DrawPyGlobal',), ('NonDet',)

# ---- the whitelist -------------------------------------------------------------------------------------------
# modules (dotted prefixes) all of whose members are deterministic functions of their arguments ...
PURE_MODULES = ('numpy', 'scipy.linalg', 'scipy.sparse', 'scipy.special', 'scipy.spatial', 'math', 'cmath', 'itertools',
                'functools', 'collections', 'copy', 'warnings', 'operator', 'numbers', '__future__', 'string', 're', 'fractions',
                'decimal', 'heapq', 'bisect', 'textwrap', 'abc', 'types', 'typing', 'enum')
# ... except members with these path components (draws / random start vectors)
RESTRICTED = {'random', 'matlib', 'rvs', 'eigs', 'eigsh', 'svds', 'lobpcg', 'testing'}
# ... and these (contents of uninitialised memory; contents of files)
UNINIT = {'empty', 'empty_like', 'fromfile', 'load', 'loadtxt', 'genfromtxt', 'memmap', 'loadmat'}
# modules whose members read the environment
NONDET_MODULES = {'time', 'datetime', 'os', 'uuid', 'secrets', 'socket', 'tempfile', 'getpass', 'platform', 'gc', 'weakref', 'threading',
                  'glob', 'pathlib', 'shutil', 'subprocess', 'sys', 'inspect', 'resource', 'signal'}
PURE_BUILTINS = {'abs', 'all', 'any', 'ascii', 'bin', 'bool', 'bytearray', 'bytes', 'callable', 'chr', 'complex', 'dict', 'divmod',
                 'enumerate', 'filter', 'float', 'format', 'frozenset', 'hex', 'int', 'isinstance', 'issubclass', 'iter', 'len',
                 'list', 'map', 'max', 'min', 'next', 'oct', 'ord', 'pow', 'print', 'range', 'repr', 'reversed', 'round', 'set',
                 'slice', 'sorted', 'str', 'sum', 'tuple', 'type', 'zip', 'hasattr', 'object', 'super', 'staticmethod',
                 'classmethod', 'property', 'True', 'False', 'None', 'NotImplemented', 'Ellipsis', '__name__', '__file__', '__doc__'}
PURE_BUILTINS |= {n for n in dir(_builtins) if isinstance(getattr(_builtins, n), type) and issubclass(getattr(_builtins, n), BaseException)}
NONDET_BUILTINS = {'hash', 'id', 'input', 'open'}
# method names of numpy.random.RandomState / random.Random (+ scipy's rvs): calling one of them on anything that is not
# a name bound by get_rng is treated as a draw from an unknown generator
RNG_METHODS = ({n for n in dir(_np.random.RandomState) if not n.startswith('_')} | {n for n in dir(_pyrandom.Random) if not n.startswith('_')}
               | {'rvs', 'random_state', 'default_rng', 'integers'})
# members of modules that are NOT whitelisted as a whole
PURE_MEMBERS = {'scipy.stats': {'pdf', 'logpdf', 'cdf', 'logcdf', 'sf', 'logsf', 'ppf', 'isf', 'pmf', 'logpmf', 'zscore', 'rankdata'}}
# hand-vouched exceptions, each with its justification (reported in the evidence as part of the trusted base)
TRUSTED_PATHS = {
    'multiprocessing.cpu_count': 'only sizes the worker pool; Pool.map returns results in input order and every task carries its own seed, so the '
                                 'result does not depend on the number of workers (tested on every run: workers=1 vs workers=2)',
    'utils._verif.ON': 'switch of the verification hooks (BCTPY_VERIF), read once at import; the guarded branches only append copies of '
                       'intermediate state to a log',
}
# the pinned corpus (harness/c05_corpus.py) may grow, never shrink below this (Properties/C05.v C05_translator_corpus states the same number)
CORPUS_FLOOR = 32
# decorators of top-level functions that are known to return the function unchanged
PURE_DECORATORS = {'due.dcite'}
# consumers that expose the iteration order of a set
ORDER_CONSUMERS = {'list', 'tuple', 'enumerate', 'iter', 'next', 'zip', 'map', 'filter', 'array', 'asarray', 'fromiter', 'reversed'}
JUMPS = (ast.Return, ast.Raise, ast.Break, ast.Continue)
DEFS = (ast.FunctionDef, ast.AsyncFunctionDef, ast.Lambda, ast.ClassDef)
# sha256 of ast.dump of get_rng's body (docstring removed) that Model/EffectLang.v [get_rng] mirrors by hand
GET_RNG_SHA = '58d72d790b93a4fc08044979ec84097567ad8d8a9a571305daca758f70aaef23'
GET_RNG_HOME = 'utils.miscellaneous_utilities'


def seq(*cs):
    out = SKIP
    for c in reversed(cs):
        out = out if c == SKIP else c if out == SKIP else ('Seq', c, out)
    return out


def choice(a, b):
    return SKIP if a == SKIP and b == SKIP else ('Choice', a, b)


def loop(a):
    return SKIP if a == SKIP else ('Loop', a)


def choices(cs):
    cs = list(cs)
    out = cs[-1]
    for c in reversed(cs[:-1]):
        out = choice(c, out)
    return out


def walk_shallow(node):
    """ast.walk that does not enter nested function/class/lambda bodies"""
    todo = [node]
    while todo:
        n = todo.pop()
        yield n
        for ch in ast.iter_child_nodes(n):
            if not isinstance(ch, DEFS):
                todo.append(ch)


def has_jump(stmt):
    return any(isinstance(n, JUMPS) for n in walk_shallow(stmt))


class Mod:
    def __init__(self, name, tree):
        self.name, self.tree = name, tree
        self.funcs, self.methods = {}, {}
        todo = [(x, None) for x in tree.body]
        while todo:                                         # defs at module level (also under if/try/with), methods of classes
            n, cls = todo.pop(0)
            if isinstance(n, (ast.FunctionDef, ast.AsyncFunctionDef)):
                (self.funcs if cls is None else self.methods)[n.name if cls is None else cls + '.' + n.name] = n
            elif isinstance(n, ast.ClassDef):
                todo += [(x, (cls + '.' if cls else '') + n.name) for x in n.body]
            elif isinstance(n, ast.Assign) and isinstance(n.value, ast.Lambda):
                self.methods['<lambda@%d>' % n.lineno] = ast.FunctionDef(name='<lambda>', args=n.value.args, body=[ast.Expr(n.value.body)], decorator_list=[])
            else:
                todo += [(x, cls) for x in ast.iter_child_nodes(n) if isinstance(x, ast.stmt)]
        self.np_alias, self.np_random, self.py_random, self.bct_mods = set(), set(), set(), set()
        self.imports, self.alias, self.classes, self.star_unknown = {}, {}, set(), False
        for n in ast.walk(tree):
            if isinstance(n, ast.ClassDef):
                self.classes.add(n.name)
            if isinstance(n, ast.Import):
                for a in n.names:
                    top, bound = a.name.split('.')[0], a.asname or a.name.split('.')[0]
                    self.imports[bound] = a.name if a.asname else top
                    if a.name == 'numpy.random' and a.asname:
                        self.np_random.add(a.asname)
                    elif top == 'numpy':
                        self.np_alias.add(bound)
                    elif a.name == 'random':
                        self.py_random.add(bound)
                    elif top == 'bct':
                        self.bct_mods.add(bound)
            elif isinstance(n, ast.ImportFrom):
                m = n.module or ''
                bct_rel = n.level > 0 or m.split('.')[0] == 'bct'
                names = [(a.name, a.asname or a.name) for a in n.names]
                if any(a == '*' for a, _ in names) and not bct_rel:      # `from M import *`: every public name of M
                    try:
                        import importlib
                        mod = importlib.import_module(m)
                        names = [(x, x) for x in getattr(mod, '__all__', [y for y in dir(mod) if not y.startswith('_')])]
                    except Exception:
                        self.star_unknown, names = True, []
                for name, bound in names:
                    if name == '*':
                        continue                                     # bct's own star imports: functions resolve by name
                    if m == 'numpy' and name == 'random':
                        self.np_random.add(bound)
                    elif m.startswith('numpy.random'):
                        self.np_random.add(bound)
                    elif m == 'random':
                        self.py_random.add(bound)
                    elif bct_rel:
                        self.bct_mods.add(bound)       # may be a submodule; harmless if it is a function
                        if bound != name:
                            self.alias[bound] = name
                    else:
                        self.imports[bound] = m + '.' + name
        # module-level variables: `X = <expr>` outside any def.  'nprandom'/'pyrandom' if the value mentions numpy.random /
        # random (an ALIAS of the generator module or of one of its members), 'const' if it is built from literals, else 'unknown'
        self.globals_ = {}
        todo = list(tree.body)
        while todo:
            n = todo.pop(0)
            if isinstance(n, DEFS):
                continue
            tg = n.targets if isinstance(n, ast.Assign) else [n.target] if isinstance(n, (ast.AugAssign, ast.AnnAssign, ast.For)) else []
            val = getattr(n, 'value', None) if not isinstance(n, ast.For) else None
            for t in tg:
                for x in ast.walk(t):
                    if isinstance(x, ast.Name):
                        k = self.value_kind(val)
                        self.globals_[x.id] = k if self.globals_.get(x.id, k) == k else 'unknown'
            if isinstance(n, (ast.With, ast.AsyncWith)):
                for i in n.items:
                    for x in ast.walk(i.optional_vars) if i.optional_vars is not None else []:
                        if isinstance(x, ast.Name):
                            self.globals_[x.id] = 'unknown'
            todo += [x for x in ast.iter_child_nodes(n) if isinstance(x, ast.stmt)]
        self.np_random |= {g for g, k in self.globals_.items() if k == 'nprandom'}
        self.py_random |= {g for g, k in self.globals_.items() if k == 'pyrandom'}

    def value_kind(self, v):
        if v is None:
            return 'unknown'
        for x in ast.walk(v):
            if isinstance(x, ast.Name) and x.id in self.np_random:
                return 'nprandom'
            if isinstance(x, ast.Name) and x.id in self.py_random:
                return 'pyrandom'
            if isinstance(x, ast.Attribute) and x.attr in ('random', 'matlib', 'mtrand'):
                return 'nprandom'
            if isinstance(x, ast.Name) and self.globals_.get(x.id) in ('nprandom', 'pyrandom'):
                return self.globals_[x.id]
        ok = (ast.Constant, ast.Tuple, ast.List, ast.Dict, ast.Set, ast.UnaryOp, ast.BinOp, ast.JoinedStr, ast.FormattedValue,
              ast.expr_context, ast.operator, ast.unaryop)
        for x in ast.walk(v):
            if isinstance(x, ast.Name) and (self.globals_.get(x.id) == 'const' or x.id in ('True', 'False', 'None')):
                continue
            if not isinstance(x, ok):
                return 'unknown'
        return 'const'


def read_tree(repo):
    """{module name relative to bct: source text}"""
    out, root = {}, os.path.join(repo, 'bct')
    for d, _, fs in sorted(os.walk(root)):
        for f in sorted(fs):
            if f.endswith('.py'):
                rel = os.path.relpath(os.path.join(d, f), root)[:-3].replace(os.sep, '.')
                rel = rel[:-9] if rel.endswith('.__init__') else rel
                out[rel] = open(os.path.join(d, f)).read()
    return out


class Translator:
    def __init__(self, repo, extra=None):
        """extra: {module name: source} added to (or replacing modules of) the tree — used by the negative corpus"""
        self.mods, self.by_name, self.synth, self.why = {}, {}, {}, {}
        src = repo if isinstance(repo, dict) else read_tree(repo)
        src = dict(src, **(extra or {}))
        for rel in sorted(src):
            self.mods[rel] = Mod(rel, ast.parse(src[rel]))
        for m in self.mods.values():
            for fn in m.funcs:
                self.by_name.setdefault(fn, []).append(m.name + '.' + fn)
        self.defs = {m.name + '.' + fn: (m, node) for m in self.mods.values() for fn, node in m.funcs.items()}
        self.all_classes = set().union(*[m.classes for m in self.mods.values()]) if self.mods else set()
        self.mod_names = {x for m in self.mods for x in m.split('.')} | {'bct'}
        g = self.defs.get(GET_RNG_HOME + '.get_rng')
        self.get_rng_ok = False
        if g and self.by_name.get('get_rng') == [GET_RNG_HOME + '.get_rng']:
            body = g[1].body[1:] if isinstance(g[1].body[0], ast.Expr) and isinstance(getattr(g[1].body[0], 'value', None), ast.Constant) else g[1].body
            dump = ast.dump(ast.Module(body=body, type_ignores=[])) + '|' + ast.dump(g[1].args)
            self.get_rng_sha = hashlib.sha256(dump.encode()).hexdigest()
            self.get_rng_ok = self.get_rng_sha == GET_RNG_SHA
        self.bodies = {q: FnTr(self, m, node, q).translate() for q, (m, node) in self.defs.items() if q != GET_RNG_HOME + '.get_rng'}
        self.bodies.update(self.synth)                      # `<q>$rest`: see FnTr.default_seed_split
        # methods / module-level lambdas are not callable through the name resolution above: they must be effect-free
        self.unmodelled = sorted(m.name + '.' + k for m in self.mods.values() for k, node in m.methods.items()
                                 if FnTr(self, m, node, k).translate() != SKIP)

    def resolve(self, mod, name):
        if name in mod.funcs:
            return [mod.name + '.' + name]
        return list(self.by_name.get(mod.alias.get(name, name), []))

    def tuple_seed(self, q):
        """`def f(args): seed, u, ... = args` (a task function for Pool.map): -> (parameter, names) or None"""
        node = self.defs[q][1] if q in self.defs else None
        if node is None:
            return None
        a = node.args
        if len(a.args) != 1 or a.posonlyargs or a.kwonlyargs or a.vararg or a.kwarg or a.defaults:
            return None
        body = node.body[1:] if node.body and isinstance(node.body[0], ast.Expr) and isinstance(getattr(node.body[0], 'value', None), ast.Constant) else node.body
        p = a.args[0].arg
        if not body or not (isinstance(body[0], ast.Assign) and len(body[0].targets) == 1 and isinstance(body[0].targets[0], ast.Tuple)
                            and isinstance(body[0].value, ast.Name) and body[0].value.id == p):
            return None
        elts = body[0].targets[0].elts
        if not all(isinstance(e, ast.Name) for e in elts) or [e.id for e in elts].count('seed') != 1 or p == 'seed':
            return None
        if sum(1 for n in ast.walk(node) if isinstance(n, ast.Name) and n.id == p) != 1:
            return None                                     # the tuple is used only to be unpacked
        return p, [e.id for e in elts], body[0]

    def global_kind(self, mod, name):
        """classification of a name that is not local to the function using it -> (tag, payload)"""
        if name in mod.np_random:
            return 'nprandom', None
        if name in mod.py_random:
            return 'pyrandom', None
        if name in mod.np_alias:
            return 'path', 'numpy'
        r = self.resolve(mod, name)
        if r:
            return 'bctfn', r
        if name in mod.classes or (name in mod.bct_mods and name in self.all_classes):
            return 'class', None
        if name in mod.globals_:
            return ('const' if mod.globals_[name] == 'const' else 'unknown'), None
        if name in mod.bct_mods:
            if name in self.mod_names:
                return 'bctmod', None
            ks = {m.globals_[name] for m in self.mods.values() if name in m.globals_}
            return ('const' if ks == {'const'} else 'unknown'), None       # a module-level variable of another bct module
        if name in mod.imports:
            return 'path', mod.imports[name]
        if mod.star_unknown:
            return 'unknown', None
        if name in PURE_BUILTINS:
            return 'const', None
        if name in NONDET_BUILTINS:
            return 'nondet', None
        return 'unknown', None          # eval / exec / getattr / globals / ... and every name nobody defines

    def seed_index(self, q):
        if q in self.synth:
            return -1
        if self.tuple_seed(q):
            return None                                     # a direct call cannot be given a seed the translator recognises
        a = self.defs[q][1].args
        names = [x.arg for x in a.posonlyargs + a.args]
        if 'seed' in names:
            return names.index('seed')
        return -1 if 'seed' in [x.arg for x in a.kwonlyargs] else None

    def kind(self, q):
        return 'Seeded' if q in self.synth or self.tuple_seed(q) or self.seed_index(q) is not None else 'Pure'


def path_effect(dotted):
    """effect of using (reading / calling) the member `dotted` of an imported module"""
    comps = dotted.split('.')
    if comps[0] == 'random':
        return PY
    if any(c in RESTRICTED or c == 'mtrand' for c in comps):
        return NP
    if dotted in TRUSTED_PATHS:
        return SKIP
    pure = any(dotted == p or dotted.startswith(p + '.') for p in PURE_MODULES)
    pure = pure or any(dotted.startswith(p + '.') and comps[-1] in ok for p, ok in PURE_MEMBERS.items())
    if pure and any(c in UNINIT for c in comps):
        return ND
    if pure:
        return SKIP
    if comps[0] in NONDET_MODULES:
        return ND
    return NP                                               # a module nobody vouched for


class FnTr:
    """translation of one top-level function (nested defs are inlined at their call sites: closures share the scope)"""

    def __init__(self, T, mod, node, qname):
        self.T, self.M, self.node, self.q = T, mod, node, qname
        a = node.args
        self.tuple_seed = T.tuple_seed(qname) if qname in T.defs and T.defs[qname][1] is node else None
        self.has_seed = 'seed' in [x.arg for x in a.posonlyargs + a.args + a.kwonlyargs] or bool(self.tuple_seed)
        self.nested, self.stack, self.rec_hit, self.cache = {}, [], set(), {}
        for n in ast.walk(node):
            if n is not node and isinstance(n, (ast.FunctionDef, ast.AsyncFunctionDef)):
                self.nested[n.name] = None if n.name in self.nested else n      # None = ambiguous
        stores = [n.id for n in ast.walk(node) if isinstance(n, ast.Name) and isinstance(n.ctx, (ast.Store, ast.Del))]
        self.stores = stores
        self.locals = set(stores) | {x.arg for x in ast.walk(node) if isinstance(x, ast.arg)}
        self.split = self.default_seed_split(stores)
        self.seed_ok = self.has_seed and (stores.count('seed') == (1 if self.tuple_seed else 0) + (1 if self.split is not None else 0))
        assigns = {}                       # local name -> values assigned to it anywhere in the function (None: not a plain assignment)
        for n in ast.walk(node):
            if isinstance(n, ast.Assign) and len(n.targets) == 1 and isinstance(n.targets[0], ast.Name):
                assigns.setdefault(n.targets[0].id, []).append(n.value)
        for x in stores:
            if stores.count(x) != len(assigns.get(x, [])):
                assigns[x] = [None] * stores.count(x)
        self.assigns = assigns
        argnames = {y.arg for y in ast.walk(node) if isinstance(y, ast.arg)}
        once = lambda x: assigns[x][0] if len(assigns.get(x, [])) == 1 and x not in argnames else None
        self.once = once
        # locals holding a lambda (inlined at the call), a multiprocessing.Pool, a set
        self.lambdas = {x for x in assigns if isinstance(once(x), ast.Lambda)}
        self.pools = {x for x in assigns if self.is_pool_ctor(once(x))}
        self.sets = {x for x, vs in assigns.items() if any(self.is_set_expr(v, ()) for v in vs)}
        self.sets = {x for x, vs in assigns.items() if any(self.is_set_expr(v, ()) for v in vs)}      # second pass: s2 = s1 | {..}
        self.tracked = set()
        grew = True
        while grew:                        # names assigned from get_rng(..) or from another such name
            grew = False
            for n in ast.walk(node):
                if isinstance(n, ast.Assign) and len(n.targets) == 1 and isinstance(n.targets[0], ast.Name):
                    y, v = n.targets[0].id, n.value
                    if y not in self.tracked and (self.is_get_rng(v) or (isinstance(v, ast.Name) and v.id in self.tracked)):
                        self.tracked.add(y)
                        grew = True

        # names assigned once from a draw: `x = rng.randint(..)` / `x = get_rng(e).randint(..)` -> the rng name they come from
        self.drawn = {}
        for x in assigns:
            v = once(x)
            if isinstance(v, ast.Call) and isinstance(v.func, ast.Attribute):
                if isinstance(v.func.value, ast.Name) and v.func.value.id in self.tracked:
                    self.drawn[x] = v.func.value.id
                elif self.is_get_rng(v.func.value):
                    self.drawn[x] = self.tmp_rng(v.func.value)

    def translate(self):
        body = self.node.body
        if self.tuple_seed:                # the unpacking statement IS the parameter list
            body = [s for s in body if s is not self.tuple_seed[2]]
        c = self.block(body, top=True)
        def deco_name(d):
            root, attrs, _ = self.chain(d.func if isinstance(d, ast.Call) else d)
            return '.'.join([root or '?'] + attrs)
        decos = [d for d in getattr(self.node, 'decorator_list', []) if deco_name(d) not in PURE_DECORATORS]
        return seq(NP, c) if decos else c  # a decorator nobody vouched for may replace the function

    def flag(self, c, node, why):
        """a pessimistic effect, with the reason (diagnostics only)"""
        self.T.why.setdefault(self.q, []).append('line %s: %s' % (getattr(node, 'lineno', '?'), why))
        return c

    def tmp_rng(self, call):
        return '$rng%d_%d' % (call.lineno, call.col_offset)

    def is_pool_ctor(self, v):
        if not (isinstance(v, ast.Call) and isinstance(v.func, ast.Attribute) and v.func.attr == 'Pool' and isinstance(v.func.value, ast.Name)):
            return False
        r = v.func.value.id
        return r not in self.locals_early() and self.M.imports.get(r) == 'multiprocessing'

    def locals_early(self):
        return getattr(self, 'locals', set())

    def is_set_expr(self, v, seen):
        if isinstance(v, (ast.Set, ast.SetComp)):
            return True
        if isinstance(v, ast.Call) and isinstance(v.func, ast.Name) and v.func.id in ('set', 'frozenset') and v.func.id not in self.locals_early():
            return True
        if isinstance(v, ast.Name):
            return v.id in getattr(self, 'sets', ())
        if isinstance(v, ast.BinOp) and isinstance(v.op, (ast.BitOr, ast.BitAnd, ast.Sub, ast.BitXor)):
            return self.is_set_expr(v.left, seen) or self.is_set_expr(v.right, seen)
        return False

    def default_seed_split(self, stores):
        """index i of a top-level statement `if seed is None: seed = <expr>` that is the only re-assignment of the seed parameter
        and precedes every get_rng(..): the rest of the body then runs as the function `<q>$rest` called with the raw seed
        or with a number computed from the arguments (FnTr.block)"""
        if not self.has_seed:
            return None
        body = self.node.body
        for i, s in enumerate(body):
            if (stores.count('seed') == (2 if self.tuple_seed else 1) and isinstance(s, ast.If) and not s.orelse and len(s.body) == 1 and isinstance(s.test, ast.Compare)
                    and isinstance(s.test.left, ast.Name) and s.test.left.id == 'seed' and len(s.test.ops) == 1
                    and isinstance(s.test.ops[0], ast.Is) and isinstance(s.test.comparators[0], ast.Constant) and s.test.comparators[0].value is None
                    and isinstance(s.body[0], ast.Assign) and len(s.body[0].targets) == 1 and isinstance(s.body[0].targets[0], ast.Name)
                    and s.body[0].targets[0].id == 'seed'):
                before = [n for st in body[:i] for n in ast.walk(st) if isinstance(n, ast.Call) and isinstance(n.func, ast.Name) and n.func.id == 'get_rng']
                mentions = [n for n in ast.walk(s.body[0].value) if isinstance(n, ast.Name) and n.id == 'seed']
                if not before and not mentions:
                    return s
        return None

    # ---------------------------------------------------------------- helpers
    def is_get_rng(self, v):
        return (isinstance(v, ast.Call) and isinstance(v.func, ast.Name) and v.func.id == 'get_rng'
                and 'get_rng' not in self.locals and self.T.resolve(self.M, 'get_rng') == [GET_RNG_HOME + '.get_rng'])

    def classify(self, e):
        """-> (effects of evaluating e, sexp)"""
        if e is None or (isinstance(e, ast.Constant) and e.value is None):
            return SKIP, 'ENone'
        if isinstance(e, ast.Name) and e.id == 'seed' and self.has_seed:
            return SKIP, ('ESeed' if self.seed_ok else 'EOther')
        if isinstance(e, ast.Name) and e.id in self.tracked:
            return SKIP, ('EVar', e.id)
        return self.ex(e), 'EOther'

    def chain(self, n):
        attrs = []
        while isinstance(n, ast.Attribute):
            attrs.append(n.attr)
            n = n.value
        return (n.id if isinstance(n, ast.Name) else None), attrs[::-1], n

    def np_random_chain(self, n):
        root, attrs, _ = self.chain(n)
        return root in self.M.np_alias and root not in self.locals and attrs[:1] == ['random']

    # ---------------------------------------------------------------- expressions
    def ex(self, n):
        if n is None:
            return SKIP
        if isinstance(n, list):
            return seq(*[self.ex(x) for x in n])
        if isinstance(n, ast.Call):
            return self.call(n)
        if isinstance(n, ast.Attribute):
            root, attrs, base = self.chain(n)
            if self.np_random_chain(n):
                return NP
            if root in self.tracked:
                return NP                                   # attribute of an rng object used as a value
            if root is not None and root not in self.locals and root not in self.nested:
                return self.global_use(root, attrs, node=n) # member of a module / of a global object
            return self.ex(base)
        if isinstance(n, ast.Name):
            return self.name(n)
        if isinstance(n, ast.Lambda):
            return NP if self.block([ast.Expr(n.body)]) != SKIP else SKIP
        if isinstance(n, (ast.ListComp, ast.SetComp, ast.GeneratorExp, ast.DictComp)):
            c = seq(self.ex(n.key), self.ex(n.value)) if isinstance(n, ast.DictComp) else self.ex(n.elt)
            for g in reversed(n.generators):
                c = seq(self.ex(g.iter), ND if self.is_set_expr(g.iter, ()) else SKIP, loop(seq(self.store(g.target), self.ex(g.ifs), c)))
            return c
        if isinstance(n, ast.IfExp):
            return seq(self.ex(n.test), choice(self.ex(n.body), self.ex(n.orelse)))
        if isinstance(n, ast.BoolOp):
            return seq(self.ex(n.values[0]), choice(self.ex(n.values[1:]), SKIP))
        if isinstance(n, ast.NamedExpr):
            return seq(self.ex(n.value), self.store(n.target))
        if isinstance(n, (ast.Yield, ast.YieldFrom, ast.Await)):
            return seq(self.ex(n.value), NP)                # lazily executed bodies are not modelled
        skip = (ast.expr_context, ast.operator, ast.unaryop, ast.boolop, ast.cmpop)
        return seq(*[self.ex(ch) for ch in ast.iter_child_nodes(n) if not isinstance(ch, skip)])

    def name(self, n):
        i = n.id
        if i in self.tracked or (i == 'seed' and self.has_seed):
            return self.flag(NP, n, 'the rng / the raw seed escapes or is inspected: ' + i)
        if i in self.locals:
            return SKIP
        if i in self.nested:
            return NP if self.nested[i] is None or self.inline(i) != SKIP else SKIP
        return self.global_use(i, [], node=n)

    def global_use(self, root, attrs, called=False, node=None):
        c = self.global_use0(root, attrs, called)
        if c in (NP, PY, ND):
            self.flag(c, node, '%s: %s' % (c[0], '.'.join([root] + attrs)))
        return c

    def global_use0(self, root, attrs, called=False):
        """effect of reading (or, with called=True, calling) <root>.<attrs> where root is not a local name; bct functions that are
        CALLED are handled by call() before it gets here"""
        tag, pay = self.T.global_kind(self.M, root)
        if tag == 'nprandom':
            return NP
        if tag == 'pyrandom':
            return PY
        if tag == 'path':
            if not attrs and pay == 'numpy':
                return NP                                   # bare numpy module passed around
            return path_effect('.'.join([pay] + attrs))
        if tag == 'bctfn':
            return choices([('Call', q, 'EOther') for q in pay]) if not attrs else SKIP   # function used as a value / its attribute (__name__, ...)
        if tag == 'bctmod':
            if not attrs:
                return NP                                   # a module object passed around
            a, owner = attrs[-1], (attrs[-2] if len(attrs) > 1 else root)
            cands = self.T.by_name.get(a, [])
            if cands:
                return choices([('Call', q, 'EOther') for q in cands])     # bct.utils.f used as a value
            if a in self.T.all_classes or a in self.T.mod_names:
                return SKIP
            defs = {m.name + '.' + a: m.globals_[a] for m in self.T.mods.values() if m.name.split('.')[-1] == owner and a in m.globals_}
            return SKIP if defs and all(k == 'const' or q in TRUSTED_PATHS for q, k in defs.items()) else NP     # a module-level variable
        if tag == 'class':
            return SKIP                                     # methods of bct classes are checked to be effect-free (no_unmodelled_effects)
        if tag == 'const':
            return SKIP if not (called and attrs) or attrs[-1] not in RNG_METHODS else NP
        if tag == 'nondet':
            return ND
        return NP                                           # unknown global

    def store(self, t):
        if t is None:
            return SKIP
        if isinstance(t, list):
            return seq(*[self.store(x) for x in t])
        if isinstance(t, ast.Name):
            return ('GetRng', t.id, 'EOther') if t.id in self.tracked else SKIP
        if isinstance(t, (ast.Tuple, ast.List)):
            return seq(*[self.store(x) for x in t.elts])
        if isinstance(t, ast.Starred):
            return self.store(t.value)
        return self.ex(t)                                   # subscript / attribute target: evaluate its parts

    def call(self, n):
        f = n.func
        args_ = lambda: seq(self.ex(n.args), self.ex([k.value for k in n.keywords]))
        if self.is_get_rng(n):
            return seq(args_(), self.flag(NP, n, 'get_rng(..) neither assigned to a name nor drawn from at once'))
        if isinstance(f, ast.Attribute) and isinstance(f.value, ast.Name) and f.value.id in self.tracked:
            if f.attr == 'seed' and not n.args and not n.keywords:
                return ND                                   # rng.seed(): re-seeded from OS entropy
            return seq(args_(), ('DrawLocal', f.value.id))     # rng.<method>(..)
        if isinstance(f, ast.Attribute) and self.is_get_rng(f.value):      # get_rng(e).<method>(..): a temporary name holds the rng
            g, t = f.value, self.tmp_rng(f.value)
            if len(g.args) + len(g.keywords) <= 1 and not any(isinstance(a, ast.Starred) for a in g.args) and all(k.arg == 'seed' for k in g.keywords):
                c, e = self.classify((g.args + [k.value for k in g.keywords] + [None])[0])
                return seq(args_(), c, ('GetRng', t, e), ('DrawLocal', t))
            return seq(args_(), NP)
        if isinstance(f, ast.Attribute) and self.np_random_chain(f):
            return seq(args_(), NP)
        if isinstance(f, ast.Attribute) and isinstance(f.value, ast.Name) and f.value.id in self.pools:
            return self.pool_call(n, args_)
        # exposure of the iteration order of a set
        if (isinstance(f, ast.Name) and f.id in ORDER_CONSUMERS and f.id not in self.locals) or (isinstance(f, ast.Attribute) and f.attr in ORDER_CONSUMERS):
            if any(self.is_set_expr(a, ()) for a in n.args):
                return seq(args_(), ND)
        if isinstance(f, ast.Attribute) and f.attr == 'pop' and not n.args and self.is_set_expr(f.value, ()):
            return ND
        cands, nested = [], None
        if isinstance(f, ast.Name) and f.id in self.nested:
            nested = f.id
        elif isinstance(f, ast.Name) and f.id in self.lambdas:
            lam = self.once(f.id)
            return seq(args_(), self.block([ast.Expr(lam.body)]))          # a local lambda: its body, at the call
        elif isinstance(f, ast.Name) and f.id in self.locals:
            fs = self.callable_param(f.id)                  # a parameter of a nested def that only ever receives nested defs
            if fs is not None:
                return seq(args_(), choices([self.inline(x) for x in fs]))
            return seq(args_(), self.flag(NP, n, 'call of a local callable of unknown origin: ' + f.id))
        elif isinstance(f, ast.Name):
            tag, pay = self.T.global_kind(self.M, f.id)
            if tag != 'bctfn':
                return seq(args_(), self.global_use(f.id, [], called=True, node=n))
            cands = pay
        elif isinstance(f, ast.Attribute):
            root, attrs, base = self.chain(f)
            if root is None or root in self.locals or root in self.nested:
                # a method of a value (local object, result of an expression): the value was classified where it was produced
                return seq(self.ex(f.value), args_(), self.flag(NP, n, 'RNG method name on an object that is not a tracked rng: .' + f.attr) if f.attr in RNG_METHODS else SKIP)
            tag, pay = self.T.global_kind(self.M, root)
            if tag == 'bctmod' and self.T.by_name.get(f.attr):
                cands = list(self.T.by_name[f.attr])
            else:
                return seq(args_(), self.global_use(root, attrs, called=True, node=n))
        elif (isinstance(f, ast.Call) and isinstance(f.func, ast.Name) and f.func.id == 'type' and 'type' not in self.locals
              and len(f.args) == 1 and not f.keywords):
            return seq(self.ex(f.args), args_())            # type(v)(..): an instance of the class of a value classified where it was produced
        else:
            return seq(self.ex(f), args_(), self.flag(NP, n, 'callee is an expression'))   # f(..)(..), table[i](..): a callable of unknown origin
        if nested is not None:
            return seq(args_(), NP if self.nested[nested] is None else self.inline(nested))
        outs = []
        for q in cands:
            if q == GET_RNG_HOME + '.get_rng':
                outs.append(NP)
                continue
            idx, pre, e, known = self.T.seed_index(q), [], 'ENone', True
            if any(isinstance(a, ast.Starred) for a in n.args) or any(k.arg is None for k in n.keywords):
                known = False
            for j, a in enumerate(n.args):
                if idx is not None and idx >= 0 and j == idx:
                    c, e = self.classify(a)
                    pre.append(c)
                else:
                    pre.append(self.ex(a))
            for k in n.keywords:
                if idx is not None and k.arg == 'seed':
                    c, e = self.classify(k.value)
                    pre.append(c)
                else:
                    pre.append(self.ex(k.value))
            if idx is None:
                e = 'ENone'
            elif not known:
                e = 'EOther'
            outs.append(seq(*pre, ('Call', q, e)))
        return choices(outs)

    def callable_param(self, p):
        owners = [d for d in self.nested.values() if d is not None and p in [a.arg for a in d.args.posonlyargs + d.args.args]]
        if len(owners) != 1 or p in self.stores or p in [a.arg for a in ast.walk(self.node.args) if isinstance(a, ast.arg)]:
            return None
        d = owners[0]
        pos = [a.arg for a in d.args.posonlyargs + d.args.args].index(p)
        sites = [c for c in ast.walk(self.node) if isinstance(c, ast.Call) and isinstance(c.func, ast.Name) and c.func.id == d.name]
        loads = sum(1 for x in ast.walk(self.node) if isinstance(x, ast.Name) and x.id == d.name)
        if not sites or loads != len(sites):
            return None                                     # the nested def escapes as a value: its callers are not all known
        out = set()
        for c in sites:
            if any(isinstance(a, ast.Starred) for a in c.args) or any(k.arg is None for k in c.keywords):
                return None
            arg = c.args[pos] if pos < len(c.args) else next((k.value for k in c.keywords if k.arg == p), None)
            if not (isinstance(arg, ast.Name) and self.nested.get(arg.id) is not None and arg.id not in self.stores):
                return None
            out.add(arg.id)
        return sorted(out)

    def drawn_elem(self, e):
        """seed expression of a task-tuple element: int(perm_seeds[u]) with perm_seeds drawn from rng x -> EDrawn x"""
        if isinstance(e, ast.Call) and isinstance(e.func, ast.Name) and e.func.id == 'int' and 'int' not in self.locals and len(e.args) == 1 and not e.keywords:
            e = e.args[0]
        if isinstance(e, ast.Subscript) and isinstance(e.value, ast.Name) and e.value.id in self.drawn and self.ex(e.slice) == SKIP:
            return ('EDrawn', self.drawn[e.value.id])
        if isinstance(e, ast.Name) and e.id in self.drawn:
            return ('EDrawn', self.drawn[e.id])
        return self.classify(e)[1] if self.classify(e)[0] == SKIP else 'EOther'

    def pool_call(self, n, args_):
        """pool.map(task, tasks): a loop of calls of `task`, one per element, in order (Pool.map returns the results in the order
        of the inputs; the task tuples are pickled, which preserves numbers); pool.close/join/terminate: nothing"""
        f = n.func
        if f.attr in ('close', 'join', 'terminate') and not n.args and not n.keywords:
            return SKIP
        if f.attr != 'map' or len(n.args) != 2 or n.keywords or not all(isinstance(a, ast.Name) for a in n.args):
            return seq(args_(), NP)                            # imap_unordered, apply_async, ...: order / scheduling dependent
        fn, lst = n.args[0].id, n.args[1].id
        cands = self.T.resolve(self.M, fn) if fn not in self.locals else []
        comp = self.once(lst)
        uses = sum(1 for x in ast.walk(self.node) if isinstance(x, ast.Name) and x.id == lst)
        if len(cands) != 1 or not self.T.tuple_seed(cands[0]) or uses != 2 or not (isinstance(comp, ast.ListComp) and isinstance(comp.elt, ast.Tuple)):
            return seq(args_(), NP)
        names = self.T.tuple_seed(cands[0])[1]
        if len(comp.elt.elts) != len(names) or any(isinstance(x, ast.Starred) for x in comp.elt.elts):
            return seq(args_(), NP)
        e = self.drawn_elem(comp.elt.elts[names.index('seed')])
        return loop(('Call', cands[0], e))                  # (the other elements were evaluated where the list was built)

    def inline(self, name):
        if name in self.cache:
            return self.cache[name]
        if name in self.stack:
            self.rec_hit.add(name)
            return SKIP
        d = self.nested[name]
        self.stack.append(name)
        c = self.block(d.body)
        self.stack.pop()
        params = {x.arg for x in ast.walk(d.args) if isinstance(x, ast.arg)}
        if c != SKIP and params & (self.tracked | {'seed'} | set(self.nested)):
            c = NP                                          # shadowing with effects: not modelled
        elif c != SKIP and name in self.rec_hit:            # recursion: fine if only generator-free calls are repeated
            c = loop(c) if all(x[0] in ('Skip', 'Seq', 'Choice', 'Loop') or (x[0] == 'Call' and x[2] == 'ENone') for x in subcmds(c)) else NP
        if not self.stack:
            self.cache[name] = c
        return c

    # ---------------------------------------------------------------- statements
    def block(self, stmts, top=False):
        out = SKIP
        if top and self.split is not None and any(s is self.split for s in stmts) and self.seed_ok:
            i = [k for k, s in enumerate(stmts) if s is self.split][0]
            rest = self.q + '$rest'                         # `if seed is None: seed = <number computed from the arguments>`:
            self.T.synth[rest] = self.block(stmts[i + 1:])  # what follows is a function of its own, called with the seed
            out = seq(self.ex(self.split.body[0].value),    # as received or with that number
                      choice(('Call', rest, 'ESeed'), ('Call', rest, 'EComputed')))
            stmts = stmts[:i]
        for s in reversed(stmts):
            c = self.st(s)
            out = seq(c, choice(out, SKIP)) if has_jump(s) else seq(c, out)   # a jump makes the rest optional
        return out

    def st(self, s):
        if isinstance(s, ast.Assign):
            v = s.value
            if len(s.targets) == 1 and isinstance(s.targets[0], ast.Name):
                y = s.targets[0].id
                if self.is_get_rng(v) and len(v.args) + len(v.keywords) <= 1 and not any(isinstance(a, ast.Starred) for a in v.args) and all(k.arg == 'seed' for k in v.keywords):
                    c, e = self.classify((v.args + [k.value for k in v.keywords] + [None])[0])
                    return seq(c, ('GetRng', y, e))
                if isinstance(v, ast.Name) and v.id in self.tracked:
                    return ('GetRng', y, ('EVar', v.id))
                if y in self.pools and self.is_pool_ctor(v):
                    return seq(self.ex(v.args), self.ex([k.value for k in v.keywords]))     # pool = multiprocessing.Pool(workers)
            return seq(self.ex(v), self.store(s.targets))
        if isinstance(s, ast.AugAssign):
            return seq(self.ex(s.value), self.ex(s.target) if not isinstance(s.target, ast.Name) else self.name(s.target), self.store(s.target))
        if isinstance(s, ast.AnnAssign):
            return seq(self.ex(s.value), self.store(s.target))
        if isinstance(s, (ast.Expr, ast.Return)):
            return self.ex(s.value)
        if isinstance(s, ast.Raise):
            return seq(self.ex(s.exc), self.ex(s.cause))
        if isinstance(s, ast.Assert):
            return seq(self.ex(s.test), self.ex(s.msg))
        if isinstance(s, ast.Delete):
            return self.store(s.targets)
        if isinstance(s, (ast.Pass, ast.Break, ast.Continue, ast.Import, ast.ImportFrom)):
            return SKIP
        if isinstance(s, (ast.Global, ast.Nonlocal)):
            return NP                                       # rebinding of names outside the function: not modelled
        if isinstance(s, ast.If):
            return seq(self.ex(s.test), choice(self.block(s.body), self.block(s.orelse)))
        if isinstance(s, (ast.For, ast.AsyncFor)):
            return seq(self.ex(s.iter), ND if self.is_set_expr(s.iter, ()) else SKIP, loop(seq(self.store(s.target), self.block(s.body))), self.block(s.orelse))
        if isinstance(s, ast.While):
            return seq(loop(seq(self.ex(s.test), self.block(s.body))), self.ex(s.test), self.block(s.orelse))
        if isinstance(s, (ast.With, ast.AsyncWith)):
            return seq(*[seq(self.ex(i.context_expr), self.store(i.optional_vars)) for i in s.items], self.block(s.body))
        if isinstance(s, ast.Try) or (hasattr(ast, 'TryStar') and isinstance(s, ast.TryStar)):
            body = SKIP
            for x in reversed(s.body):                      # an exception may leave the body after any statement
                body = seq(self.st(x), choice(body, SKIP))
            hs = [seq(self.ex(h.type), self.block(h.body)) for h in s.handlers]
            return seq(body, choices(hs + [SKIP]), choice(self.block(s.orelse), SKIP), self.block(s.finalbody))
        if isinstance(s, (ast.FunctionDef, ast.AsyncFunctionDef)):
            return seq(self.ex(s.decorator_list), self.ex(s.args.defaults), self.ex([d for d in s.args.kw_defaults if d]))
        if isinstance(s, ast.ClassDef):
            return NP if self.block(s.body) != SKIP or any(self.block(m.body) != SKIP for m in s.body if isinstance(m, (ast.FunctionDef, ast.AsyncFunctionDef))) else SKIP
        sub = seq(*[self.ex(ch) if isinstance(ch, ast.expr) else self.st(ch) if isinstance(ch, ast.stmt) else SKIP for ch in ast.walk(s) if ch is not s])
        return NP if sub != SKIP else SKIP                  # unknown statement kind (match, ...): pessimistic


# -------------------------------------------------------------------- program assembly
def subcmds(c):
    yield c
    if c[0] in ('Seq', 'Choice'):
        yield from subcmds(c[1])
        yield from subcmds(c[2])
    elif c[0] == 'Loop':
        yield from subcmds(c[1])


def callees(c):
    return {x[1] for x in subcmds(c) if x[0] == 'Call'}


def has(c, tags):
    return any(x[0] in tags for x in subcmds(c))


def closure(bodies, roots):
    seen, todo = set(), list(roots)
    while todo:
        q = todo.pop()
        if q in seen or q not in bodies:
            continue
        seen.add(q)
        todo += list(callees(bodies[q]))
    return seen


def build(repo, exclude=(), extra=None):
    """-> dict(program={q:(kind,cmd)}, excluded={...}, out_of_scope=[...], get_rng_ok, roots)"""
    T = Translator(repo, extra)
    roots = sorted(q for q in T.bodies if T.kind(q) == 'Seeded')
    keep = closure(T.bodies, [r for r in roots if r not in exclude])
    allr = closure(T.bodies, roots)
    prog = {q: (T.kind(q), T.bodies[q]) for q in sorted(keep)}
    excl = {q: (T.kind(q), T.bodies[q]) for q in sorted(allr - keep)}
    oos = sorted(q for q in T.bodies if q not in allr and has(T.bodies[q], ('DrawNpGlobal', 'DrawPyGlobal', 'NonDet', 'GetRng', 'DrawLocal')))
    return {'program': prog, 'excluded': excl, 'out_of_scope': oos, 'get_rng_ok': T.get_rng_ok, 'unmodelled': T.unmodelled,
            'get_rng_sha': getattr(T, 'get_rng_sha', None), 'roots': roots, 'n_functions_scanned': len(T.bodies), 'why': T.why}


# -------------------------------------------------------------------- Coq emission
def coq_e(e):
    return e if isinstance(e, str) else '(%s "%s")' % (e[0], e[1])


def coq(c, ind=2):
    t, p = c[0], ' ' * ind
    if t in ('Skip', 'DrawNpGlobal', 'DrawPyGlobal', 'NonDet'):
        return t
    if t == 'GetRng':
        return '(GetRng "%s" %s)' % (c[1], coq_e(c[2]))
    if t == 'DrawLocal':
        return '(DrawLocal "%s")' % c[1]
    if t == 'Call':
        return '(Call "%s" %s)' % (c[1], coq_e(c[2]))
    if t == 'Loop':
        return '(Loop %s)' % coq(c[1], ind + 2)
    return '(%s %s\n%s%s)' % (t, coq(c[1], ind + 2), p, coq(c[2], ind + 2))


def ident(q):
    return 'f_' + ''.join(ch if ch.isalnum() else '_' for ch in q)


def emit_corpus(cor):
    """coq/theories/Gen/EffectsNeg.v: the pinned corpus translated by the CURRENT translator; the Coq checker must reject every
    negative entry point and accept every control"""
    L = ['(* GENERATED on every run by harness/translate_effects.py from harness/c05_corpus.py + the bct/ source tree. DO NOT EDIT.',
         '   Negative snippets (each breaks the seeding discipline or determinism) and controls, as translated by the current translator. *)',
         'From Coq Require Import List String Bool.', 'From BCT Require Import Model.EffectLang.',
         'Import ListNotations.', 'Open Scope string_scope.', '']
    d = cor['program']
    for q, (k, c) in d.items():
        L.append('Definition %s : cmd :=\n  %s.' % (ident(q), coq(c, 2)))
    L += ['', 'Definition corpus : EffectLang.program :=\n  [ %s ].' % ';\n    '.join('("%s", (%s, %s))' % (q, k, ident(q)) for q, (k, c) in d.items()), '',
          'Definition negative_entry_points : list string :=\n  [ %s ].' % ';\n    '.join('"%s"' % q for q in cor['negative']), '',
          'Definition control_entry_points : list string :=\n  [ %s ].' % ';\n    '.join('"%s"' % q for q in cor['control']), '',
          'Definition present (f : string) : bool := match lookup corpus f with Some _ => true | None => false end.', '',
          '(* every entry point was translated (a missing one would be "rejected" for the wrong reason); every negative one is rejected',
          '   by the checker; every control is accepted *)',
          'Example corpus_verdicts :',
          '  forallb present (negative_entry_points ++ control_entry_points) = true /\\',
          '  forallb (fun f => negb (seed_safe corpus f)) negative_entry_points = true /\\',
          '  forallb (seed_safe corpus) control_entry_points = true /\\',
          '  %d <= List.length negative_entry_points.' % CORPUS_FLOOR,
          'Proof. vm_compute. repeat split; try reflexivity; repeat constructor. Qed.', '']
    return '\n'.join(L)


def emit(res):
    L = ['(* GENERATED on every run by harness/translate_effects.py from the bct/ source tree. DO NOT EDIT.',
         '   One EffectLang body per function that has a `seed` parameter and per function reachable from one. *)',
         'From Coq Require Import List String.', 'From BCT Require Import Model.EffectLang.',
         'Import ListNotations.', 'Open Scope string_scope.', '']
    for title, d in (('program', res['program']), ('excluded', res['excluded'])):
        for q, (k, c) in d.items():
            L.append('Definition %s : cmd :=\n  %s.' % (ident(q), coq(c, 2)))
        L.append('')
        L.append('Definition %s : EffectLang.program :=\n  [ %s ].' % (title, ';\n    '.join('("%s", (%s, %s))' % (q, k, ident(q)) for q, (k, c) in d.items())) if d
                 else 'Definition %s : EffectLang.program := [].' % title)
        L.append('')
    L += ['(* get_rng is modelled by hand (EffectLang.get_rng); the translator compares the source with the version modelled *)',
          'Definition get_rng_as_modelled : bool := %s.' % ('true' if res['get_rng_ok'] else 'false'),
          'Example get_rng_ok : get_rng_as_modelled = true.', 'Proof. reflexivity. Qed.', '',
          '(* methods of classes and module-level lambdas cannot be resolved as callees: none of them may touch a generator *)',
          'Definition unmodelled_callables_with_effects : list string := [%s].' % '; '.join('"%s"' % q for q in res['unmodelled']),
          'Example no_unmodelled_effects : unmodelled_callables_with_effects = [].', 'Proof. reflexivity. Qed.', '',
          '(* `excluded` = seed-accepting functions declared outside the static model (harness/c05.py STATIC_OUT_OF_MODEL:',
          '   multiprocessing) or carrying a recorded known finding with `static_exclude`, and what only they reach.',
          '   Nothing in `program` may call them: the checker rejects calls to functions outside `program`. *)',
          'Example all_safe : prog_safe program = true.', 'Proof. vm_compute. reflexivity. Qed.', '',
          '(* the functions of bct/ that accept a seed (a parameter named `seed`, or a task tuple unpacked into `seed, ...`), and',
          '   `<f>$rest` = the body of f after `if seed is None: seed = <number>`: every one of them is in `program` *)',
          'Definition seeded_functions : list string :=\n  [ %s ].' % ';\n    '.join('"%s"' % q for q in res['roots']),
          'Example seeded_functions_in_program :',
          '  forallb (fun f => match lookup program f with Some (Seeded, _) => true | _ => false end) seeded_functions = true.',
          'Proof. vm_compute. reflexivity. Qed.', '']
    return '\n'.join(L)


# -------------------------------------------------------------------- diagnostics (Python port of [check]; NOT trusted:
# used only to say WHICH function the Coq checker rejects and why; cross-checked against the extracted checker)
def py_check(prog, c, a):
    u, B = a
    t = c[0]
    if t == 'Skip':
        return a
    if t == 'GetRng':
        if c[2] == 'ESeed':
            return 'raw seed consumed twice (get_rng(seed) after the seed was already used)' if u else (True, B | {c[1]})
        if isinstance(c[2], tuple) and c[2][0] == 'EVar':
            return (u, B | {c[1]}) if c[2][1] in B else 'get_rng(%s): %s does not hold the rng here' % (c[2][1], c[2][1])
        return '%s = get_rng(<%s>): not derived from the seed parameter' % (c[1], c[2] if isinstance(c[2], str) else c[2][0])
    if t == 'DrawLocal':
        return a if c[1] in B else 'draw on %s which does not (on every path) hold the rng' % c[1]
    if t in ('DrawNpGlobal', 'DrawPyGlobal'):
        return 'uses %s (or an unrecognised use of the seed / an rng object / a name or callee nobody vouched for)' % ('np.random' if t == 'DrawNpGlobal' else "Python's random")
    if t == 'NonDet':
        return 'reads the environment (time / os / hash / id / np.empty / set order / rng.seed())'
    if t == 'Call':
        if c[1] not in prog:
            return 'calls %s which is outside the checked program' % c[1]
        if c[2] == 'ESeed':
            return 'raw seed passed to %s after it was already consumed (re-seeding)' % c[1] if u else (True, B)
        if isinstance(c[2], tuple) and c[2][0] == 'EVar':
            return a if c[2][1] in B else 'passes %s to %s but it does not hold the rng' % (c[2][1], c[1])
        if isinstance(c[2], tuple):                         # EDrawn
            return a if c[2][1] in B else 'seeds %s with numbers drawn from %s but it does not hold the rng' % (c[1], c[2][1])
        if c[2] == 'EComputed':
            return 'seeds %s with a computed number after the raw seed was consumed' % c[1] if u else a
        if c[2] == 'ENone':
            return a if prog[c[1]][0] == 'Pure' else 'calls %s without forwarding the seed/rng' % c[1]
        return 'passes an unrecognised seed expression to %s' % c[1]
    if t == 'Seq':
        a1 = py_check(prog, c[1], a)
        return a1 if isinstance(a1, str) else py_check(prog, c[2], a1)
    if t == 'Choice':
        a1, a2 = py_check(prog, c[1], a), py_check(prog, c[2], a)
        return a1 if isinstance(a1, str) else a2 if isinstance(a2, str) else (a1[0] or a2[0], a1[1] & a2[1])
    if t == 'Loop':
        a1 = py_check(prog, c[1], a)
        return a1 if isinstance(a1, str) else a if a1[0] == u else 'raw seed consumed inside a loop (re-seeding on every iteration)'


def py_verdicts(prog):
    """{q: None if accepted else reason}"""
    out = {}
    for q, (k, c) in prog.items():
        r = py_check(prog, c, (k == 'Pure', frozenset()))
        out[q] = r if isinstance(r, str) else None
    return out


def may_draw(prog, q, seen=None):
    """static summary: can q (transitively) perform a DrawLocal?"""
    seen = set() if seen is None else seen
    if q in seen or q not in prog:
        return False
    seen.add(q)
    c = prog[q][1]
    return has(c, ('DrawLocal',)) or any(may_draw(prog, g, seen) for g in callees(c))


# -------------------------------------------------------------------- encoding for the extracted checker (ocaml/drv_c05.ml)
def enc_e(e):
    return {'ESeed': '0', 'ENone': '2', 'EOther': '3', 'EComputed': '5'}[e] if isinstance(e, str) else ('1 ' if e[0] == 'EVar' else '4 ') + e[1]


def enc(c):
    t = c[0]
    if t in ('Skip', 'DrawNpGlobal', 'DrawPyGlobal', 'NonDet'):
        return {'Skip': '0', 'DrawNpGlobal': '3', 'DrawPyGlobal': '4', 'NonDet': '9'}[t]
    if t == 'GetRng':
        return '1 %s %s' % (c[1], enc_e(c[2]))
    if t == 'DrawLocal':
        return '2 ' + c[1]
    if t == 'Call':
        return '5 %s %s' % (c[1], enc_e(c[2]))
    if t == 'Loop':
        return '8 ' + enc(c[1])
    return '%s %s %s' % ('6' if t == 'Seq' else '7', enc(c[1]), enc(c[2]))


def enc_program(prog):
    return 'check %d ' % len(prog) + ' '.join('%s %d %s' % (q, 0 if k == 'Seeded' else 1, enc(c)) for q, (k, c) in prog.items())


def generate(repo, verif, exclude=(), corpus=None):
    src = read_tree(repo)
    res = build(src, exclude)
    out = [('Effects.v', emit(res))]
    if corpus is not None:
        res['corpus'] = build_corpus(src, corpus)
        out.append(('EffectsNeg.v', emit_corpus(res['corpus'])))
    for name, txt in out:
        path = os.path.join(verif, 'coq', 'theories', 'Gen', name)
        os.makedirs(os.path.dirname(path), exist_ok=True)
        if not os.path.exists(path) or open(path).read() != txt:
            open(path, 'w').write(txt)
    return res


if __name__ == '__main__':
    import sys
    r = build(sys.argv[1] if len(sys.argv) > 1 else '/repo')
    v = py_verdicts(r['program'])
    print(json.dumps({'functions': len(r['program']), 'roots': len(r['roots']), 'rejected': {k: x for k, x in v.items() if x},
                      'out_of_scope': r['out_of_scope'], 'get_rng_ok': r['get_rng_ok'], 'sha': r['get_rng_sha']}, indent=1))


# -------------------------------------------------------------------- the pinned negative corpus (harness/c05_corpus.py)
def build_corpus(repo, corpus):
    """translate the current tree + the corpus modules -> (program = closure of the corpus entry points, negatives, controls, reasons)"""
    T = Translator(repo, extra=corpus.modules())
    neg, ctl = corpus.entry_points()
    keep = closure(T.bodies, neg + ctl)
    prog = {q: (T.kind(q), T.bodies[q]) for q in sorted(keep)}
    return {'program': prog, 'negative': neg, 'control': ctl, 'why': {q: T.why.get(q, []) for q in neg}}
