"""translate_effects.py — fail-closed abstraction of every function under <REPO>/bct to the effect
language of coq/theories/Model/EffectLang.v (property C05), written to coq/theories/Gen/Effects.v.

Only what can touch a random generator survives the translation; everything else becomes Skip.
Fail-closed: a construct that mentions the seed parameter, a name holding an rng object, np.random or
Python's random in a way the translator does not recognise becomes DrawNpGlobal/DrawPyGlobal (always
rejected by the Coq checker) — nothing that touches those names is dropped.  Commands are tuples:
('Skip',) ('GetRng',x,e) ('DrawLocal',x) ('DrawNpGlobal',) ('DrawPyGlobal',) ('Call',f,e) ('Seq',a,b)
('Choice',a,b) ('Loop',a);  e in 'ESeed' | ('EVar',x) | 'ENone' | 'EOther'."""
import ast, os, hashlib, json

SKIP, NP, PY = ('Skip',), ('DrawNpGlobal',), ('DrawPyGlobal',)
JUMPS = (ast.Return, ast.Raise, ast.Break, ast.Continue)
DEFS = (ast.FunctionDef, ast.AsyncFunctionDef, ast.Lambda, ast.ClassDef)
# sha256 of ast.dump of get_rng's body (docstring removed) that Model/EffectLang.v [get_rng] mirrors by hand
GET_RNG_SHA = '58d72d790b93a4fc08044979ec84097567ad8d8a9a571305daca758f70aaef23'
GET_RNG_HOME = 'utils.miscellaneous_utilities'


def seq(*cs):
    out = SKIP
    for c in reversed(cs):
        out = out if c == SKIP else c if out == SKIP else ('Seq', c, out)
    return out


def choice(a, b):
    return SKIP if a == SKIP and b == SKIP else ('Choice', a, b)


def loop(a):
    return SKIP if a == SKIP else ('Loop', a)


def choices(cs):
    cs = list(cs)
    out = cs[-1]
    for c in reversed(cs[:-1]):
        out = choice(c, out)
    return out


def walk_shallow(node):
    """ast.walk that does not enter nested function/class/lambda bodies"""
    todo = [node]
    while todo:
        n = todo.pop()
        yield n
        for ch in ast.iter_child_nodes(n):
            if not isinstance(ch, DEFS):
                todo.append(ch)


def has_jump(stmt):
    return any(isinstance(n, JUMPS) for n in walk_shallow(stmt))


class Mod:
    def __init__(self, name, tree):
        self.name, self.tree = name, tree
        self.funcs, self.methods = {}, {}
        todo = [(x, None) for x in tree.body]
        while todo:                                         # defs at module level (also under if/try/with), methods of classes
            n, cls = todo.pop(0)
            if isinstance(n, (ast.FunctionDef, ast.AsyncFunctionDef)):
                (self.funcs if cls is None else self.methods)[n.name if cls is None else cls + '.' + n.name] = n
            elif isinstance(n, ast.ClassDef):
                todo += [(x, (cls + '.' if cls else '') + n.name) for x in n.body]
            elif isinstance(n, ast.Assign) and isinstance(n.value, ast.Lambda):
                self.methods['<lambda@%d>' % n.lineno] = ast.FunctionDef(name='<lambda>', args=n.value.args, body=[ast.Expr(n.value.body)], decorator_list=[])
            else:
                todo += [(x, cls) for x in ast.iter_child_nodes(n) if isinstance(x, ast.stmt)]
        self.np_alias, self.np_random, self.py_random, self.bct_mods = set(), set(), set(), set()
        for n in ast.walk(tree):
            if isinstance(n, ast.Import):
                for a in n.names:
                    top, bound = a.name.split('.')[0], a.asname or a.name.split('.')[0]
                    if a.name == 'numpy.random' and a.asname:
                        self.np_random.add(a.asname)
                    elif top == 'numpy':
                        self.np_alias.add(bound)
                    elif a.name == 'random':
                        self.py_random.add(bound)
                    elif top == 'bct':
                        self.bct_mods.add(bound)
            elif isinstance(n, ast.ImportFrom):
                m = n.module or ''
                for a in n.names:
                    bound = a.asname or a.name
                    if m == 'numpy' and a.name in ('random', '*'):
                        self.np_random.add('random' if a.name == '*' else bound)
                    elif m.startswith('numpy.random'):
                        self.np_random.add(bound)
                    elif m == 'random':
                        self.py_random.add(bound)
                    elif n.level > 0 or m.split('.')[0] == 'bct':
                        self.bct_mods.add(bound)       # may be a submodule; harmless if it is a function


class Translator:
    def __init__(self, repo):
        self.mods, self.by_name = {}, {}
        root = os.path.join(repo, 'bct')
        for d, _, fs in sorted(os.walk(root)):
            for f in sorted(fs):
                if f.endswith('.py'):
                    rel = os.path.relpath(os.path.join(d, f), root)[:-3].replace(os.sep, '.')
                    rel = rel[:-9] if rel.endswith('.__init__') else rel
                    self.mods[rel] = Mod(rel, ast.parse(open(os.path.join(d, f)).read()))
        for m in self.mods.values():
            for fn in m.funcs:
                self.by_name.setdefault(fn, []).append(m.name + '.' + fn)
        self.defs = {m.name + '.' + fn: (m, node) for m in self.mods.values() for fn, node in m.funcs.items()}
        g = self.defs.get(GET_RNG_HOME + '.get_rng')
        self.get_rng_ok = False
        if g and self.by_name.get('get_rng') == [GET_RNG_HOME + '.get_rng']:
            body = g[1].body[1:] if isinstance(g[1].body[0], ast.Expr) and isinstance(getattr(g[1].body[0], 'value', None), ast.Constant) else g[1].body
            dump = ast.dump(ast.Module(body=body, type_ignores=[])) + '|' + ast.dump(g[1].args)
            self.get_rng_sha = hashlib.sha256(dump.encode()).hexdigest()
            self.get_rng_ok = self.get_rng_sha == GET_RNG_SHA
        self.bodies = {q: FnTr(self, m, node, q).translate() for q, (m, node) in self.defs.items() if q != GET_RNG_HOME + '.get_rng'}
        # methods / module-level lambdas are not callable through the name resolution above: they must be effect-free
        self.unmodelled = sorted(m.name + '.' + k for m in self.mods.values() for k, node in m.methods.items()
                                 if FnTr(self, m, node, k).translate() != SKIP)

    def resolve(self, mod, name):
        if name in mod.funcs:
            return [mod.name + '.' + name]
        return list(self.by_name.get(name, []))

    def seed_index(self, q):
        a = self.defs[q][1].args
        names = [x.arg for x in a.posonlyargs + a.args]
        if 'seed' in names:
            return names.index('seed')
        return -1 if 'seed' in [x.arg for x in a.kwonlyargs] else None

    def kind(self, q):
        return 'Seeded' if self.seed_index(q) is not None else 'Pure'


class FnTr:
    """translation of one top-level function (nested defs are inlined at their call sites: closures share the scope)"""

    def __init__(self, T, mod, node, qname):
        self.T, self.M, self.node, self.q = T, mod, node, qname
        a = node.args
        self.has_seed = 'seed' in [x.arg for x in a.posonlyargs + a.args + a.kwonlyargs]
        self.nested, self.stack, self.rec_hit, self.cache = {}, [], set(), {}
        for n in ast.walk(node):
            if n is not node and isinstance(n, (ast.FunctionDef, ast.AsyncFunctionDef)):
                self.nested[n.name] = None if n.name in self.nested else n      # None = ambiguous
        stores = [n.id for n in ast.walk(node) if isinstance(n, ast.Name) and isinstance(n.ctx, (ast.Store, ast.Del))]
        self.locals = set(stores) | {x.arg for x in ast.walk(node) if isinstance(x, ast.arg)}
        self.seed_ok = self.has_seed and 'seed' not in stores
        self.tracked = set()
        grew = True
        while grew:                        # names assigned from get_rng(..) or from another such name
            grew = False
            for n in ast.walk(node):
                if isinstance(n, ast.Assign) and len(n.targets) == 1 and isinstance(n.targets[0], ast.Name):
                    y, v = n.targets[0].id, n.value
                    if y not in self.tracked and (self.is_get_rng(v) or (isinstance(v, ast.Name) and v.id in self.tracked)):
                        self.tracked.add(y)
                        grew = True

    def translate(self):
        return self.block(self.node.body)

    # ---------------------------------------------------------------- helpers
    def is_get_rng(self, v):
        return (isinstance(v, ast.Call) and isinstance(v.func, ast.Name) and v.func.id == 'get_rng'
                and 'get_rng' not in self.locals and self.T.resolve(self.M, 'get_rng') == [GET_RNG_HOME + '.get_rng'])

    def classify(self, e):
        """-> (effects of evaluating e, sexp)"""
        if e is None or (isinstance(e, ast.Constant) and e.value is None):
            return SKIP, 'ENone'
        if isinstance(e, ast.Name) and e.id == 'seed' and self.has_seed:
            return SKIP, ('ESeed' if self.seed_ok else 'EOther')
        if isinstance(e, ast.Name) and e.id in self.tracked:
            return SKIP, ('EVar', e.id)
        return self.ex(e), 'EOther'

    def chain(self, n):
        attrs = []
        while isinstance(n, ast.Attribute):
            attrs.append(n.attr)
            n = n.value
        return (n.id if isinstance(n, ast.Name) else None), attrs[::-1], n

    def np_random_chain(self, n):
        root, attrs, _ = self.chain(n)
        return root in self.M.np_alias and root not in self.locals and attrs[:1] == ['random']

    # ---------------------------------------------------------------- expressions
    def ex(self, n):
        if n is None:
            return SKIP
        if isinstance(n, list):
            return seq(*[self.ex(x) for x in n])
        if isinstance(n, ast.Call):
            return self.call(n)
        if isinstance(n, ast.Attribute):
            root, attrs, base = self.chain(n)
            if self.np_random_chain(n):
                return NP
            if root in self.tracked:
                return NP                                   # attribute of an rng object used as a value
            if root in self.M.np_alias and root not in self.locals:
                return SKIP                                 # np.<something else>
            return self.ex(base)
        if isinstance(n, ast.Name):
            return self.name(n)
        if isinstance(n, ast.Lambda):
            return NP if self.block([ast.Expr(n.body)]) != SKIP else SKIP
        if isinstance(n, (ast.ListComp, ast.SetComp, ast.GeneratorExp, ast.DictComp)):
            c = seq(self.ex(n.key), self.ex(n.value)) if isinstance(n, ast.DictComp) else self.ex(n.elt)
            for g in reversed(n.generators):
                c = seq(self.ex(g.iter), loop(seq(self.store(g.target), self.ex(g.ifs), c)))
            return c
        if isinstance(n, ast.IfExp):
            return seq(self.ex(n.test), choice(self.ex(n.body), self.ex(n.orelse)))
        if isinstance(n, ast.BoolOp):
            return seq(self.ex(n.values[0]), choice(self.ex(n.values[1:]), SKIP))
        if isinstance(n, ast.NamedExpr):
            return seq(self.ex(n.value), self.store(n.target))
        if isinstance(n, (ast.Yield, ast.YieldFrom, ast.Await)):
            return seq(self.ex(n.value), NP)                # lazily executed bodies are not modelled
        skip = (ast.expr_context, ast.operator, ast.unaryop, ast.boolop, ast.cmpop)
        return seq(*[self.ex(ch) for ch in ast.iter_child_nodes(n) if not isinstance(ch, skip)])

    def name(self, n):
        i = n.id
        if i in self.tracked or (i == 'seed' and self.has_seed):
            return NP                                       # the rng / the raw seed escapes or is inspected
        if i in self.locals:
            return SKIP
        out = []
        if i in self.M.np_random:
            out.append(NP)
        if i in self.M.py_random:
            out.append(PY)
        if i in self.M.np_alias:
            out.append(NP)                                  # bare numpy module passed around
        if i in self.nested:
            out.append(NP if self.nested[i] is None or self.inline(i) != SKIP else SKIP)
        elif self.T.resolve(self.M, i):
            out.append(choices([('Call', q, 'EOther') for q in self.T.resolve(self.M, i)]))   # function used as a value
        return seq(*out)

    def store(self, t):
        if t is None:
            return SKIP
        if isinstance(t, list):
            return seq(*[self.store(x) for x in t])
        if isinstance(t, ast.Name):
            return ('GetRng', t.id, 'EOther') if t.id in self.tracked else SKIP
        if isinstance(t, (ast.Tuple, ast.List)):
            return seq(*[self.store(x) for x in t.elts])
        if isinstance(t, ast.Starred):
            return self.store(t.value)
        return self.ex(t)                                   # subscript / attribute target: evaluate its parts

    def call(self, n):
        f = n.func
        args = seq(self.ex(n.args), self.ex([k.value for k in n.keywords]))
        if self.is_get_rng(n):
            return seq(args, NP)                            # get_rng(..) not directly assigned to a name
        if isinstance(f, ast.Attribute) and isinstance(f.value, ast.Name) and f.value.id in self.tracked:
            return seq(args, ('DrawLocal', f.value.id))     # rng.<method>(..)
        if isinstance(f, ast.Attribute) and self.np_random_chain(f):
            return seq(args, NP)
        cands, nested = [], None
        if isinstance(f, ast.Name) and f.id in self.nested:
            nested = f.id
        elif isinstance(f, ast.Name) and f.id not in self.locals:
            cands = self.T.resolve(self.M, f.id)
            if f.id in ('eval', 'exec', '__import__', 'globals', 'vars'):
                return seq(args, NP)
        elif isinstance(f, ast.Attribute):
            root, attrs, _ = self.chain(f)
            if root in self.M.bct_mods and root not in self.locals:
                cands = list(self.T.by_name.get(f.attr, []))
        if nested is not None:
            return seq(args, NP if self.nested[nested] is None else self.inline(nested))
        if not cands:
            return seq(self.ex(f), args)
        outs = []
        for q in cands:
            if q == GET_RNG_HOME + '.get_rng':
                outs.append(NP)
                continue
            idx, pre, e, known = self.T.seed_index(q), [], 'ENone', True
            if any(isinstance(a, ast.Starred) for a in n.args) or any(k.arg is None for k in n.keywords):
                known = False
            for j, a in enumerate(n.args):
                if idx is not None and idx >= 0 and j == idx:
                    c, e = self.classify(a)
                    pre.append(c)
                else:
                    pre.append(self.ex(a))
            for k in n.keywords:
                if idx is not None and k.arg == 'seed':
                    c, e = self.classify(k.value)
                    pre.append(c)
                else:
                    pre.append(self.ex(k.value))
            if idx is None:
                e = 'ENone'
            elif not known:
                e = 'EOther'
            outs.append(seq(*pre, ('Call', q, e)))
        return choices(outs)

    def inline(self, name):
        if name in self.cache:
            return self.cache[name]
        if name in self.stack:
            self.rec_hit.add(name)
            return SKIP
        d = self.nested[name]
        self.stack.append(name)
        c = self.block(d.body)
        self.stack.pop()
        params = {x.arg for x in ast.walk(d.args) if isinstance(x, ast.arg)}
        if c != SKIP and params & (self.tracked | {'seed'} | set(self.nested)):
            c = NP                                          # shadowing with effects: not modelled
        elif c != SKIP and name in self.rec_hit:            # recursion: fine if only generator-free calls are repeated
            c = loop(c) if all(x[0] in ('Skip', 'Seq', 'Choice', 'Loop') or (x[0] == 'Call' and x[2] == 'ENone') for x in subcmds(c)) else NP
        if not self.stack:
            self.cache[name] = c
        return c

    # ---------------------------------------------------------------- statements
    def block(self, stmts):
        out = SKIP
        for s in reversed(stmts):
            c = self.st(s)
            out = seq(c, choice(out, SKIP)) if has_jump(s) else seq(c, out)   # a jump makes the rest optional
        return out

    def st(self, s):
        if isinstance(s, ast.Assign):
            v = s.value
            if len(s.targets) == 1 and isinstance(s.targets[0], ast.Name):
                y = s.targets[0].id
                if self.is_get_rng(v) and len(v.args) + len(v.keywords) <= 1 and not any(isinstance(a, ast.Starred) for a in v.args) and all(k.arg == 'seed' for k in v.keywords):
                    c, e = self.classify((v.args + [k.value for k in v.keywords] + [None])[0])
                    return seq(c, ('GetRng', y, e))
                if isinstance(v, ast.Name) and v.id in self.tracked:
                    return ('GetRng', y, ('EVar', v.id))
            return seq(self.ex(v), self.store(s.targets))
        if isinstance(s, ast.AugAssign):
            return seq(self.ex(s.value), self.ex(s.target) if not isinstance(s.target, ast.Name) else self.name(s.target), self.store(s.target))
        if isinstance(s, ast.AnnAssign):
            return seq(self.ex(s.value), self.store(s.target))
        if isinstance(s, (ast.Expr, ast.Return)):
            return self.ex(s.value)
        if isinstance(s, ast.Raise):
            return seq(self.ex(s.exc), self.ex(s.cause))
        if isinstance(s, ast.Assert):
            return seq(self.ex(s.test), self.ex(s.msg))
        if isinstance(s, ast.Delete):
            return self.store(s.targets)
        if isinstance(s, (ast.Pass, ast.Break, ast.Continue, ast.Import, ast.ImportFrom)):
            return SKIP
        if isinstance(s, (ast.Global, ast.Nonlocal)):
            return NP if set(s.names) & (self.tracked | {'seed'} | self.M.np_alias | self.M.np_random | self.M.py_random) else SKIP
        if isinstance(s, ast.If):
            return seq(self.ex(s.test), choice(self.block(s.body), self.block(s.orelse)))
        if isinstance(s, (ast.For, ast.AsyncFor)):
            return seq(self.ex(s.iter), loop(seq(self.store(s.target), self.block(s.body))), self.block(s.orelse))
        if isinstance(s, ast.While):
            return seq(loop(seq(self.ex(s.test), self.block(s.body))), self.ex(s.test), self.block(s.orelse))
        if isinstance(s, (ast.With, ast.AsyncWith)):
            return seq(*[seq(self.ex(i.context_expr), self.store(i.optional_vars)) for i in s.items], self.block(s.body))
        if isinstance(s, ast.Try) or (hasattr(ast, 'TryStar') and isinstance(s, ast.TryStar)):
            body = SKIP
            for x in reversed(s.body):                      # an exception may leave the body after any statement
                body = seq(self.st(x), choice(body, SKIP))
            hs = [seq(self.ex(h.type), self.block(h.body)) for h in s.handlers]
            return seq(body, choices(hs + [SKIP]), choice(self.block(s.orelse), SKIP), self.block(s.finalbody))
        if isinstance(s, (ast.FunctionDef, ast.AsyncFunctionDef)):
            return seq(self.ex(s.decorator_list), self.ex(s.args.defaults), self.ex([d for d in s.args.kw_defaults if d]))
        if isinstance(s, ast.ClassDef):
            return NP if self.block(s.body) != SKIP or any(self.block(m.body) != SKIP for m in s.body if isinstance(m, (ast.FunctionDef, ast.AsyncFunctionDef))) else SKIP
        sub = seq(*[self.ex(ch) if isinstance(ch, ast.expr) else self.st(ch) if isinstance(ch, ast.stmt) else SKIP for ch in ast.walk(s) if ch is not s])
        return NP if sub != SKIP else SKIP                  # unknown statement kind (match, ...): pessimistic


# -------------------------------------------------------------------- program assembly
def subcmds(c):
    yield c
    if c[0] in ('Seq', 'Choice'):
        yield from subcmds(c[1])
        yield from subcmds(c[2])
    elif c[0] == 'Loop':
        yield from subcmds(c[1])


def callees(c):
    return {x[1] for x in subcmds(c) if x[0] == 'Call'}


def has(c, tags):
    return any(x[0] in tags for x in subcmds(c))


def closure(bodies, roots):
    seen, todo = set(), list(roots)
    while todo:
        q = todo.pop()
        if q in seen or q not in bodies:
            continue
        seen.add(q)
        todo += list(callees(bodies[q]))
    return seen


def build(repo, exclude=()):
    """-> dict(program={q:(kind,cmd)}, excluded={...}, out_of_scope=[...], get_rng_ok, roots)"""
    T = Translator(repo)
    roots = sorted(q for q in T.bodies if T.kind(q) == 'Seeded')
    keep = closure(T.bodies, [r for r in roots if r not in exclude])
    allr = closure(T.bodies, roots)
    prog = {q: (T.kind(q), T.bodies[q]) for q in sorted(keep)}
    excl = {q: (T.kind(q), T.bodies[q]) for q in sorted(allr - keep)}
    oos = sorted(q for q in T.bodies if q not in allr and has(T.bodies[q], ('DrawNpGlobal', 'DrawPyGlobal', 'GetRng', 'DrawLocal')))
    return {'program': prog, 'excluded': excl, 'out_of_scope': oos, 'get_rng_ok': T.get_rng_ok, 'unmodelled': T.unmodelled,
            'get_rng_sha': getattr(T, 'get_rng_sha', None), 'roots': roots, 'n_functions_scanned': len(T.bodies)}


# -------------------------------------------------------------------- Coq emission
def coq_e(e):
    return e if isinstance(e, str) else '(EVar "%s")' % e[1]


def coq(c, ind=2):
    t, p = c[0], ' ' * ind
    if t in ('Skip', 'DrawNpGlobal', 'DrawPyGlobal'):
        return t
    if t == 'GetRng':
        return '(GetRng "%s" %s)' % (c[1], coq_e(c[2]))
    if t == 'DrawLocal':
        return '(DrawLocal "%s")' % c[1]
    if t == 'Call':
        return '(Call "%s" %s)' % (c[1], coq_e(c[2]))
    if t == 'Loop':
        return '(Loop %s)' % coq(c[1], ind + 2)
    return '(%s %s\n%s%s)' % (t, coq(c[1], ind + 2), p, coq(c[2], ind + 2))


def ident(q):
    return 'f_' + ''.join(ch if ch.isalnum() else '_' for ch in q)


def emit(res):
    L = ['(* GENERATED on every run by harness/translate_effects.py from the bct/ source tree. DO NOT EDIT.',
         '   One EffectLang body per function that has a `seed` parameter and per function reachable from one. *)',
         'From Coq Require Import List String.', 'From BCT Require Import Model.EffectLang.',
         'Import ListNotations.', 'Open Scope string_scope.', '']
    for title, d in (('program', res['program']), ('excluded', res['excluded'])):
        for q, (k, c) in d.items():
            L.append('Definition %s : cmd :=\n  %s.' % (ident(q), coq(c, 2)))
        L.append('')
        L.append('Definition %s : EffectLang.program :=\n  [ %s ].' % (title, ';\n    '.join('("%s", (%s, %s))' % (q, k, ident(q)) for q, (k, c) in d.items())) if d
                 else 'Definition %s : EffectLang.program := [].' % title)
        L.append('')
    L += ['(* get_rng is modelled by hand (EffectLang.get_rng); the translator compares the source with the version modelled *)',
          'Definition get_rng_as_modelled : bool := %s.' % ('true' if res['get_rng_ok'] else 'false'),
          'Example get_rng_ok : get_rng_as_modelled = true.', 'Proof. reflexivity. Qed.', '',
          '(* methods of classes and module-level lambdas cannot be resolved as callees: none of them may touch a generator *)',
          'Definition unmodelled_callables_with_effects : list string := [%s].' % '; '.join('"%s"' % q for q in res['unmodelled']),
          'Example no_unmodelled_effects : unmodelled_callables_with_effects = [].', 'Proof. reflexivity. Qed.', '',
          '(* `excluded` = seed-accepting functions declared outside the static model (harness/c05.py STATIC_OUT_OF_MODEL:',
          '   multiprocessing) or carrying a recorded known finding with `static_exclude`, and what only they reach.',
          '   Nothing in `program` may call them: the checker rejects calls to functions outside `program`. *)',
          'Example all_safe : prog_safe program = true.', 'Proof. vm_compute. reflexivity. Qed.', '']
    return '\n'.join(L)


# -------------------------------------------------------------------- diagnostics (Python port of [check]; NOT trusted:
# used only to say WHICH function the Coq checker rejects and why; cross-checked against the extracted checker)
def py_check(prog, c, a):
    u, B = a
    t = c[0]
    if t == 'Skip':
        return a
    if t == 'GetRng':
        if c[2] == 'ESeed':
            return 'raw seed consumed twice (get_rng(seed) after the seed was already used)' if u else (True, B | {c[1]})
        if isinstance(c[2], tuple):
            return (u, B | {c[1]}) if c[2][1] in B else 'get_rng(%s): %s does not hold the rng here' % (c[2][1], c[2][1])
        return '%s = get_rng(<%s>): not derived from the seed parameter' % (c[1], c[2])
    if t == 'DrawLocal':
        return a if c[1] in B else 'draw on %s which does not (on every path) hold the rng' % c[1]
    if t in ('DrawNpGlobal', 'DrawPyGlobal'):
        return 'uses %s (or an unrecognised use of the seed / an rng object)' % ('np.random' if t == 'DrawNpGlobal' else "Python's random")
    if t == 'Call':
        if c[1] not in prog:
            return 'calls %s which is outside the checked program' % c[1]
        if c[2] == 'ESeed':
            return 'raw seed passed to %s after it was already consumed (re-seeding)' % c[1] if u else (True, B)
        if isinstance(c[2], tuple):
            return a if c[2][1] in B else 'passes %s to %s but it does not hold the rng' % (c[2][1], c[1])
        if c[2] == 'ENone':
            return a if prog[c[1]][0] == 'Pure' else 'calls %s without forwarding the seed/rng' % c[1]
        return 'passes an unrecognised seed expression to %s' % c[1]
    if t == 'Seq':
        a1 = py_check(prog, c[1], a)
        return a1 if isinstance(a1, str) else py_check(prog, c[2], a1)
    if t == 'Choice':
        a1, a2 = py_check(prog, c[1], a), py_check(prog, c[2], a)
        return a1 if isinstance(a1, str) else a2 if isinstance(a2, str) else (a1[0] or a2[0], a1[1] & a2[1])
    if t == 'Loop':
        a1 = py_check(prog, c[1], a)
        return a1 if isinstance(a1, str) else a if a1[0] == u else 'raw seed consumed inside a loop (re-seeding on every iteration)'


def py_verdicts(prog):
    """{q: None if accepted else reason}"""
    out = {}
    for q, (k, c) in prog.items():
        r = py_check(prog, c, (k == 'Pure', frozenset()))
        out[q] = r if isinstance(r, str) else None
    return out


def may_draw(prog, q, seen=None):
    """static summary: can q (transitively) perform a DrawLocal?"""
    seen = set() if seen is None else seen
    if q in seen or q not in prog:
        return False
    seen.add(q)
    c = prog[q][1]
    return has(c, ('DrawLocal',)) or any(may_draw(prog, g, seen) for g in callees(c))


# -------------------------------------------------------------------- encoding for the extracted checker (ocaml/drv_c05.ml)
def enc_e(e):
    return {'ESeed': '0', 'ENone': '2', 'EOther': '3'}[e] if isinstance(e, str) else '1 ' + e[1]


def enc(c):
    t = c[0]
    if t in ('Skip', 'DrawNpGlobal', 'DrawPyGlobal'):
        return {'Skip': '0', 'DrawNpGlobal': '3', 'DrawPyGlobal': '4'}[t]
    if t == 'GetRng':
        return '1 %s %s' % (c[1], enc_e(c[2]))
    if t == 'DrawLocal':
        return '2 ' + c[1]
    if t == 'Call':
        return '5 %s %s' % (c[1], enc_e(c[2]))
    if t == 'Loop':
        return '8 ' + enc(c[1])
    return '%s %s %s' % ('6' if t == 'Seq' else '7', enc(c[1]), enc(c[2]))


def enc_program(prog):
    return 'check %d ' % len(prog) + ' '.join('%s %d %s' % (q, 0 if k == 'Seeded' else 1, enc(c)) for q, (k, c) in prog.items())


def generate(repo, verif, exclude=()):
    res = build(repo, exclude)
    txt = emit(res)
    path = os.path.join(verif, 'coq', 'theories', 'Gen', 'Effects.v')
    os.makedirs(os.path.dirname(path), exist_ok=True)
    if not os.path.exists(path) or open(path).read() != txt:
        open(path, 'w').write(txt)
    return res


if __name__ == '__main__':
    import sys
    r = build(sys.argv[1] if len(sys.argv) > 1 else '/repo')
    v = py_verdicts(r['program'])
    print(json.dumps({'functions': len(r['program']), 'roots': len(r['roots']), 'rejected': {k: x for k, x in v.items() if x},
                      'out_of_scope': r['out_of_scope'], 'get_rng_ok': r['get_rng_ok'], 'sha': r['get_rng_sha']}, indent=1))
