"""C15 — k-core / s-core outputs are the maximal subnetworks meeting the degree bound."""
import itertools
from fractions import Fraction as F
import numpy as np
from common import *

ID = 'C15'
COQ_FILES = ['Base/Mat.v', 'Base/SumQ.v', 'Base/ListX.v', 'Model/Core.v', 'Proofs/Core.v', 'Proofs/CoreFull.v',
             'Properties/C15.v']
THEOREMS = ['C15_peel_terminates', 'C15_core_is_feasible', 'C15_core_is_maximal', 'C15_core_matrix_is_restriction',
            'C15_kn_is_size', 'C15_k_nonpositive', 'C15_cores_nested', 'C15_peel_each_once', 'C15_core_spec_unfold',
            'C15_kcore_bu', 'C15_kcore_bd', 'C15_score_wu', 'C15_instances_degrees', 'C15_coreness_spec_unfold',
            'C15_coreness_is_max_k_bu', 'C15_coreness_bu_complete', 'C15_coreness_is_max_k_bd',
            'C15_coreness_bd_truncated_refuted',
            'C15_peel_flag', 'C15_kcoreness_default_path', 'C15_violators_unfold', 'C15_rounds_spec_unfold',
            'C15_peel_round_is_violators', 'C15_nested_spec_unfold', 'C15_kcore_bu_nested', 'C15_kcore_bd_nested',
            'C15_score_wu_nested', 'C15_peel_once_spec_unfold', 'C15_kcore_bu_peel', 'C15_kcore_bd_peel',
            'C15_score_wu_peel', 'C15_kcore_bu_as_called', 'C15_kcore_bd_as_called', 'C15_score_wu_as_called',
            'C15_coreness_full_unfold', 'C15_kcoreness_bu_full', 'C15_kcoreness_bu_symmetrises',
            'C15_kcoreness_bu_single_arc_refuted']
RULE = ('every labelled undirected graph on n<=4 nodes (n<=5 thorough) x every k in 0..n+1 (+ half-integers), every '
        'directed graph on n<=3 (n<=4 thorough) x every k in 0..2n; random graphs n<=9 from the families ER at several '
        'densities, paths, stars, cliques with pendant chains, nested shells, disjoint unions, isolated nodes; weighted '
        'undirected matrices with dyadic weights from a small set (many ties) x every s on a grid holding every strength '
        'attained in any sub-network met by an independent peeling, the midpoints between them, 0 and max+1, and '
        's = strength -/+ one ulp and -/+ 2^-30 (strictness of <); kcore_bu/kcore_bd/kcoreness on WEIGHTED matrices '
        '(entries from {1/4,1/2,2,3,5,-1,-3/2}: output values compared, not only the support), all symmetric 3x3 / all 2x2 '
        'matrices over {0,2,-1/2}; self-loops (nonzero diagonal) for the three core routines; every kcore_b? case is run '
        'with a TRUE peel flag (4-tuple) AND through the 2-tuple path (a FALSE flag passed explicitly / argument omitted, alternating); '
        'the flag is spelled in rotation True, 1, np.True_, np.bool_(1) and False, 0, np.False_ (per function; histogram '
        'kcore_b?:flag:*) - every spelling must give the same tuple, peel order and level list; '
        'float, int and bool dtype; n=0; slices with n in 10..30 (independent min-degree-removal coreness oracle); '
        'asymmetric input to kcoreness_centrality_bu with a reciprocal pair (oracle = the symmetrised graph); '
        'score_wu on DECIMAL weights (0.1, 0.3, 0.7, ...; non-dyadic) with s bit-equal to a binary64 strength met while peeling '
        '(np.sum of the current sub-matrix, axis 0) and its two float neighbours: direct binary64 oracle only (one-at-a-time '
        'peeling with exact float comparisons, subset enumeration for n<=6), the Q model is NOT involved in that family; '
        'non-trivial = at least one node is peeled or the core is non-empty with k>0; distinct by hash of (function, matrix, k)')
ASSUMES = ['decimal-weight family of score_wu: the oracle decides membership in binary64 exactly as the routine documents it '
           '(strengths = np.sum(current sub-matrix, axis=0), same shape/dtype/order; keep iff str >= s); weights >= 0 so float '
           'sums are monotone in the node set and the largest feasible set is unique; these cases are not sent to the Coq model',
           'weights are small dyadic rationals so every strength sum is exact in binary64 (s within one ulp of a strength is '
           'therefore compared exactly)',
           'directed input WITHOUT a reciprocal pair to kcoreness_centrality_bu (np.any(CIJund > 1) does not fire, in-degrees are '
           'used: C15_kcoreness_bu_single_arc_refuted) is outside the domain of the property (binary UNDIRECTED graphs): '
           'correspondence only, counted as kcoreness_centrality_bu:observation:asym-no-reciprocal',
           'k = 0 (and s <= 0): the code returns the input and counts the NON-ISOLATED nodes as kn; the oracle states exactly that',
           'peelorder lists the nodes zeroed explicitly; a node whose degree drops to 0 because all its neighbours were '
           'peeled is neither listed nor in the core (as in the MATLAB original) - the oracle checks listed/core/isolated partition the node set']
TRUSTED = []


# ---------------------------------------------------------------- independent oracles (exact, pure python)
def degin(kind, W, S, j):
    if kind == 'bu':
        return sum(1 for i in S if W[i][j] != 0)
    if kind == 'bd':
        return sum(1 for i in S if W[i][j] != 0) + sum(1 for i in S if W[j][i] != 0)
    return sum((W[i][j] for i in S), F(0))


def subset_core(kind, W, k):
    """union of all node sets in which every member has degree >= k inside the set (= the largest such set)"""
    n = len(W)
    U = set()
    for m in range(1, 2 ** n):
        S = [i for i in range(n) if m >> i & 1]
        if all(degin(kind, W, S, j) >= k for j in S):
            U |= set(S)
    return U


def seq_peel(kind, W, k):
    """independent peeling: remove ONE violating node at a time (lowest current degree first)"""
    n = len(W)
    S = set(range(n))
    seen = set()
    while True:
        d = {j: degin(kind, W, S, j) for j in S}
        seen |= set(d.values())
        bad = [j for j in S if d[j] < k]
        if not bad:
            return S, seen
        S.remove(min(bad, key=lambda j: (d[j], -j)))


def restrict(W, S):
    n = len(W)
    return [[W[i][j] if (i in S and j in S) else F(0) for j in range(n)] for i in range(n)]


def npm(W, dtype=float):
    n = len(W)
    return np.array([[float(x) for x in row] for row in W], dtype=dtype).reshape(n, n)


def sW(W):
    return [[str(x) for x in row] for row in W]


def bz_coreness(kind, W):
    """independent coreness (Batagelj-Zaversnik / Matula-Beck): repeatedly delete a node of minimum current degree;
    coreness = running maximum of the degree at deletion. Used for n > 9, cross-checked against subset enumeration."""
    n = len(W)
    S = set(range(n))
    cor = [0] * n
    cur = 0
    d = {j: degin(kind, W, S, j) for j in S}
    while S:
        v = min(S, key=lambda j: (d[j], j))
        cur = max(cur, d[v])
        cor[v] = cur
        S.remove(v)
        for u in S:
            if kind == 'bu':
                d[u] -= (1 if W[v][u] != 0 else 0)
            else:
                d[u] -= (1 if W[v][u] != 0 else 0) + (1 if W[u][v] != 0 else 0)
    return cor


# ---------------------------------------------------------------- generators
def und_from_mask(n, m):
    W = [[F(0)] * n for _ in range(n)]
    b = 0
    for i in range(n):
        for j in range(i + 1, n):
            if m >> b & 1:
                W[i][j] = W[j][i] = F(1)
            b += 1
    return W


def dir_from_mask(n, m):
    W = [[F(0)] * n for _ in range(n)]
    b = 0
    for i in range(n):
        for j in range(n):
            if i != j:
                if m >> b & 1:
                    W[i][j] = F(1)
                b += 1
    return W


def rand_und(r, n):
    fam = r.choice(['er', 'er', 'path', 'star', 'clique_tail', 'shells', 'union', 'isolated'])
    E = set()
    if fam == 'er':
        p = float(r.choice([0.15, 0.3, 0.5, 0.8, 1.0]))
        E = {(i, j) for i in range(n) for j in range(i + 1, n) if r.rand() < p}
    elif fam == 'path':
        E = {(i, i + 1) for i in range(n - 1)}
    elif fam == 'star':
        E = {(0, i) for i in range(1, n)}
    elif fam == 'clique_tail':
        c = max(2, n // 2)
        E = {(i, j) for i in range(c) for j in range(i + 1, c)} | {(i, i + 1) for i in range(c - 1, n - 1)}
    elif fam == 'shells':
        # node v attaches to min(v, d) earlier nodes: coreness grows with the index
        d = int(r.randint(1, 4))
        for v in range(1, n):
            for u in list(r.permutation(v))[:min(v, d)]:
                E.add((int(u), v))
    elif fam == 'union':
        h = n // 2
        E = {(i, j) for i in range(h) for j in range(i + 1, h) if r.rand() < 0.8}
        E |= {(i, j) for i in range(h, n) for j in range(i + 1, n) if r.rand() < 0.5}
    else:
        p = 0.6
        keep = [i for i in range(n) if r.rand() < 0.7]
        E = {(i, j) for i in keep for j in keep if i < j and r.rand() < p}
    perm = list(r.permutation(n))
    W = [[F(0)] * n for _ in range(n)]
    for (i, j) in E:
        a, b = int(perm[i]), int(perm[j])
        W[a][b] = W[b][a] = F(1)
    return W, fam


def rand_dir(r, n):
    p = float(r.choice([0.15, 0.3, 0.5, 0.8, 1.0]))
    W = [[F(1) if (i != j and r.rand() < p) else F(0) for j in range(n)] for i in range(n)]
    if r.rand() < 0.3:   # make a block of nodes isolated
        for v in range(n):
            if r.rand() < 0.3:
                for u in range(n):
                    W[u][v] = W[v][u] = F(0)
    return W


WVALS = [F(1, 2), F(1), F(3, 2), F(2), F(3), F(1, 4)]


def rand_wu(r, n):
    A, fam = rand_und(r, n)
    kv = int(r.randint(1, len(WVALS) + 1))
    W = [[F(0)] * n for _ in range(n)]
    for i in range(n):
        for j in range(i + 1, n):
            if A[i][j] != 0:
                W[i][j] = W[j][i] = WVALS[int(r.randint(0, kv))]
    return W, fam



WV2 = [F(1, 4), F(1, 2), F(2), F(3), F(5), F(-1), F(-3, 2)]      # non-0/1 entries for kcore_bu / kcore_bd / kcoreness


def reweight(r, A, sym, vals, pneg=True):
    """keep the support of A, replace every 1 by a value from vals (symmetric when sym)"""
    n = len(A)
    vs = [v for v in vals if pneg or v > 0]
    W = [[F(0)] * n for _ in range(n)]
    for i in range(n):
        for j in range(n):
            if A[i][j] != 0 and (not sym or i <= j):
                W[i][j] = vs[int(r.randint(0, len(vs)))]
                if sym:
                    W[j][i] = W[i][j]
    return W


def mats_over(n, vals, sym):
    """all n x n matrices with zero diagonal and off-diagonal entries from vals (symmetric when sym)"""
    cells = [(i, j) for i in range(n) for j in range(n) if (i < j if sym else i != j)]
    for combo in itertools.product(vals, repeat=len(cells)):
        W = [[F(0)] * n for _ in range(n)]
        for (i, j), v in zip(cells, combo):
            W[i][j] = v
            if sym:
                W[j][i] = v
        yield W


def integral(W):
    return all(x.denominator == 1 for row in W for x in row)


def binary(W):
    return all(x in (0, 1) for row in W for x in row)


def is_sym(W):
    n = len(W)
    return all(W[i][j] == W[j][i] for i in range(n) for j in range(n))


# ---------------------------------------------------------------- binary64 family for score_wu (no Q model)
DECW = [0.1, 0.2, 0.3, 0.7, 1.1, 0.05, 2.3, 0.15, 1.9, 0.45]     # non-dyadic weights: strength sums carry rounding noise


def fsub(Wf, mask):
    """the input with the rows and columns outside the node set zeroed (same shape, dtype and memory order as CIJ.copy())"""
    return np.ascontiguousarray(np.where(np.outer(mask, mask), Wf, 0.0))


def fstr(Wf, mask):
    """strengths inside the node set AS THE ROUTINE DOCUMENTS THEM: np.sum(., axis=0) of the current sub-matrix, binary64"""
    return np.sum(fsub(Wf, mask), axis=0)


def fpeel(Wf, s):
    """one-node-at-a-time peeling with exact float comparisons str < s; returns (mask of the core, every strength met).
    Weights are >= 0, float addition is monotone, so the largest feasible set is unique and the order does not matter."""
    n = len(Wf)
    mask = np.ones(n, dtype=bool)
    seen = set()
    while True:
        st = fstr(Wf, mask)
        seen |= {float(x) for x in st[mask] if x > 0}
        bad = [j for j in range(n) if mask[j] and 0 < st[j] < s]
        if not bad:
            return mask & (st > 0), seen
        mask[min(bad, key=lambda j: (st[j], -j))] = False


def fsubset_core(Wf, s):
    """union of all node sets whose members all have float strength >= s inside the set"""
    n = len(Wf)
    U = np.zeros(n, dtype=bool)
    for m in range(1, 2 ** n):
        mask = np.array([bool(m >> i & 1) for i in range(n)])
        st = fstr(Wf, mask)
        if np.all(st[mask] >= s):
            U |= mask
    return U


# ---------------------------------------------------------------- the check
# the peel flag in every spelling a caller may use for a documented bool: the singleton, a Python int, NumPy's bool scalar (a flag read
# from an array / np.any(...) / a loaded configuration; np.bool_(1) is the same object as np.True_, listed for the record)
FLAG_TRUE = [('True', True), ('1', 1), ('np.True_', np.True_), ('np.bool_(1)', np.bool_(1))]
FLAG_FALSE = [('False', False), ('0', 0), ('np.False_', np.False_)]
FN = {'bu': 'kcore_bu', 'bd': 'kcore_bd', 'wu': 'score_wu'}
WHICH = {'bu': 0, 'bd': 1, 'wu': 2}


def run(ctx):
    import bct
    impl = {'bu': bct.kcore_bu, 'bd': bct.kcore_bd, 'wu': bct.score_wu}
    lines, pend = [], []
    ocache = {}
    toggle = [0]
    flagc = {'kcore_bu': [0, 0], 'kcore_bd': [0, 0]}      # per function: how many calls with a true / a false flag so far (rotates the spelling)

    def oracle_core(kind, W, k, exhaustive):
        key = (kind, tuple(tuple(r) for r in W), k)
        if key not in ocache:
            ocache[key] = oracle_core0(kind, W, k, exhaustive)
        return ocache[key]

    def oracle_core0(kind, W, k, exhaustive):
        n = len(W)
        if k <= 0:
            return None
        if exhaustive or n <= 6:
            S = subset_core(kind, W, k)
            if n > 3:
                S2, _ = seq_peel(kind, W, k)
                S2 = {j for j in S2 if degin(kind, W, S2, j) > 0}
                if S2 != S:
                    raise RuntimeError('the two oracles disagree on %r k=%s' % (sW(W), k))
            return S
        S, _ = seq_peel(kind, W, k)
        return {j for j in S if degin(kind, W, S, j) > 0}

    def one_core(kind, W, k, exhaustive, fam, direct=True, mode='peel', dtype='float'):
        """one call of kcore_bu / kcore_bd / score_wu; returns the core node set reported by the implementation.
        mode: 'peel' = f(A, k, True) (4-tuple) | 'false' = f(A, k, peel=False) | 'default' = f(A, k) (2-tuple)"""
        fn = FN[kind]
        n = len(W)
        A = npm(W, {'float': float, 'int': int, 'bool': bool}[dtype])
        A0 = A.copy()
        peel = (kind != 'wu') and mode == 'peel'
        case = {'fn': fn, 'W': sW(W), 'k': str(k)}
        flag = None
        if kind != 'wu' and mode != 'default':
            c = flagc[fn]; tab = FLAG_TRUE if mode == 'peel' else FLAG_FALSE
            flag = tab[c[mode != 'peel'] % len(tab)]; c[mode != 'peel'] += 1
            ctx.count('%s:flag:%s' % (fn, flag[0]))
        if kind != 'wu':
            case['call'] = {'peel': 'f(W, k, %s)', 'false': 'f(W, k, peel=%s)', 'default': 'f(W, k)%s'}[mode] % (flag[0] if flag else '')
        if dtype != 'float':
            case['dtype'] = dtype
        kk = int(k) if (F(k).denominator == 1 and kind != 'wu') else float(k)
        if F(kk) != F(k):
            raise RuntimeError('k=%s is not a binary64 number' % (k,))
        try:
            if kind == 'wu' or mode == 'default':
                out = call(impl[kind], A, kk)
            elif mode == 'false':
                out = call(impl[kind], A, kk, peel=flag[1])
            else:
                out = call(impl[kind], A, kk, flag[1])
        except Timeout:
            ctx.fail(fn + ':terminates', 'no result within 5 s', case)
            ctx.case(case, nontrivial=True)
            return None
        except Exception as e:
            ctx.fail(fn + ':raises', 'raised %r' % (e,), case)
            ctx.case(case, nontrivial=True)
            return None
        tie_variants(case)          # input-representation layer: the model comparison of this case is batched and comes later
        if not ctx.check(isinstance(out, tuple) and len(out) == (4 if peel else 2), fn + ':return-shape',
                         'expected a %d-tuple' % (4 if peel else 2), case):
            ctx.case(case, nontrivial=True)
            return None
        C, kn = out[0], int(out[1])
        if not ctx.check(isinstance(C, np.ndarray) and C.shape == (n, n), fn + ':return-shape', 'matrix of the wrong shape', case):
            ctx.case(case, nontrivial=True)
            return None
        po = [[int(x) for x in a] for a in out[2]] if peel else []
        pl = [[float(x) for x in a] for a in out[3]] if peel else []
        ctx.count('%s:n=%d' % (fn, n) if n <= 9 else '%s:n=10..30' % fn); ctx.count('%s:family:%s' % (fn, fam))
        if kind != 'wu':
            ctx.count('%s:call:%s' % (fn, mode))
        if dtype != 'float':
            ctx.count('%s:dtype:%s' % (fn, dtype))
        Cl = [[F(float(C[i, j])) for j in range(n)] for i in range(n)]
        all_n = set(range(n))
        coreset = {j for j in range(n) if degin(kind, Cl, all_n, j) > 0}
        ctx.case(case, nontrivial=bool(po) or (k > 0 and len(coreset) > 0))
        if direct:
            ctx.check(np.array_equal(A, A0), fn + ':pure', 'the argument was modified', case)
            S = oracle_core(kind, W, k, exhaustive)
            if S is None:       # k <= 0: nothing can be peeled; kn counts the non-isolated nodes
                ctx.check(Cl == W, fn + ':k<=0', 'k<=0 must return the input unchanged', case)
                ctx.check(kn == sum(1 for j in range(n) if degin(kind, W, all_n, j) > 0), fn + ':k<=0',
                          'kn for k<=0 is not the number of non-isolated nodes', case)
            else:
                ctx.check(Cl == restrict(W, S), fn + ':core',
                          'output is not the input restricted to the largest node set with all inside-degrees >= k '
                          '(oracle core %s, implementation keeps %s; entries are compared by VALUE)' % (sorted(S), sorted(coreset)), case)
                ctx.check(kn == len(S), fn + ':size', 'kn=%d but the core has %d nodes' % (kn, len(S)), case)
                ctx.check(all(degin(kind, Cl, all_n, j) >= k for j in coreset), fn + ':feasible',
                          'a node keeps a positive degree below k inside the returned sub-network', case)
            if peel:
                flat = [x for a in po for x in a]
                ctx.check(len(flat) == len(set(flat)) and all(0 <= x < n for x in flat), fn + ':peel-once',
                          'a node is listed twice in peelorder', case)
                ctx.check(not (set(flat) & coreset), fn + ':peel-once', 'a core node is listed in peelorder', case)
                rest = all_n - set(flat) - coreset
                ctx.check(all(degin(kind, Cl, all_n, j) == 0 for j in rest) and
                          (S is None or all(degin(kind, W, all_n - set(flat), j) == 0 for j in rest)), fn + ':peel-once',
                          'a removed node with positive remaining degree is missing from peelorder', case)
                ctx.check(len(pl) == len(po) and all(len(a) == len(b) and len(a) > 0 for a, b in zip(po, pl)) and
                          all(all(x == r + 1 for x in b) for r, b in enumerate(pl)), fn + ':peel-level',
                          'peellevel is not (round number) x (size of the round)', case)
                # each round removes exactly the nodes with 0 < deg < k in the network left by the previous rounds
                alive = set(all_n)
                ok = True
                for a in po:
                    want = sorted(j for j in alive if 0 < degin(kind, W, alive, j) < k)
                    ok = ok and (a == want)
                    alive -= set(a)
                ok = ok and not [j for j in alive if 0 < degin(kind, W, alive, j) < k]
                ctx.check(ok, fn + ':peel-rounds', 'a peel round is not the set of nodes with 0<deg<k at that time', case)
        lines.append('core %d %s %s %d' % (WHICH[kind], enc_mat(W, enc_q), enc_q(F(k)), 1 if peel else 0))
        pend.append(('core', case, (Cl, kn, po, [[int(x) for x in b] for b in pl]), peel))
        return coreset

    def core_both(kind, W, k, exhaustive, fam, direct=True, dtype='float'):
        """kcore_b?: the 4-tuple call and one of the two 2-tuple calls (alternating); score_wu: its only form"""
        cs = one_core(kind, W, k, exhaustive, fam, direct, 'peel', dtype)
        if kind != 'wu':
            toggle[0] += 1
            cs2 = one_core(kind, W, k, exhaustive, fam, direct, 'default' if toggle[0] % 2 else 'false', dtype)
            if cs is not None and cs2 is not None:
                ctx.check(cs == cs2, FN[kind] + ':return-shape', 'the core differs between peel=True and peel=False',
                          {'fn': FN[kind], 'W': sW(W), 'k': str(k)})
        return cs

    def ks_for(kind, W):
        n = len(W)
        top = (n + 1) if kind == 'bu' else 2 * n
        ks = [F(k) for k in range(0, top + 1)]
        return ks

    def all_k(kind, W, exhaustive, fam, half=False, direct=True, dtype='float', ks=None):
        if ks is None:
            ks = ks_for(kind, W)
            if half:
                ks = sorted(set(ks + [k + F(1, 2) for k in ks[:-1]] + [F(-1)]))
        prev = None
        for k in ks:
            cs = core_both(kind, W, k, exhaustive, fam, direct, dtype)
            if cs is None:
                continue
            if prev is not None and direct:
                ctx.check(cs <= prev[1], FN[kind] + ':nested', 'core for k=%s is not inside the core for k=%s' % (k, prev[0]),
                          {'fn': FN[kind], 'W': sW(W), 'k': str(k), 'k_prev': str(prev[0])})
            prev = (k, cs)

    def coreness(kind, W, fam, direct=True, oracle_W=None, dtype='float'):
        """oracle_W: the graph the coreness is that of (kcoreness_centrality_bu on asymmetric input: the symmetrised graph)"""
        fn = 'kcoreness_centrality_' + kind
        f = bct.kcoreness_centrality_bu if kind == 'bu' else bct.kcoreness_centrality_bd
        n = len(W)
        A = npm(W, {'float': float, 'int': int, 'bool': bool}[dtype])
        A0 = A.copy()
        case = {'fn': fn, 'W': sW(W)}
        if dtype != 'float':
            case['dtype'] = dtype
        try:
            cor, kn = call(f, A, _t=20.0)
        except Exception as e:
            ctx.fail(fn + ':raises', 'raised %r' % (e,), case)
            return
        tie_variants(case)
        cor = [int(x) for x in cor]; kn = [int(x) for x in kn]
        ctx.case(case, nontrivial=any(cor))
        ctx.count('%s:n=%d' % (fn, n) if n <= 9 else '%s:n=10..30' % fn); ctx.count('%s:family:%s' % (fn, fam))
        if direct:
            G = W if oracle_W is None else oracle_W
            all_n = set(range(n))
            ctx.check(np.array_equal(A, A0), fn + ':pure', 'the argument was modified', case)
            if n <= 9:
                top = 2 * n + 1
                cores = {k: (subset_core(kind, G, k) if n <= 6 else oracle_core(kind, G, k, False)) for k in range(1, top + 1)}
                true = [max([k for k in cores if v in cores[k]] or [0]) for v in range(n)]
                if n <= 6 and true != bz_coreness(kind, G):
                    raise RuntimeError('the coreness oracles disagree on %r' % (sW(G),))
            else:
                true = bz_coreness(kind, G)
            trunc = [min(c, n - 1) for c in true]
            if cor != true:
                if kind == 'bd' and cor == trunc:
                    ctx.fail(fn + ':k-range', 'coreness truncated at N-1: true %s, reported %s' % (true, cor), case)
                else:
                    ctx.fail(fn + ':coreness', 'coreness is not the largest k whose core contains the node: true %s, reported %s' % (true, cor), case)
            want_kn = [sum(1 for j in range(n) if degin(kind, G, all_n, j) > 0)] + [sum(1 for c in true if c >= k) for k in range(1, n)]
            ctx.check(kn == want_kn[:n], fn + ':sizes', 'kn is not the list of core sizes: want %s got %s' % (want_kn[:n], kn), case)
        lines.append('coreness %d %s' % (0 if kind == 'bu' else 1, enc_mat(W, enc_q)))
        pend.append(('coreness', case, (cor, kn), None))

    def symmetrised(W):
        n = len(W)
        return [[F(1) if W[i][j] + W[j][i] > 0 else F(0) for j in range(n)] for i in range(n)]

    def pick_dtype(r, W):
        x = r.rand()
        if x < 0.25 and integral(W):
            return 'int'
        if x < 0.4 and binary(W):
            return 'bool'
        return 'float'

    # ---- corpus: witnesses kept from the design phase
    K3 = [[F(int(i != j)) for j in range(3)] for i in range(3)]
    coreness('bd', K3, 'corpus')
    P3 = und_from_mask(3, 0b101)      # path 0-1, 1-2 : the middle node becomes isolated for k=2
    all_k('bu', P3, True, 'corpus')
    # n = 0
    for kind in ('bu', 'bd', 'wu'):
        all_k(kind, [], True, 'corpus-n0', ks=[F(0), F(1), F(3, 2)])
    coreness('bu', [], 'corpus-n0'); coreness('bd', [], 'corpus-n0')
    # the single arc (C15_kcoreness_bu_single_arc_refuted) and the reciprocal pair, kcoreness_centrality_bu
    coreness('bu', [[F(0), F(1)], [F(0), F(0)]], 'corpus-asym', direct=False)
    ctx.count('kcoreness_centrality_bu:observation:asym-no-reciprocal')
    coreness('bu', [[F(0), F(1)], [F(1), F(0)]], 'corpus')
    # a weighted triangle with a pendant path (C15_as_called_nonvacuous): values kept, not binarised
    TW = [[F(x) for x in row] for row in ([0, 3, 1, 0, 0], [3, 0, 1, 0, 0], [1, 1, 0, F(1, 2), 0], [0, 0, F(1, 2), 0, 1], [0, 0, 0, 1, 0])]
    all_k('bu', TW, True, 'corpus-weighted'); all_k('bd', TW, True, 'corpus-weighted')
    coreness('bu', TW, 'corpus-weighted'); coreness('bd', TW, 'corpus-weighted')

    # ---- exhaustive tiers
    nu = ctx.scale(4, 5)
    for n in range(1, nu + 1):
        for m in range(2 ** (n * (n - 1) // 2)):
            W = und_from_mask(n, m)
            all_k('bu', W, True, 'exhaustive', half=(n <= 3), dtype=('float', 'int', 'bool')[m % 3] if n == 4 else 'float')
            coreness('bu', W, 'exhaustive', dtype=('float', 'int', 'bool')[(m + 1) % 3])
            if n <= 4:
                all_k('bd', W, True, 'exhaustive-sym')
    nd = ctx.scale(3, 4)
    for n in range(1, nd + 1):
        tot = 2 ** (n * (n - 1))
        for m in range(tot):
            W = dir_from_mask(n, m)
            all_k('bd', W, True, 'exhaustive', half=(n <= 2), dtype=('float', 'int', 'bool')[m % 3] if n == 3 else 'float')
            coreness('bd', W, 'exhaustive')
    # weighted input to the binary routines: every symmetric matrix n<=3 / every matrix n<=2 (n<=3 thorough) over {0, 2, -1/2}
    EV = [F(0), F(2), F(-1, 2)]
    for n in (2, 3):
        for W in mats_over(n, EV, True):
            all_k('bu', W, True, 'exhaustive-weighted', half=(n == 2))
            all_k('bd', W, True, 'exhaustive-weighted')
            nn = all(x >= 0 for row in W for x in row)
            coreness('bu', W, 'exhaustive-weighted', direct=nn)
    for n in ((2, 3) if ctx.thorough else (2,)):
        for W in mats_over(n, EV, False):
            all_k('bd', W, True, 'exhaustive-weighted')
            coreness('bd', W, 'exhaustive-weighted', direct=all(x >= 0 for row in W for x in row))
    # a slice of the next size in quick
    if not ctx.thorough:
        for m in ctx.rng.sample(range(1024), 60):
            W = und_from_mask(5, m)
            all_k('bu', W, True, 'exhaustive-slice')
        for m in ctx.rng.sample(range(4096), 60):
            W = dir_from_mask(4, m)
            all_k('bd', W, True, 'exhaustive-slice')
            coreness('bd', W, 'exhaustive-slice')
        allw = list(mats_over(3, EV, False))
        for W in ctx.rng.sample(allw, 40):
            all_k('bd', W, True, 'exhaustive-weighted-slice')

    # ---- random tier
    r = ctx.nprng
    for t in range(ctx.scale(60, 600)):
        n = int(r.randint(5, 10))
        W, fam = rand_und(r, n)
        all_k('bu', W, False, fam, dtype=pick_dtype(r, W))
        coreness('bu', W, fam, dtype=pick_dtype(r, W))
        n = int(r.randint(4, 10))
        W = rand_dir(r, n)
        all_k('bd', W, False, 'er-dir', dtype=pick_dtype(r, W))
        coreness('bd', W, 'er-dir', dtype=pick_dtype(r, W) if r.rand() < 0.5 else 'float')
    # weighted (non-0/1, fractional, negative) matrices into kcore_bu / kcore_bd / kcoreness_*: values must come back
    for t in range(ctx.scale(40, 400)):
        n = int(r.randint(2, 10))
        A, fam = rand_und(r, n)
        pneg = bool(t % 2)
        W = reweight(r, A, True, WV2, pneg)
        if t % 4 == 3:            # self-loops
            for i in range(n):
                if r.rand() < 0.4:
                    W[i][i] = WV2[int(r.randint(0, len(WV2)))] if pneg else F(2)
        ks = ks_for('bu', W)
        ks = sorted(set(ks + [F(3, 2), F(5, 2)])) if n <= 6 else ks
        all_k('bu', W, False, 'weighted:' + fam, ks=ks, dtype='int' if (integral(W) and r.rand() < 0.3) else 'float')
        diag0 = all(W[i][i] == 0 for i in range(n))
        coreness('bu', W, 'weighted:' + fam, direct=(not pneg) and diag0)
        n = int(r.randint(2, 9))
        W = reweight(r, rand_dir(r, n), False, WV2, pneg)
        if t % 4 == 2:
            for i in range(n):
                if r.rand() < 0.4:
                    W[i][i] = F(3)
        all_k('bd', W, False, 'weighted:er-dir', dtype='int' if (integral(W) and r.rand() < 0.3) else 'float')
        coreness('bd', W, 'weighted:er-dir', direct=(not pneg) and all(W[i][i] == 0 for i in range(n)))
    # weighted: s on a grid containing every attained strength
    for t in range(ctx.scale(120, 1200)):
        n = int(r.randint(2, 10)) if t % 3 else int(r.randint(2, 6))
        W, fam = rand_wu(r, n)
        dtype = 'float'
        if t % 5 == 4:            # nonzero diagonal: strengths_und counts W[j,j] once
            fam = 'selfloops:' + fam
            for i in range(n):
                if r.rand() < 0.5:
                    W[i][i] = WVALS[int(r.randint(0, len(WVALS)))]
        elif t % 5 == 3:          # integer weights, int dtype
            W = [[F(int(x * 4)) for x in row] for row in W]
            dtype = 'int'
        _, seen = seq_peel('wu', W, F(10 ** 6))          # peels everything: every strength of every sub-network met
        vals = sorted({F(0)} | {v for v in seen if v > 0})
        grid = set(vals) | {(a + b) / 2 for a, b in zip(vals, vals[1:])} | {vals[-1] + 1, F(-1)}
        grid = sorted(grid)
        if len(grid) > 14:
            grid = sorted(set(ctx.rng.sample(grid, 10)) | {vals[-1], vals[-1] + 1})
        # strictness of `str < s`: s one ulp / 2^-30 below and above an attained strength (all exact in binary64)
        for v in ctx.rng.sample(vals[1:], min(2, len(vals) - 1)):
            fv = float(v)
            grid += [F(float(np.nextafter(fv, np.inf))), F(float(np.nextafter(fv, -np.inf))), v + F(1, 2 ** 30), v - F(1, 2 ** 30)]
        grid = sorted(set(grid))
        prev = None
        for s in grid:
            cs = one_core('wu', W, s, False, fam, dtype=dtype)
            if cs is not None and prev is not None:
                ctx.check(cs <= prev[1], 'score_wu:nested', 'core for s=%s is not inside the core for s=%s' % (s, prev[0]),
                          {'fn': 'score_wu', 'W': sW(W), 's': str(s), 's_prev': str(prev[0])})
            if cs is not None:
                prev = (s, cs)
    # ---- larger graphs, n in 10..30 (a few; k on a sub-grid)
    for t in range(ctx.scale(5, 40)):
        n = int(r.randint(10, 31))
        W, fam = rand_und(r, n)
        if t % 3 == 0:            # dense: cores beyond k = 10
            n = int(r.randint(12, 25))
            p = float(r.choice([0.7, 0.9, 1.0]))
            W = [[F(0)] * n for _ in range(n)]
            for i in range(n):
                for j in range(i + 1, n):
                    if r.rand() < p:
                        W[i][j] = W[j][i] = F(1)
            fam = 'dense'
        cb = bz_coreness('bu', W)
        ks = sorted({F(0), F(1), F(2), F(max(cb)), F(max(cb) + 1), F(int(r.randint(1, max(2, max(cb) + 1)))), F(max(cb)) - F(1, 2)})
        all_k('bu', W, False, 'large:' + fam, ks=ks)
        coreness('bu', W, 'large:' + fam)
        n = int(r.randint(10, 21))
        W = rand_dir(r, n)
        if t % 3 == 0:
            W = [[F(1) if (i != j and r.rand() < 0.45) else F(0) for j in range(n)] for i in range(n)]
        cd = bz_coreness('bd', W)
        ks = sorted({F(1), F(max(cd)), F(max(cd) + 1), F(int(r.randint(1, max(2, max(cd) + 1))))})
        all_k('bd', W, False, 'large:er-dir', ks=ks)
        coreness('bd', W, 'large:er-dir')
        n = int(r.randint(10, 31))
        W, fam = rand_wu(r, n)
        st = sorted({degin('wu', W, set(range(n)), j) for j in range(n)})
        for s in sorted({st[0], st[len(st) // 2], st[len(st) // 2] + F(1, 2 ** 30), st[-1], st[-1] + 1}):
            one_core('wu', W, s, False, 'large:' + fam)
    # ---- asymmetric input to kcoreness_centrality_bu (the reason for its CIJund test)
    for t in range(ctx.scale(40, 300)):
        n = int(r.randint(2, 9))
        W = rand_dir(r, n)
        if any(W[i][j] != 0 and W[j][i] != 0 for i in range(n) for j in range(i)):
            coreness('bu', W, 'asym-reciprocal', oracle_W=symmetrised(W))      # C15_kcoreness_bu_symmetrises
        else:
            coreness('bu', W, 'asym-no-reciprocal', direct=is_sym(W))
            if not is_sym(W):
                ctx.count('kcoreness_centrality_bu:observation:asym-no-reciprocal')
    # outside the property's domain (correspondence only): self-loops in kcoreness_*, asymmetric input to kcore_bu
    for t in range(ctx.scale(40, 300)):
        n = int(r.randint(2, 7))
        W = rand_dir(r, n)
        if t % 2:
            for i in range(n):
                W[i][i] = F(int(r.rand() < 0.4))
        for k in range(0, n + 1):
            core_both('bu', W, F(k), False, 'malformed', direct=False)
            core_both('bd', W, F(k), False, 'malformed', direct=all(W[i][i] == 0 for i in range(n)))
        coreness('bu', W, 'malformed', direct=False)
        coreness('bd', W, 'malformed', direct=False)

    # ---- score_wu on DECIMAL (non-dyadic) weights, decided in binary64: direct oracle only, the Q model is not involved.
    # s is bit-equal to a float strength met while peeling (np.sum(sub, axis=0)), or one of its two float neighbours.
    for t in range(ctx.scale(70, 700)):
        n = int(r.randint(3, 10)) if t % 3 else int(r.randint(3, 7))
        A, fam = rand_und(r, n)
        kv = int(r.randint(2, len(DECW) + 1))
        Wf = np.zeros((n, n))
        for i in range(n):
            for j in range(i + 1, n):
                if A[i][j] != 0:
                    Wf[i, j] = Wf[j, i] = DECW[int(r.randint(0, kv))]
        _, seen = fpeel(Wf, float('inf'))
        vals = sorted(seen)
        if not vals:
            continue
        pick = vals if len(vals) <= 8 else sorted(ctx.rng.sample(vals, 8))
        grid = sorted({x for v in pick for x in (v, float(np.nextafter(v, np.inf)), float(np.nextafter(v, -np.inf)))})
        prev = None
        for s in grid:
            case = {'fn': 'score_wu', 'arith': 'binary64', 'W_float': [[repr(float(x)) for x in row] for row in Wf],
                    's_float': repr(s), 's_hex': float(s).hex()}
            A1 = Wf.copy()
            try:
                C, sn = call(bct.score_wu, A1, s)
            except Timeout:
                ctx.fail('score_wu:terminates', 'no result within 5 s', case); ctx.case(case, True); continue
            except Exception as e:
                ctx.fail('score_wu:raises', 'raised %r' % (e,), case); ctx.case(case, True); continue
            core, _ = fpeel(Wf, s)
            if n <= 6:
                U = fsubset_core(Wf, s)
                U = U & (fstr(Wf, U) > 0)
                if not np.array_equal(U, core):
                    raise RuntimeError('the two binary64 oracles disagree on %r s=%r' % (Wf.tolist(), s))
            ctx.count('score_wu:family:decimal-binary64'); ctx.count('score_wu:n=%d' % n)
            ctx.case(case, nontrivial=bool(core.any()) or bool(np.any(Wf)))
            kept = np.where(np.sum(np.asarray(C), axis=0) > 0)[0].tolist()
            ctx.check(np.array_equal(A1, Wf), 'score_wu:pure', 'the argument was modified', case)
            ctx.check(np.array_equal(C, fsub(Wf, core)), 'score_wu:core-binary64',
                      'output is not the input restricted to the largest node set whose float strengths (np.sum of the '
                      'sub-matrix, axis 0) are all >= s: oracle core %s, implementation keeps %s; strengths of the whole graph %s'
                      % (np.where(core)[0].tolist(), kept, [repr(float(x)) for x in np.sum(Wf, axis=0)]), case)
            ctx.check(int(sn) == int(core.sum()), 'score_wu:size-binary64', 'sn=%d but the core has %d nodes' % (int(sn), int(core.sum())), case)
            if prev is not None:
                ctx.check(set(kept) <= prev[1], 'score_wu:nested', 'core for s=%r is not inside the core for s=%r' % (s, prev[0]), case)
            prev = (s, set(kept))

    # ---------------- correspondence: extracted Coq model on the same inputs
    res = run_model(ID, lines)
    ctx.model_cases = len(lines)
    for (kind, case, got, peel), m in zip(pend, res):
        if is_err(m):
            ctx.mismatch('model-error', m['error'], case); continue
        if m is None:
            ctx.mismatch(case['fn'] + ':fuel', 'model ran out of fuel n+1', case); continue
        if kind == 'core':
            Cl, kn, po, pl = got
            M = dec_deep(m[0], dec_q)
            if M != Cl:
                ctx.mismatch(case['fn'] + ':matrix', 'core matrices differ', case, sW(M), sW(Cl))
            if m[1] != kn:
                ctx.mismatch(case['fn'] + ':kn', 'core sizes differ', case, m[1], kn)
            if peel and (m[2] is None or m[2][0] != po or m[2][1] != pl):
                ctx.mismatch(case['fn'] + ':peel', 'peelorder/peellevel differ', case, m[2], [po, pl])
            if not peel and m[2] is not None:
                ctx.mismatch(case['fn'] + ':peel', 'the model returns peelorder without the flag', case, m[2], None)
        else:
            cor, kn = got
            if m[0] != cor or m[1] != kn:
                ctx.mismatch(case['fn'], 'coreness / kn differ', case, m, [cor, kn])
