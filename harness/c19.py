"""C19 — NBS reports true suprathreshold components and correct permutation p-values."""
import io, contextlib, math
import numpy as np
from common import *

ID = 'C19'
COQ_FILES = ['Base/Mat.v', 'Base/ListX.v', 'Model/Components.v', 'Proofs/Components.v', 'Model/Nbs.v', 'Model/NbsApi.v',
             'Proofs/Nbs.v', 'Proofs/NbsReal.v', 'Proofs/NbsFull.v', 'Properties/C19.v']
THEOREMS = ['C19_adj_support_iff_supra_and_component', 'C19_adj_label_is_component_index', 'C19_every_label_used', 'C19_links_are_component_sizes', 'C19_links_are_connection_counts',
            'C19_pval_def', 'C19_null_is_max_component', 'C19_swap_decision', 'C19_swap_groups_tail_symmetry',
            'C19_reorder_within_group_invariant', 'C19_reorder_pairs_invariant', 'C19_ratio_gt_sound',
            'C19_t_gt_thresh_unpaired', 'C19_t_gt_thresh_paired',
            'C19_pval_is_fraction_of_null_ge_links', 'C19_null_is_relabelled_max', 'C19_relabel_unpaired_is_permutation',
            'C19_relabel_paired_exchanges_pairs', 'C19_raises_iff', 'C19_returns_iff', 'C19_call_returns_iff', 'C19_exception_raised',
            'C19_degenerate_unreachable', 'C19_swap_groups_tail_total', 'C19_reorder_within_group_total',
            'C19_reorder_pairs_total']
RULE = ('stacks of symmetric matrices: n=3..7 nodes, 2..7 subjects per group (equal when paired), integer entries 0..5 plus '
        'planted effects of either sign on 1..4 connections (family multi: strong effects on 2-3 node-disjoint paths under a random numbering, giving several components), planted zero-variance connections (equal constants, unequal '
        'constants, constant in one group only); thresholds k+0.37, occasionally negative; '
        'tail both/left/right - in two thirds of the cases (paired AND unpaired, main call, swapped-groups call, reordered call, nbs_parallel) handed over as a string that is EQUAL to the literal but another object (\'\'.join, json.loads, str.strip, encode/decode, numpy.str_ element of an array, str() of it; recorded per case as tail_object), judged by the same oracle; paired/unpaired; k=8..24 recorded permutations (RandomState subclass passed as seed); a '
        'single-connection family (n=2, groups of 1..5 subjects, many degenerate vectors) that exercises the t decision '
        'alone; exact_tie: the threshold EQUALS the t statistic of a planted connection whose binary64 evaluation is exact by '
        'construction (unpaired 2+2 subjects with pooled variance a perfect square, unpaired 8+8 with SS 14/56/126, paired 4 with '
        'differences d+c*[3,-1,-1,-1], zero-variance connections and equal-mean connections with thresh = 0), next to a '
        'strongly suprathreshold connection, so that `>` and `>=` differ on the observed and on the relabelled data; tiny_var: '
        'dyadic data a + eps*z (sum z = 0, eps = 2^-22..2^-26) whose pooled denominator lies in (0, 1e-6), paired eps = 2^-8..2^-16; '
        'dyadic: entries multiples of 1/8 in [-4,4] with dyadic thresholds (0, 0.5, 1, 2, k+0.375); int_dtype: int64 arrays; '
        'verbose=True on every 7th case; reject: paired with unequal groups, tail strings outside both/left/right, inconsistent '
        'shapes, k=0 (exception class and message compared with the model\'s exception code); nbs_parallel.nbs_bct on a slice of the cases. '
        'non-trivial = at least one suprathreshold connection (the call returns); distinct by hash of all arguments')
ASSUMES = ['data are integers or dyadic rationals with few bits: group sums, differences, squares and the tests `denom == 0` / zero '
           'sample variance are exact in binary64. The oracle decides `t > thresh` in exact rational arithmetic. A connection with '
           'exact t == thresh is used only when an exactness certificate holds (every intermediate of the code\'s formula - means, '
           'deviations, squares, sums, variance quotients, square roots, the final quotient - is representable in binary64, so '
           'correctly rounded IEEE arithmetic returns it exactly; or both means are equal, giving 0/denom = 0); otherwise, and when '
           '0 < |t - thresh| < 1e-7, and for a paired connection whose sample_ss could cancel (ss < 1e-6 * sum(D^2) without certificate), '
           'the case is skipped and counted (skipped_*)',
           'conventions of the code on degenerate connections are taken as the specification: unpaired with zero pooled variance '
           '-> t = 0; paired with constant difference c -> t = sign(c)*inf (c = 0: nan, never suprathreshold); a group with a '
           'single subject -> nan, never suprathreshold',
           'a relabelling of subjects is read off the recorded draw: rng.permutation(nx+ny) (first nx indices form group 1) or, '
           'paired, sign(0.5 - rng.rand(1,nx)) (pairs with -1 are exchanged)',
           'nbs_parallel.nbs_bct (outside the property\'s anchors, same statistic code duplicated) is tied by harness only: same adj as '
           'bct.nbs_bct, null values and p-values = model / oracle on the draws RandomState(perm_seed[u]) produces']
TRUSTED = ['C19_t_gt_thresh_unpaired / C19_t_gt_thresh_paired (the square-root-free decision equals `thresh < t` with a real '
           'square root) depend on the standard-library axioms of Coq\'s real numbers (ClassicalDedekindReals.sig_not_dec, '
           'sig_forall_dec, FunctionalExtensionality.functional_extensionality_dep); every other C19 theorem is closed under '
           'the global context']

TAILS = ['both', 'left', 'right']
SWAP = {'both': 'both', 'left': 'right', 'right': 'left'}
# exception -> code of Model/NbsApi.v (exn_code)
EXN = {'Tail must be both, left, right': 1, 'Population matrices are of inconsistent size': 2,
       'Population matrices must be an equal size': 3, 'Unsuitable threshold': 4, 'True matrix is degenerate': 5}
EXN_NAME = {1: 'tail', 2: 'shape', 3: 'paired_size', 4: 'unsuitable', 5: 'degenerate', 6: 'draw', 7: 'zero_division'}


def quiet(f, *a, **k):
    with contextlib.redirect_stdout(io.StringIO()):
        return call(f, *a, _t=60.0, **k)


# ---------------------------------------------------------------- independent oracle (exact rationals)
def t_exact(a, b, paired):
    """(kind, num, den2): t = num/sqrt(den2) exactly; kind in 'ok','zero','pinf','ninf','nan' (conventions in ASSUMES)"""
    if paired:
        d = [p - q for p, q in zip(a, b)]
        n = len(d)
        if n < 2:
            return ('nan', None, None)
        mean = sum(d) / n
        var = sum((v - mean) ** 2 for v in d) / (n - 1)
        if var == 0:
            return ('pinf' if mean > 0 else 'ninf' if mean < 0 else 'nan', None, None)
        return ('ok', mean, var / n)
    n1, n2 = len(a), len(b)
    if n1 < 2 or n2 < 2:
        return ('nan', None, None)
    m1, m2 = sum(a) / n1, sum(b) / n2
    v1 = sum((v - m1) ** 2 for v in a) / (n1 - 1)
    v2 = sum((v - m2) ** 2 for v in b) / (n2 - 1)
    sp = ((n1 - 1) * v1 + (n2 - 1) * v2) / (n1 + n2 - 2)
    den2 = sp * (Fraction(1, n1) + Fraction(1, n2))
    if den2 == 0:
        return ('zero', None, None)
    return ('ok', m1 - m2, den2)


def sgn(v):
    return (v > 0) - (v < 0)


def cmp_t(v, den2, thr):
    """sign of v/sqrt(den2) - thr, exactly"""
    sv, st = sgn(v), sgn(thr)
    if sv != st:
        return 1 if sv > st else -1
    if sv == 0:
        return 0
    c = sgn(v * v - thr * thr * den2)
    return c if sv > 0 else -c


# ---- exactness certificate of the code's binary64 evaluation
def rep(f):
    return Fraction(float(f)) == f


def sum_exact(terms):
    """every partial sum, in any order, is representable"""
    terms = list(terms)
    if not terms:
        return True
    if any(t.denominator & (t.denominator - 1) for t in terms):
        return False
    kk = max(t.denominator.bit_length() - 1 for t in terms)
    return all(rep(t) for t in terms) and sum(abs(t) for t in terms) * (1 << kk) < (1 << 53)


def isq(n):
    r = math.isqrt(n)
    return r if r * r == n else None


def sqrt_exact(f):
    if f < 0:
        return None
    a, b = isq(f.numerator), isq(f.denominator)
    if a is None or b is None:
        return None
    r = Fraction(a, b)
    return r if rep(r) else None


def paired_ss_exact(D):
    """sample_ss = np.sum(D**2) - np.sum(D)**2 / n is computed exactly"""
    n = len(D)
    if not (sum_exact(D) and all(rep(v * v) for v in D) and sum_exact([v * v for v in D])):
        return False
    s1 = sum(D)
    s2 = sum(v * v for v in D)
    return rep(s1 * s1) and rep(s1 * s1 / n) and rep(s2 - s1 * s1 / n)


def float_exact_t(a, b, paired):
    """the value (before the tail is applied) binary64 returns for the code's formula when no operation rounds; None = no certificate"""
    if paired:
        D = [p - q for p, q in zip(a, b)]
        n = len(D)
        if not (all(rep(p) and rep(q) for p, q in zip(a, b)) and paired_ss_exact(D)):
            return None
        s1 = sum(D)
        ss = sum(v * v for v in D) - s1 * s1 / n
        mean = s1 / n
        if not rep(mean):
            return None
        if mean == 0 and ss > 0:
            return Fraction(0)                      # 0/std*sqrt(n) = 0
        V = ss / (n - 1)
        if not rep(V):
            return None
        std = sqrt_exact(V)
        rn = sqrt_exact(Fraction(n))
        if std is None or std == 0 or rn is None:
            return None
        z = mean / std
        return z * rn if rep(z) and rep(z * rn) else None
    n1, n2 = len(a), len(b)
    if not (sum_exact(a) and sum_exact(b)):
        return None
    m1, m2 = sum(a) / n1, sum(b) / n2
    if m1 == m2:
        return Fraction(0)                          # both means round to the same float: 0/denom = 0 (denom > 0)
    tot = Fraction(0)
    for g, m, n in ((a, m1, n1), (b, m2, n2)):
        if not rep(m):
            return None
        dev = [v - m for v in g]
        if not (all(rep(v) and rep(v * v) for v in dev) and sum_exact([v * v for v in dev])):
            return None
        SS = sum(v * v for v in dev)
        if not rep(SS / (n - 1)):
            return None
        tot += SS
    P = tot / (n1 + n2 - 2)
    if not (rep(tot) and rep(P)):
        return None
    s = sqrt_exact(P)
    r1, r2 = Fraction(1, n1), Fraction(1, n2)
    if s is None or not (rep(r1) and rep(r2) and rep(r1 + r2)):
        return None
    q = sqrt_exact(r1 + r2)
    if q is None or not rep(s * q) or s * q == 0:
        return None
    res = (m1 - m2) / (s * q)
    return res if rep(m1 - m2) and rep(res) else None


class NearTie(Exception):
    pass


STAT = {}


def decide(a, b, paired, tail, thr):
    """exact decision `t > thr` for one connection (lists of Fractions); NearTie(reason) when binary64 cannot be trusted to agree"""
    kind, num, den2 = t_exact(a, b, paired)
    if kind == 'nan':
        return False
    if kind == 'zero':
        return 0 > thr
    if kind in ('pinf', 'ninf'):
        if not paired_ss_exact([p - q for p, q in zip(a, b)]):
            raise NearTie('degenerate_uncertified')
        t = float('inf') if kind == 'pinf' else float('-inf')
        t = abs(t) if tail == 'both' else -t if tail == 'left' else t
        return t > thr
    if paired:
        D = [p - q for p, q in zip(a, b)]
        ss = den2 * len(D) * (len(D) - 1)
        if ss < Fraction(1, 10 ** 6) * sum(v * v for v in D) and not paired_ss_exact(D):
            raise NearTie('paired_cancellation')          # sample_ss = sum(D^2) - sum(D)^2/n may lose all its digits
    v = abs(num) if tail == 'both' else -num if tail == 'left' else num
    c = cmp_t(v, den2, thr)
    if c == 0:
        ft = float_exact_t(a, b, paired)
        if ft is None:
            raise NearTie('tie_uncertified')
        fv = abs(ft) if tail == 'both' else -ft if tail == 'left' else ft
        if fv != thr:
            raise NearTie('tie_uncertified')           # cannot happen: the certified value is the exact t
        STAT['exact_tie_decided'] = STAT.get('exact_tie_decided', 0) + 1
        return False
    if thr == 0:
        # t > 0 is decided by the sign of the difference of the two means (of the mean difference), each a correctly
        # rounded quotient of an exact sum: reliable unless that difference is below the rounding of the means
        if abs(num) < Fraction(1, 10 ** 12) * max([1] + [abs(q) for q in a + b]):
            raise NearTie('near_tie')
        return c > 0
    tf = float(v) / math.sqrt(float(den2))
    if abs(tf - float(thr)) < 1e-7 * max(1.0, abs(float(thr))):
        raise NearTie('near_tie')
    return c > 0


def supra_edges(xd, yd, n, thr, tail, paired):
    """xd[(i,j)] = vector over subjects (Fractions). returns set of suprathreshold upper-triangle cells"""
    S = set()
    for i in range(n):
        for j in range(i + 1, n):
            if decide(xd[(i, j)], yd[(i, j)], paired, tail, thr):
                S.add((i, j))
    return S


def bfs_components(n, S):
    """components (as lists of nodes) of the graph with edge set S that contain at least one edge"""
    nb = {u: set() for u in range(n)}
    for (i, j) in S:
        nb[i].add(j); nb[j].add(i)
    seen, comps = set(), []
    for s in range(n):
        if s in seen or not nb[s]:
            continue
        comp, q = [], [s]
        seen.add(s)
        while q:
            u = q.pop()
            comp.append(u)
            for v in nb[u]:
                if v not in seen:
                    seen.add(v); q.append(v)
        comps.append(sorted(comp))
    return comps


def max_links(n, S):
    comps = bfs_components(n, S)
    return max([sum(1 for (i, j) in S if i in c) for c in comps] or [0])


def edge_vectors(x, n):
    return {(i, j): [Fraction(float(v)) for v in x[i, j, :]] for i in range(n) for j in range(i + 1, n)}


def relabel(xd, yd, d, paired, nx):
    """the two groups under one recorded draw"""
    if paired:
        s = np.sign(0.5 - np.array(d).reshape(-1))
        xp = {e: [a if s[q] > 0 else b for q, (a, b) in enumerate(zip(xd[e], yd[e]))] for e in xd}
        yp = {e: [b if s[q] > 0 else a for q, (a, b) in enumerate(zip(xd[e], yd[e]))] for e in xd}
    else:
        xp = {e: [(xd[e] + yd[e])[q] for q in d[:nx]] for e in xd}
        yp = {e: [(xd[e] + yd[e])[q] for q in d[nx:]] for e in xd}
    return xp, yp


# ---------------------------------------------------------------- generators
def symmetrize(X):
    for s in range(X.shape[2]):
        U = np.triu(X[:, :, s], 1)
        X[:, :, s] = U + U.T
    return X


def make_stack(r, n, m, eff):
    return symmetrize(r.randint(0, 6, size=(n, n, m)).astype(float) + eff[:, :, None])


def setc(X, i, j, vec):
    X[i, j, :] = vec; X[j, i, :] = vec


def tail_adj(t, tail):
    return abs(t) if tail == 'both' else -t if tail == 'left' else t


def gen_exact_tie(r):
    """thresh equals an attainable t whose float evaluation is exact by construction; a strong connection shares a node with it"""
    n = int(r.randint(3, 6))
    tail = TAILS[int(r.randint(0, 3))]
    sg = -1 if tail == 'left' else 1 if tail == 'right' else int(r.choice([-1, 1]))   # sign of the effects that count
    var = int(r.randint(0, 5))
    cells = [(i, j) for i in range(n) for j in range(i + 1, n)]
    r.shuffle(cells)
    tie = cells[0]
    strong = [c for c in cells[1:] if set(c) & set(tie)][0]
    paired = var == 3
    if var in (0, 1):                                   # unpaired 2+2, pooled variance a perfect square / thr = 0 families
        nx = ny = 2
        x = symmetrize(r.randint(0, 4, size=(n, n, 2)).astype(float)); y = symmetrize(r.randint(0, 4, size=(n, n, 2)).astype(float))
        if var == 0:
            d1, d2, s = [(2, 0, 1), (0, 2, 1), (4, 0, 2), (0, 4, 2), (6, 8, 5), (8, 6, 5), (2, 0, 1)][int(r.randint(0, 7))]
            delta = sg * int(r.randint(1, 5)) * (5 if s == 5 else 1) * (2 if s == 2 and r.rand() < 0.5 else 1)
            c = int(r.randint(0, 3))
            # means: c + delta + d1/2  and  c + d2/2 (shifted to keep integers): x = [a, a+d1], y = [b, b+d2]
            b = c; a = c + delta + (d2 - d1) // 2
            vx = [a, a + d1]; vy = [b, b + d2]
            if r.rand() < 0.5: vx.reverse()
            if r.rand() < 0.5: vy.reverse()
            setc(x, tie[0], tie[1], vx); setc(y, tie[0], tie[1], vy)
            thr = tail_adj(Fraction(delta, s), tail)
        else:                                           # thr = 0: zero pooled variance (t = 0 by the code's rule) or equal means
            c1, c2 = int(r.randint(0, 5)), int(r.randint(0, 5))
            if r.rand() < 0.5:
                setc(x, tie[0], tie[1], [c1, c1]); setc(y, tie[0], tie[1], [c2, c2])
            else:
                setc(x, tie[0], tie[1], [c1, c1 + 2]); setc(y, tie[0], tie[1], [c1 + 1, c1 + 1])
            thr = Fraction(0)
        setc(x, strong[0], strong[1], [10 + 9 * (sg > 0), 11 + 9 * (sg > 0)]); setc(y, strong[0], strong[1], [10 + 9 * (sg < 0), 11 + 9 * (sg < 0)])
    elif var == 2:                                      # unpaired 8+8: SS in {14, 56, 126} against a constant group: s in {1,2,3}
        nx = ny = 8
        x = symmetrize(r.randint(0, 4, size=(n, n, 8)).astype(float)); y = symmetrize(r.randint(0, 4, size=(n, n, 8)).astype(float))
        cc, s = [(4, 1), (8, 2), (12, 3), (4, 1)][int(r.randint(0, 4))]
        base = int(r.randint(0, 3))
        vary = [float(base)] * 7 + [float(base + cc)]; r.shuffle(vary)      # mean base + cc/8, SS = 7cc^2/8, pooled = (cc/4)^2 = s^2
        tt = Fraction(sg * int(r.randint(1, 9)), 2)     # the wanted t = (mean x - mean y) / (s * sqrt(1/8 + 1/8)) = 2 (mean x - mean y) / s
        vary_is_x = r.rand() < 0.5
        dv = tt * s / 2 if vary_is_x else -tt * s / 2   # mean(vary) - const
        const = [float(Fraction(base) + Fraction(cc, 8) - dv)] * 8
        setc(x, tie[0], tie[1], vary if vary_is_x else const); setc(y, tie[0], tie[1], const if vary_is_x else vary)
        thr = tail_adj(tt, tail)
        hi = [20.0 + int(v) for v in r.randint(0, 2, size=8)]; lo = [float(v) for v in r.randint(0, 2, size=8)]
        setc(x, strong[0], strong[1], hi if sg > 0 else lo); setc(y, strong[0], strong[1], lo if sg > 0 else hi)
    elif var == 3:                                      # paired, 4 pairs, D = d + c*[3,-1,-1,-1]: ss = 12c^2, t = d/c
        nx = ny = 4
        y = symmetrize(r.randint(0, 4, size=(n, n, 4)).astype(float)); x = symmetrize(r.randint(0, 4, size=(n, n, 4)).astype(float))
        c = int(r.choice([1, 2])); d = sg * int(r.randint(1, 5)) * (c if r.rand() < 0.7 else 1)
        D = [d + 3 * c, d - c, d - c, d - c]; r.shuffle(D)
        setc(x, tie[0], tie[1], y[tie[0], tie[1], :] + np.array(D, float))
        thr = tail_adj(Fraction(d, c), tail)
        setc(x, strong[0], strong[1], y[strong[0], strong[1], :] + sg * np.array([20, 21, 20, 22], float))
    else:                                               # thr = 0, unpaired, larger groups: constants and equal means
        nx, ny = int(r.randint(2, 6)), int(r.randint(2, 6))
        x = symmetrize(r.randint(0, 3, size=(n, n, nx)).astype(float)); y = symmetrize(r.randint(0, 3, size=(n, n, ny)).astype(float))
        setc(x, tie[0], tie[1], [int(r.randint(0, 5))] * nx); setc(y, tie[0], tie[1], [int(r.randint(0, 5))] * ny)
        thr = Fraction(0)
        setc(x, strong[0], strong[1], [20 * (sg > 0) + int(v) for v in r.randint(0, 2, size=nx)])
        setc(y, strong[0], strong[1], [20 * (sg < 0) + int(v) for v in r.randint(0, 2, size=ny)])
    k = int(r.randint(8, 25))
    return dict(n=n, x=x, y=y, thr=float(thr), tail=tail, paired=paired, k=k)


def gen_tiny_var(r):
    """dyadic data whose pooled denominator is positive but below 1e-6 (unpaired) / tiny sample_ss (paired)"""
    n = int(r.randint(3, 6))
    paired = r.rand() < 0.3
    nx = int(r.randint(2, 7)); ny = nx if paired else int(r.randint(2, 7))
    x = make_stack(r, n, nx, np.zeros((n, n))); y = make_stack(r, n, ny, np.zeros((n, n)))
    cells = [(i, j) for i in range(n) for j in range(i + 1, n)]
    r.shuffle(cells)

    def zsum0(m):
        z = [int(v) for v in r.randint(-2, 3, size=m - 1)]
        z.append(-sum(z))
        if not any(z):
            z[0] += 1; z[-1] -= 1
        return np.array(z, float)
    for (i, j) in cells[:int(r.randint(1, 4))]:
        if paired:
            eps = 2.0 ** -int(r.choice([8, 12, 16]))
            d = int(r.randint(-4, 5))
            setc(x, i, j, y[i, j, :] + d + eps * zsum0(nx))
        else:
            eps = 2.0 ** -int(r.choice([22, 24, 26]))
            a, c = int(r.randint(0, 6)), int(r.randint(0, 6))
            if r.rand() < 0.15:
                c = a
            setc(x, i, j, a + eps * zsum0(nx)); setc(y, i, j, c + eps * zsum0(ny))
    thr = float(r.choice([0.375, 1.375, 2.375, 3.375, 0.0, 100.0]))
    return dict(n=n, x=x, y=y, thr=thr, tail=TAILS[int(r.randint(0, 3))], paired=bool(paired), k=int(r.randint(8, 17)))


def gen_dyadic(r):
    """real-valued data: multiples of 1/8 in [-4, 4] plus effects; dyadic thresholds, several of them attainable"""
    n = int(r.randint(3, 7))
    paired = r.rand() < 0.4
    nx = int(r.randint(2, 7)); ny = nx if paired else int(r.randint(2, 7))
    if r.rand() < 0.3:
        nx = ny = int(r.choice([2, 4]))
    eff = np.zeros((n, n))
    for _ in range(int(r.randint(1, 5))):
        i, j = [int(v) for v in r.randint(n, size=2)]
        if i != j:
            eff[i, j] = eff[j, i] = float(r.choice([-4, -3.5, 3, 4.25, 6]))
    x = symmetrize(r.randint(-32, 33, size=(n, n, nx)) / 8.0 + eff[:, :, None]); y = symmetrize(r.randint(-32, 33, size=(n, n, ny)) / 8.0)
    thr = float(r.choice([0.375, 1.375, 2.375, 0.5, 1.0, 2.0, 0.0, -0.625]))
    return dict(n=n, x=x, y=y, thr=thr, tail=TAILS[int(r.randint(0, 3))], paired=bool(paired), k=int(r.randint(8, 25)))


def gen_reject(r):
    """calls the code must refuse (or k = 0): which exception, compared with the model's exception code"""
    c = gen_case(r, 'mixed')
    n, x, y = c['n'], c['x'], c['y']
    kind = ['paired_unequal', 'bad_tail', 'bad_shape', 'k0', 'bad_tail+shape', 'paired_unequal+k0', 'bad_shape+paired_unequal'][int(r.randint(0, 7))]
    c['kind'] = kind
    if 'paired_unequal' in kind:
        c['paired'] = True
        if x.shape[2] == y.shape[2]:
            c['y'] = y = np.concatenate([y, y[:, :, :1]], axis=2)
    if 'bad_tail' in kind:
        c['tail'] = str(r.choice(['two', 'Both', '', 'rigth', 'LEFT']))
    if 'shape' in kind:
        v = int(r.randint(0, 5))
        if v == 0:                                      # x is n x (n+1)
            c['x'] = np.concatenate([x, x[:, :1, :]], axis=1)
        elif v == 3:                                    # y is n x (n+1): only the last comparison of the chain fails
            c['y'] = np.concatenate([y, y[:, :1, :]], axis=1)
        elif v == 4:                                    # x is (n+1) x n
            c['x'] = np.concatenate([x, x[:1, :, :]], axis=0)
        elif v == 1:                                    # y has one node more
            m = y.shape[2]
            c['y'] = symmetrize(r.randint(0, 6, size=(n + 1, n + 1, m)).astype(float))
        else:                                           # y is (n+1) x n
            c['y'] = np.concatenate([y, y[:1, :, :]], axis=0)
    if 'k0' in kind:
        c['k'] = 0
    return c


def gen_case(r, fam):
    if fam == 'exact_tie':
        c = gen_exact_tie(r)
    elif fam == 'tiny_var':
        c = gen_tiny_var(r)
    elif fam == 'dyadic':
        c = gen_dyadic(r)
    elif fam == 'reject':
        c = gen_reject(r)
    elif fam == 'int_dtype':
        c = gen_case(r, 'mixed')
        c['x'] = c['x'].astype(np.int64); c['y'] = c['y'].astype(np.int64)
    elif fam == 'single_edge':
        n = 2
        paired = r.rand() < 0.5
        nx = int(r.randint(1, 6)); ny = nx if paired else int(r.randint(1, 6))
        kind = int(r.randint(0, 6))
        def vec(m, const=None):
            return np.full(m, const, float) if const is not None else r.randint(0, 4, size=m).astype(float)
        if kind == 0:
            a, b = vec(nx, 2), vec(ny, 2)
        elif kind == 1:
            a, b = vec(nx, int(r.randint(0, 5))), vec(ny, int(r.randint(0, 5)))
        elif kind == 2:
            a, b = vec(nx, 3), vec(ny)
        elif kind == 3 and paired:
            b = vec(ny); a = b + int(r.randint(-2, 3))
        else:
            a, b = vec(nx) + int(r.randint(-3, 4)), vec(ny)
        x = np.zeros((2, 2, nx)); y = np.zeros((2, 2, ny))
        x[0, 1, :] = x[1, 0, :] = a; y[0, 1, :] = y[1, 0, :] = b
        thr = float(r.choice([0.37, 1.37, 2.37, -0.63, -1.63, 0.0, 0.0, 1.0, -1.0]))
        k = int(r.randint(1, 4))
        c = dict(n=n, x=x, y=y, thr=thr, paired=bool(paired), k=k)
    else:
        n = int(r.randint(3, 8)) if fam != 'dense' else int(r.randint(5, 8))
        paired = (fam == 'paired') or (fam not in ('unpaired', 'unequal') and r.rand() < 0.35)
        lo = 2 if r.rand() < 0.15 else 4
        nx = int(r.randint(lo, 8)); ny = nx if paired else int(r.randint(lo, 8))
        if fam == 'unequal' and nx == ny:
            ny = nx + 1
        eff = np.zeros((n, n))
        if fam == 'multi':
            # strong effects on several node-disjoint pairs / short paths under a random numbering: 2-3 components
            n = int(r.randint(6, 8)); lo = 5
            eff = np.zeros((n, n))
            nx = int(r.randint(lo, 8)); ny = nx if paired else int(r.randint(lo, 8))
            p = [int(v) for v in r.permutation(n)]
            sgn_ = int(r.choice([-1, 1]))
            groups = [p[0:2], p[2:4], p[4:n]] if r.rand() < 0.6 else [p[0:3], p[3:n]]
            for g in groups:
                for a, b in zip(g, g[1:]):
                    eff[a, b] = eff[b, a] = sgn_ * int(r.choice([8, 9, 10]))
        else:
            for _ in range(int(r.randint(1, 5)) if fam != 'dense' else 2 * n):
                i, j = [int(v) for v in r.randint(n, size=2)]
                if i != j:
                    eff[i, j] = eff[j, i] = int(r.choice([-4, -3, 3, 4, 6]))
        x = make_stack(r, n, nx, eff); y = make_stack(r, n, ny, np.zeros((n, n)))
        if fam == 'zero_variance' or r.rand() < 0.3:
            cells = [(i, j) for i in range(n) for j in range(i + 1, n)]
            for q in range(int(r.randint(1, 4))):
                i, j = cells[int(r.randint(len(cells)))]
                kind = int(r.randint(0, 4))
                if kind == 0:
                    x[i, j, :] = x[j, i, :] = 2; y[i, j, :] = y[j, i, :] = 2
                elif kind == 1:
                    c1, c2 = int(r.randint(0, 6)), int(r.randint(0, 6))
                    x[i, j, :] = x[j, i, :] = c1; y[i, j, :] = y[j, i, :] = c2
                elif kind == 2:
                    x[i, j, :] = x[j, i, :] = int(r.randint(0, 9))
                elif paired:
                    cst = int(r.choice([-3, -1, 1, 2]))
                    x[i, j, :] = y[i, j, :] + cst; x[j, i, :] = x[i, j, :]
        thr = float(r.choice([0.37, 1.37, 1.37, 2.37, 2.37, 3.37, -0.63])) if fam != 'multi' else float(r.choice([3.37, 4.37]))
        if fam == 'zero_variance' and r.rand() < 0.3:
            thr = 0.0                                   # zero pooled variance gives t = 0 exactly: a tie at thresh = 0
        k = int(r.randint(8, 25))
        c = dict(n=n, x=x, y=y, thr=thr, paired=bool(paired), k=k)
    c.setdefault('tail', TAILS[int(r.randint(0, 3))])
    c.setdefault('seed', int(r.randint(1 << 30)))
    return c


def enc_stack(x):
    m = x.shape[2]
    return ' '.join([str(m)] + [enc_mat([[Fraction(float(v)) for v in row] for row in x[:, :, s]], enc_q) for s in range(m)])


def partition_of(adj):
    """canonical form of the labelled support: sorted list of sorted edge lists, one per label"""
    n = len(adj)
    d = {}
    for i in range(n):
        for j in range(i + 1, n):
            if adj[i, j] != 0:
                d.setdefault(float(adj[i, j]), []).append((i, j))
    return sorted(sorted(v) for v in d.values())


def exn_code(e):
    import bct
    if isinstance(e, bct.utils.BCTParamError):
        return EXN.get(str(e), -1)
    if isinstance(e, ZeroDivisionError):
        return 7
    return -1


def model_line(x, y, thr, tail, paired, perms, rands):
    tc = TAILS.index(tail) if tail in TAILS else 3
    return ' '.join(['nbsf', str(tc), str(x.shape[0]), str(x.shape[1]), str(y.shape[0]), str(y.shape[1]), enc_stack(x), enc_stack(y),
                     enc_q(thr), enc_bool(paired), str(len(perms))] + [enc_list(p) for p in perms] + [str(len(rands))] + [enc_list(q, enc_q) for q in rands])


# ---------------------------------------------------------------- the tail option as a string OBJECT
# `tail` is the only string option of nbs_bct / nbs_parallel.nbs_bct.  A literal 'both' in this file is the very object the literal
# 'both' in bct/nbs.py is (CPython interns such constants), so a comparison by identity (`tail is 'both'`) would pass on literals and
# fail on every string that is merely EQUAL: one read from json / argparse / a config file, or built at run time.  Two thirds of the
# cases hand over such a string (rotating constructions); the oracle is the one of the literal.
TAIL_OBJECTS = [
    ("''.join([t[:2], t[2:]])", lambda t: ''.join([t[:2], t[2:]])),
    ("json.loads('\"%s\"' % t)", lambda t: __import__('json').loads('"%s"' % t)),
    ("(' ' + t + '\\n').strip()", lambda t: (' ' + t + '\n').strip()),
    ('t.encode().decode()', lambda t: t.encode().decode()),
    ('np.array([t])[0]  (numpy.str_)', lambda t: np.array([t])[0]),
    ('str(np.array([t])[0])', lambda t: str(np.array([t])[0])),
]


def tail_object(tail, t):
    """(description, object): the literal for t % 3 == 0, else an equal string that is a different object"""
    if t % 3 == 0:
        return 'literal', tail
    how, mk = TAIL_OBJECTS[(t // 3 + t) % len(TAIL_OBJECTS)]
    obj = mk(tail)
    assert obj == tail and (obj is not tail or tail == ''), how
    return how, obj


def run(ctx):
    import bct
    import bct.nbs_parallel as npar
    STAT.clear()
    r = ctx.nprng
    fams = ['mixed', 'multi', 'paired', 'exact_tie', 'unpaired', 'multi', 'tiny_var', 'unequal', 'zero_variance', 'dense', 'exact_tie',
            'multi', 'single_edge', 'dyadic', 'single_edge', 'reject', 'exact_tie', 'int_dtype', 'dyadic', 'tiny_var']
    N = ctx.scale(600, 6000)
    NPAR = ctx.scale(24, 240)                      # cases also run through nbs_parallel.nbs_bct
    lines, pend = [], []
    npar_done = 0
    for t in range(N):
        fam = fams[t % len(fams)]
        c = gen_case(r, fam)
        n, x, y, thr, tail, paired, k, seed = c['n'], c['x'], c['y'], c['thr'], c['tail'], c['paired'], c['k'], c['seed']
        verbose = (t % 7 == 3)
        nx, ny = x.shape[2], y.shape[2]
        case = {'fn': 'nbs_bct', 'family': fam, 'n': n, 'x': x.tolist(), 'y': y.tolist(),
                'thresh': thr, 'tail': tail, 'paired': paired, 'k': k, 'seed': seed, 'verbose': verbose, 'dtype': str(x.dtype)}
        tail_how, tail_o = tail_object(tail, t)         # what the calls below receive as `tail` (equal to `tail`, usually another object)
        case['tail_object'] = tail_how
        # ---------------- rejection cases: exception class / message against the model's exception code
        if fam == 'reject':
            rec = Rec(seed)
            try:
                quiet(bct.nbs_bct, x, y, thr, k=k, tail=tail_o, paired=paired, verbose=verbose, seed=rec)
                code = 0
            except Timeout:
                ctx.fail('nbs_bct:timeout', 'did not terminate', case); continue
            except Exception as e:
                code = exn_code(e)
                err = repr(e)
            ctx.case(case, nontrivial=False, sample_every=97)
            ctx.count('family:reject'); ctx.count('reject:' + c['kind'])
            shape_ok = x.shape[0] == x.shape[1] == y.shape[0] == y.shape[1]
            must_refuse = (tail not in TAILS) or (not shape_ok) or (paired and nx != ny)
            if must_refuse:
                ctx.check(code in (1, 2, 3), 'nbs_bct:rejects', 'a call with %s must be refused with BCTParamError, got %s' % (c['kind'], 'a result' if code == 0 else err), case)
            draws = [e for e in rec.log if e[0] in ('permutation', 'rand')]
            perms = [d[3] for d in draws if d[0] == 'permutation']
            rands = [np.array(d[3]).reshape(-1).tolist() for d in draws if d[0] == 'rand']
            if code != 0 and code != 7 and k > 0:
                perms = [] if paired else [list(range(nx + ny))] * k
                rands = [[0.25] * nx] * k if paired else []
            if code == -1:
                ctx.mismatch('nbs_bct:raises', 'unexpected exception ' + err, case, None, err); continue
            lines.append(model_line(x, y, thr, tail, paired, perms, rands)); pend.append((case, None, None, None, code, 'nbs_bct'))
            continue
        xd, yd = edge_vectors(x, n), edge_vectors(y, n)
        fthr = Fraction(thr)
        try:
            S = supra_edges(xd, yd, n, fthr, tail, paired)
        except NearTie as e:
            ctx.count('skipped_' + str(e)); continue
        rec = Rec(seed)
        x0, y0 = x.copy(), y.copy()
        code = 0
        try:
            pv, adj, null = quiet(bct.nbs_bct, x, y, thr, k=k, tail=tail_o, paired=paired, verbose=verbose, seed=rec)
            err = None
        except bct.utils.BCTParamError as e:
            pv = adj = null = None; err = 'param:' + str(e); code = exn_code(e)
        except Timeout:
            ctx.fail('nbs_bct:timeout', 'did not terminate', case); continue
        except Exception as e:
            pv = adj = null = None; err = repr(e); code = exn_code(e)
        tie_variants(case)      # input-representation layer: further calls follow and the model comparison of this case is batched
        ctx.case(case, nontrivial=bool(S), sample_every=41)
        ctx.count('family:' + fam); ctx.count('n=%d' % n); ctx.count('tail:' + tail); ctx.count('paired' if paired else 'unpaired')
        ctx.count('tail-object:%s:%s' % ('literal' if tail_how == 'literal' else 'equal-not-identical', 'paired' if paired else 'unpaired'))
        ctx.count('groups:%s' % ('equal' if nx == ny else 'unequal'))
        if verbose:
            ctx.count('verbose')
        draws = [e for e in rec.log if e[0] in ('permutation', 'rand')]
        near = None
        # ------------ direct oracle on the implementation
        ok = False
        if not S:
            ctx.count('no_supra'); ctx.count('no_supra:' + fam)
            ctx.check(err is not None and err.startswith('param'), 'nbs_bct:unsuitable', 'no suprathreshold connection: BCTParamError expected, got %s' % (err or 'a result'), case)
        elif err:
            ctx.fail('nbs_bct:raises', 'suprathreshold connections exist but the call raised ' + err, case)
        else:
            comps = bfs_components(n, S)
            ctx.count('components=%d' % len(comps))
            Sm = np.zeros((n, n), bool)
            for (i, j) in S:
                Sm[i, j] = Sm[j, i] = True
            ok = ctx.check(adj.shape == (n, n) and np.array_equal(adj != 0, Sm), 'nbs_bct:adj_support',
                           'adj does not mark exactly the suprathreshold connections (expected %s)' % sorted(S), case)
            ctx.check(np.array_equal(adj, adj.T), 'nbs_bct:adj_symmetric', 'adj is not symmetric', case)
            if ok:
                want = sorted(sorted((i, j) for (i, j) in S if i in c) for c in comps)
                ctx.check(partition_of(adj) == want, 'nbs_bct:adj_labels', 'connections are not labelled by component (expected groups %s)' % want, case)
                labs = sorted(set(adj[adj != 0].tolist()))
                ctx.check(labs == [float(l) for l in range(1, len(comps) + 1)], 'nbs_bct:labels_1_to_C', 'labels %s are not 1..%d' % (labs, len(comps)), case)
                ctx.check(len(pv) == len(comps), 'nbs_bct:one_pval_per_component', '%d p-values for %d components' % (len(pv), len(comps)), case)
                ctx.check(len(null) == k, 'nbs_bct:k_null_values', '%d null values for k=%d' % (len(null), k), case)
                if len(pv) == len(comps) and len(null) == k:
                    for l in range(1, len(comps) + 1):
                        size = int((adj == l).sum()) // 2
                        ctx.check(abs(pv[l - 1] - float(np.mean(null >= size))) < 1e-12, 'nbs_bct:pval_def',
                                  'pvals[%d]=%r is not the fraction of null >= %d (%r)' % (l - 1, float(pv[l - 1]), size, float(np.mean(null >= size))), case)
                # null values: largest component under each recorded relabelling
                if ctx.check(len(draws) == k, 'nbs_bct:draws', '%d recorded draws for k=%d' % (len(draws), k), case) and len(null) == k:
                    for u, d in enumerate(draws):
                        xp, yp = relabel(xd, yd, d[3], paired, nx)
                        try:
                            Sp = supra_edges(xp, yp, n, fthr, tail, paired)
                        except NearTie as e:
                            near = str(e); break
                        want = max_links(n, Sp)
                        if not ctx.check(null[u] == want, 'nbs_bct:null_is_max_component',
                                         'null[%d]=%r but the largest component under relabelling %s has %d connections' % (u, float(null[u]), d[3], want), case):
                            break
            ctx.check(np.array_equal(x, x0) and np.array_equal(y, y0), 'nbs_bct:no_mutation', 'argument modified', case)
            # ------------ metamorphic: swap groups + tail ; reorder subjects
            if t % 2 == 0 and ok:
                try:
                    _, adj2, _ = quiet(bct.nbs_bct, y, x, thr, k=1, tail=tail_object(SWAP[tail], t + 1)[1], paired=paired, seed=Rec(seed))
                    ctx.check(partition_of(adj2) == partition_of(adj), 'nbs_bct:swap_groups_tail', 'swapping the groups together with the tail changed the observed components (swapped call: tail=%r given as %s)' % (SWAP[tail], tail_object(SWAP[tail], t + 1)[0]), case)
                except bct.utils.BCTParamError as e:
                    ctx.fail('nbs_bct:swap_groups_tail', 'swapped call raised %s' % e, case)
                px = r.permutation(nx); py = px if paired else r.permutation(ny)
                try:
                    _, adj3, _ = quiet(bct.nbs_bct, x[:, :, px], y[:, :, py], thr, k=1, tail=tail_o, paired=paired, seed=Rec(seed))
                    ctx.check(partition_of(adj3) == partition_of(adj), 'nbs_bct:reorder_subjects', 'reordering subjects within the groups (%s,%s) changed the observed components' % (px.tolist(), py.tolist()), case)
                except bct.utils.BCTParamError as e:
                    ctx.fail('nbs_bct:reorder_subjects', 'reordered call raised %s' % e, case)
        if near:
            ctx.count('skipped_perm_' + near); continue
        # ------------ model line (the draws the code consumed)
        if code != -1:
            perms = [d[3] for d in draws if d[0] == 'permutation']
            rands = [np.array(d[3]).reshape(-1).tolist() for d in draws if d[0] == 'rand']
            if err is not None:
                # the code raised before drawing: give the model k dummy draws of the right kind
                perms = [] if paired else [list(range(nx + ny))] * k
                rands = [[0.25] * nx] * k if paired else []
            lines.append(model_line(x, y, thr, tail, paired, perms, rands)); pend.append((case, pv, adj, null, code, 'nbs_bct'))
        else:
            ctx.mismatch('nbs_bct:raises', 'unexpected exception ' + str(err), case, None, err)
        # ------------ nbs_parallel.nbs_bct: the same statistic code, duplicated (tie by harness)
        if ok and npar_done < NPAR and n <= 5 and t % 3 == 0:
            npar_done += 1
            pseed = int(seed % 100000)
            pcase = dict(case, fn='nbs_parallel.nbs_bct', seed=pseed, workers=1)
            try:
                ppv, padj, pnull = quiet(npar.nbs_bct, x, y, thr, k=k, tail=tail_o, paired=paired, verbose=verbose, seed=pseed, workers=1)
            except Exception as e:
                ctx.fail('nbs_parallel.nbs_bct:raises', 'bct.nbs_bct returns on this input but nbs_parallel.nbs_bct raised %r' % e, pcase); continue
            ctx.count('nbs_parallel')
            ctx.check(np.array_equal(padj, adj), 'nbs_parallel.nbs_bct:adj', 'adjacency differs from bct.nbs_bct on the same input', pcase)
            seeds = np.random.RandomState(pseed).randint(2 ** 31 - 1, size=k)
            pdraws = [np.random.RandomState(int(s)).rand(1, nx).reshape(-1).tolist() if paired else np.random.RandomState(int(s)).permutation(nx + ny).tolist() for s in seeds]
            good = len(pnull) == k
            ctx.check(good, 'nbs_parallel.nbs_bct:k_null_values', '%d null values for k=%d' % (len(pnull), k), pcase)
            pnear = False
            if good:
                for u, d in enumerate(pdraws):
                    xp, yp = relabel(xd, yd, d, paired, nx)
                    try:
                        Sp = supra_edges(xp, yp, n, fthr, tail, paired)
                    except NearTie:
                        pnear = True; break
                    want = max_links(n, Sp)
                    if not ctx.check(pnull[u] == want, 'nbs_parallel.nbs_bct:null_is_max_component',
                                     'null[%d]=%r but the largest component under the relabelling of permutation seed %d has %d connections' % (u, float(pnull[u]), int(seeds[u]), want), pcase):
                        break
                for l in range(1, len(ppv) + 1):
                    size = int((padj == l).sum()) // 2
                    if not ctx.check(abs(ppv[l - 1] - float(np.mean(pnull >= size))) < 1e-12, 'nbs_parallel.nbs_bct:pval_def',
                                     'pvals[%d]=%r is not the fraction of the returned null values >= %d (%r)' % (l - 1, float(ppv[l - 1]), size, float(np.mean(pnull >= size))), pcase):
                        break
            if good and not pnear:
                lines.append(model_line(x, y, thr, tail, paired, [] if paired else pdraws, pdraws if paired else []))
                pend.append((pcase, ppv, padj, pnull, 0, 'nbs_parallel.nbs_bct'))
    for kk, v in STAT.items():
        ctx.count(kk, v)

    # ---------------- correspondence: extracted Coq model fed with the recorded draws
    res = run_model(ID, lines)
    ctx.model_cases = len(lines)
    for (case, pv, adj, null, code, fn), m in zip(pend, res):
        if is_err(m):
            ctx.mismatch('model-error', m['error'], case); continue
        mcode = m['exn'] if isinstance(m, dict) else 0
        if mcode or code:
            if mcode != code:
                ctx.mismatch(fn + ':raises', 'model: %s / implementation: %s' % (EXN_NAME.get(mcode, 'returns'), EXN_NAME.get(code, 'returns')), case, mcode, code)
            else:
                ctx.count('corr:both_raise:' + EXN_NAME[code])
            continue
        if adj is None:
            ctx.count('corr:both_return'); continue
        mp = [dec_q(v) for v in m[0]]; madj = [[dec_z(v) for v in row] for row in m[1]]; mnull = [dec_q(v) for v in m[2]]
        if not np.array_equal(np.array(madj, float).reshape(adj.shape), adj):
            ctx.mismatch(fn + ':adj', 'adjacency/labels differ', case, madj, adj)
        elif len(mnull) != len(null) or any(float(a) != float(b) for a, b in zip(mnull, null)):
            ctx.mismatch(fn + ':null', 'null values differ', case, [str(v) for v in mnull], null)
        elif pv is not None and (len(mp) != len(pv) or any(not frac_close(a, float(b)) for a, b in zip(mp, pv))):
            ctx.mismatch(fn + ':pvals', 'p-values differ', case, [str(v) for v in mp], pv)
        else:
            ctx.count('corr:identical' if fn == 'nbs_bct' else 'corr:identical_parallel')
