"""C19 — NBS reports true suprathreshold components and correct permutation p-values."""
import io, contextlib, math
import numpy as np
from common import *

ID = 'C19'
COQ_FILES = ['Base/Mat.v', 'Base/ListX.v', 'Model/Components.v', 'Proofs/Components.v', 'Model/Nbs.v', 'Proofs/Nbs.v',
             'Proofs/NbsReal.v', 'Properties/C19.v']
THEOREMS = ['C19_adj_support_iff_supra_and_component', 'C19_adj_label_is_component_index', 'C19_every_label_used', 'C19_links_are_component_sizes', 'C19_links_are_connection_counts',
            'C19_pval_def', 'C19_null_is_max_component', 'C19_swap_decision', 'C19_swap_groups_tail_symmetry',
            'C19_reorder_within_group_invariant', 'C19_reorder_pairs_invariant', 'C19_ratio_gt_sound',
            'C19_t_gt_thresh_unpaired', 'C19_t_gt_thresh_paired']
RULE = ('stacks of symmetric integer matrices: n=3..7 nodes, 2..7 subjects per group (equal when paired), entries 0..5 plus '
        'planted effects of either sign on 1..4 connections (family multi: strong effects on 2-3 node-disjoint paths under a random numbering, giving several components), planted zero-variance connections (equal constants, unequal '
        'constants, constant in one group only); thresholds k+0.37 (never attainable exactly), occasionally negative; '
        'tail both/left/right; paired/unpaired; k=8..24 recorded permutations (RandomState subclass passed as seed); plus a '
        'single-connection family (n=2, groups of 1..5 subjects, many degenerate vectors) that exercises the t decision '
        'alone. non-trivial = at least one suprathreshold connection (the call returns); distinct by hash of all arguments')
ASSUMES = ['data are small integers: group sums, differences and the tests `denom == 0` / zero sample variance are exact in binary64; '
           'cases in which some |t - thresh| < 1e-7 (observed or permuted) are skipped (none expected with thresholds k+0.37)',
           'conventions of the code on degenerate connections are taken as the specification: unpaired with zero pooled variance '
           '-> t = 0; paired with constant difference c -> t = sign(c)*inf (c = 0: nan, never suprathreshold); a group with a '
           'single subject -> nan, never suprathreshold',
           'a relabelling of subjects is read off the recorded draw: rng.permutation(nx+ny) (first nx indices form group 1) or, '
           'paired, sign(0.5 - rng.rand(1,nx)) (pairs with -1 are exchanged)']
TRUSTED = ['C19_t_gt_thresh_unpaired / C19_t_gt_thresh_paired (the square-root-free decision equals `thresh < t` with a real '
           'square root) depend on the standard-library axioms of Coq\'s real numbers (ClassicalDedekindReals.sig_not_dec, '
           'sig_forall_dec, FunctionalExtensionality.functional_extensionality_dep); every other C19 theorem is closed under '
           'the global context']

TAILS = ['both', 'left', 'right']
SWAP = {'both': 'both', 'left': 'right', 'right': 'left'}


def quiet(f, *a, **k):
    with contextlib.redirect_stdout(io.StringIO()):
        return call(f, *a, _t=60.0, **k)


# ---------------------------------------------------------------- independent oracle
def t_exact(a, b, paired):
    """(kind, num, den2): t = num/sqrt(den2) exactly; kind in 'ok','zero','pinf','ninf','nan' (conventions in ASSUMES)"""
    a = [Fraction(int(v)) for v in a]; b = [Fraction(int(v)) for v in b]
    if paired:
        d = [p - q for p, q in zip(a, b)]
        n = len(d)
        if n < 2:
            return ('nan', None, None)
        mean = sum(d) / n
        var = sum((v - mean) ** 2 for v in d) / (n - 1)
        if var == 0:
            return ('pinf' if mean > 0 else 'ninf' if mean < 0 else 'nan', None, None)
        return ('ok', mean, var / n)
    n1, n2 = len(a), len(b)
    if n1 < 2 or n2 < 2:
        return ('nan', None, None)
    m1, m2 = sum(a) / n1, sum(b) / n2
    v1 = sum((v - m1) ** 2 for v in a) / (n1 - 1)
    v2 = sum((v - m2) ** 2 for v in b) / (n2 - 1)
    sp = ((n1 - 1) * v1 + (n2 - 1) * v2) / (n1 + n2 - 2)
    den2 = sp * (Fraction(1, n1) + Fraction(1, n2))
    if den2 == 0:
        return ('zero', None, None)
    return ('ok', m1 - m2, den2)


def t_value(a, b, paired, tail):
    kind, num, den2 = t_exact(a, b, paired)
    if kind == 'nan':
        return float('nan')
    if kind == 'zero':
        t = 0.0
    elif kind == 'pinf':
        t = float('inf')
    elif kind == 'ninf':
        t = float('-inf')
    else:
        t = float(num) / math.sqrt(float(den2))
    return abs(t) if tail == 'both' else -t if tail == 'left' else t


def bfs_components(n, S):
    """components (as lists of nodes) of the graph with edge set S that contain at least one edge"""
    nb = {u: set() for u in range(n)}
    for (i, j) in S:
        nb[i].add(j); nb[j].add(i)
    seen, comps = set(), []
    for s in range(n):
        if s in seen or not nb[s]:
            continue
        comp, q = [], [s]
        seen.add(s)
        while q:
            u = q.pop()
            comp.append(u)
            for v in nb[u]:
                if v not in seen:
                    seen.add(v); q.append(v)
        comps.append(sorted(comp))
    return comps


class NearTie(Exception):
    pass


def supra_edges(xd, yd, n, thr, tail, paired):
    """xd[(i,j)] = vector over subjects. returns set of suprathreshold upper-triangle cells"""
    S = set()
    for i in range(n):
        for j in range(i + 1, n):
            t = t_value(xd[(i, j)], yd[(i, j)], paired, tail)
            if math.isnan(t):
                continue
            if math.isfinite(t) and abs(t - thr) < 1e-7:
                raise NearTie()
            if t > thr:
                S.add((i, j))
    return S


def max_links(n, S):
    comps = bfs_components(n, S)
    return max([sum(1 for (i, j) in S if i in c) for c in comps] or [0])


def edge_vectors(x, n):
    return {(i, j): [int(v) for v in x[i, j, :]] for i in range(n) for j in range(i + 1, n)}


# ---------------------------------------------------------------- generators
def make_stack(r, n, m, eff):
    X = r.randint(0, 6, size=(n, n, m)).astype(float) + eff[:, :, None]
    for s in range(m):
        U = np.triu(X[:, :, s], 1)
        X[:, :, s] = U + U.T
    return X


def gen_case(r, fam):
    if fam == 'single_edge':
        n = 2
        paired = r.rand() < 0.5
        nx = int(r.randint(1, 6)); ny = nx if paired else int(r.randint(1, 6))
        kind = int(r.randint(0, 6))
        def vec(m, const=None):
            return np.full(m, const, float) if const is not None else r.randint(0, 4, size=m).astype(float)
        if kind == 0:
            a, b = vec(nx, 2), vec(ny, 2)
        elif kind == 1:
            a, b = vec(nx, int(r.randint(0, 5))), vec(ny, int(r.randint(0, 5)))
        elif kind == 2:
            a, b = vec(nx, 3), vec(ny)
        elif kind == 3 and paired:
            b = vec(ny); a = b + int(r.randint(-2, 3))
        else:
            a, b = vec(nx) + int(r.randint(-3, 4)), vec(ny)
        x = np.zeros((2, 2, nx)); y = np.zeros((2, 2, ny))
        x[0, 1, :] = x[1, 0, :] = a; y[0, 1, :] = y[1, 0, :] = b
        thr = float(r.choice([0.37, 1.37, 2.37, -0.63, -1.63, 0.0 + 0.37]))
        k = int(r.randint(1, 4))
    else:
        n = int(r.randint(3, 8)) if fam != 'dense' else int(r.randint(5, 8))
        paired = (fam == 'paired') or (fam not in ('unpaired', 'unequal') and r.rand() < 0.35)
        lo = 2 if r.rand() < 0.15 else 4
        nx = int(r.randint(lo, 8)); ny = nx if paired else int(r.randint(lo, 8))
        if fam == 'unequal' and nx == ny:
            ny = nx + 1
        eff = np.zeros((n, n))
        if fam == 'multi':
            # strong effects on several node-disjoint pairs / short paths under a random numbering: 2-3 components
            n = int(r.randint(6, 8)); lo = 5
            eff = np.zeros((n, n))
            nx = int(r.randint(lo, 8)); ny = nx if paired else int(r.randint(lo, 8))
            p = [int(v) for v in r.permutation(n)]
            sgn = int(r.choice([-1, 1]))
            groups = [p[0:2], p[2:4], p[4:n]] if r.rand() < 0.6 else [p[0:3], p[3:n]]
            for g in groups:
                for a, b in zip(g, g[1:]):
                    eff[a, b] = eff[b, a] = sgn * int(r.choice([8, 9, 10]))
        else:
            for _ in range(int(r.randint(1, 5)) if fam != 'dense' else 2 * n):
                i, j = [int(v) for v in r.randint(n, size=2)]
                if i != j:
                    eff[i, j] = eff[j, i] = int(r.choice([-4, -3, 3, 4, 6]))
        x = make_stack(r, n, nx, eff); y = make_stack(r, n, ny, np.zeros((n, n)))
        if fam == 'zero_variance' or r.rand() < 0.3:
            cells = [(i, j) for i in range(n) for j in range(i + 1, n)]
            for q in range(int(r.randint(1, 4))):
                i, j = cells[int(r.randint(len(cells)))]
                kind = int(r.randint(0, 4))
                if kind == 0:
                    x[i, j, :] = x[j, i, :] = 2; y[i, j, :] = y[j, i, :] = 2
                elif kind == 1:
                    c1, c2 = int(r.randint(0, 6)), int(r.randint(0, 6))
                    x[i, j, :] = x[j, i, :] = c1; y[i, j, :] = y[j, i, :] = c2
                elif kind == 2:
                    x[i, j, :] = x[j, i, :] = int(r.randint(0, 9))
                elif paired:
                    c = int(r.choice([-3, -1, 1, 2]))
                    x[i, j, :] = y[i, j, :] + c; x[j, i, :] = x[i, j, :]
        thr = float(r.choice([0.37, 1.37, 1.37, 2.37, 2.37, 3.37, -0.63])) if fam != 'multi' else float(r.choice([3.37, 4.37]))
        k = int(r.randint(8, 25))
    tail = TAILS[int(r.randint(0, 3))]
    seed = int(r.randint(1 << 30))
    return dict(n=n, x=x, y=y, thr=thr, tail=tail, paired=bool(paired), k=k, seed=seed)


def enc_stack(x):
    n, _, m = x.shape
    return ' '.join([str(m)] + [enc_mat([[int(v) for v in row] for row in x[:, :, s]]) for s in range(m)])


def partition_of(adj):
    """canonical form of the labelled support: sorted list of sorted edge lists, one per label"""
    n = len(adj)
    d = {}
    for i in range(n):
        for j in range(i + 1, n):
            if adj[i, j] != 0:
                d.setdefault(float(adj[i, j]), []).append((i, j))
    return sorted(sorted(v) for v in d.values())


def run(ctx):
    import bct
    r = ctx.nprng
    fams = ['mixed', 'multi', 'paired', 'unpaired', 'multi', 'unequal', 'zero_variance', 'dense', 'multi', 'single_edge', 'single_edge']
    N = ctx.scale(440, 4400)
    lines, pend = [], []
    for t in range(N):
        fam = fams[t % len(fams)]
        c = gen_case(r, fam)
        n, x, y, thr, tail, paired, k, seed = c['n'], c['x'], c['y'], c['thr'], c['tail'], c['paired'], c['k'], c['seed']
        nx, ny = x.shape[2], y.shape[2]
        case = {'fn': 'nbs_bct', 'family': fam, 'n': n, 'x': x.astype(int).tolist(), 'y': y.astype(int).tolist(),
                'thresh': thr, 'tail': tail, 'paired': paired, 'k': k, 'seed': seed}
        xd, yd = edge_vectors(x, n), edge_vectors(y, n)
        try:
            S = supra_edges(xd, yd, n, thr, tail, paired)
        except NearTie:
            ctx.count('skipped_near_tie'); continue
        rec = Rec(seed)
        x0, y0 = x.copy(), y.copy()
        try:
            pv, adj, null = quiet(bct.nbs_bct, x, y, thr, k=k, tail=tail, paired=paired, seed=rec)
            err = None
        except bct.utils.BCTParamError as e:
            pv = adj = null = None; err = 'param:' + str(e)
        except Timeout:
            ctx.fail('nbs_bct:timeout', 'did not terminate', case); continue
        except Exception as e:
            pv = adj = null = None; err = repr(e)
        ctx.case(case, nontrivial=bool(S), sample_every=41)
        ctx.count('family:' + fam); ctx.count('n=%d' % n); ctx.count('tail:' + tail); ctx.count('paired' if paired else 'unpaired')
        ctx.count('groups:%s' % ('equal' if nx == ny else 'unequal'))
        draws = [e for e in rec.log if e[0] in ('permutation', 'rand')]
        near = False
        # ------------ direct oracle on the implementation
        if not S:
            ctx.count('no_supra')
            ctx.check(err is not None and err.startswith('param'), 'nbs_bct:unsuitable', 'no suprathreshold connection: BCTParamError expected, got %s' % (err or 'a result'), case)
        elif err:
            ctx.fail('nbs_bct:raises', 'suprathreshold connections exist but the call raised ' + err, case)
        else:
            comps = bfs_components(n, S)
            ctx.count('components=%d' % len(comps))
            Sm = np.zeros((n, n), bool)
            for (i, j) in S:
                Sm[i, j] = Sm[j, i] = True
            ok = ctx.check(adj.shape == (n, n) and np.array_equal(adj != 0, Sm), 'nbs_bct:adj_support',
                           'adj does not mark exactly the suprathreshold connections (expected %s)' % sorted(S), case)
            ctx.check(np.array_equal(adj, adj.T), 'nbs_bct:adj_symmetric', 'adj is not symmetric', case)
            if ok:
                want = sorted(sorted((i, j) for (i, j) in S if i in c) for c in comps)
                ctx.check(partition_of(adj) == want, 'nbs_bct:adj_labels', 'connections are not labelled by component (expected groups %s)' % want, case)
                labs = sorted(set(adj[adj != 0].tolist()))
                ctx.check(labs == [float(l) for l in range(1, len(comps) + 1)], 'nbs_bct:labels_1_to_C', 'labels %s are not 1..%d' % (labs, len(comps)), case)
                ctx.check(len(pv) == len(comps), 'nbs_bct:one_pval_per_component', '%d p-values for %d components' % (len(pv), len(comps)), case)
                ctx.check(len(null) == k, 'nbs_bct:k_null_values', '%d null values for k=%d' % (len(null), k), case)
                if len(pv) == len(comps) and len(null) == k:
                    for l in range(1, len(comps) + 1):
                        size = int((adj == l).sum()) // 2
                        ctx.check(abs(pv[l - 1] - float(np.mean(null >= size))) < 1e-12, 'nbs_bct:pval_def',
                                  'pvals[%d]=%r is not the fraction of null >= %d (%r)' % (l - 1, float(pv[l - 1]), size, float(np.mean(null >= size))), case)
                # null values: largest component under each recorded relabelling
                if ctx.check(len(draws) == k, 'nbs_bct:draws', '%d recorded draws for k=%d' % (len(draws), k), case) and len(null) == k:
                    for u, d in enumerate(draws):
                        if paired:
                            s = np.sign(0.5 - np.array(d[3]).reshape(-1))
                            xp = {e: [a if s[q] > 0 else b for q, (a, b) in enumerate(zip(xd[e], yd[e]))] for e in xd}
                            yp = {e: [b if s[q] > 0 else a for q, (a, b) in enumerate(zip(xd[e], yd[e]))] for e in xd}
                        else:
                            p = d[3]
                            xp = {e: [(xd[e] + yd[e])[q] for q in p[:nx]] for e in xd}
                            yp = {e: [(xd[e] + yd[e])[q] for q in p[nx:]] for e in xd}
                        try:
                            Sp = supra_edges(xp, yp, n, thr, tail, paired)
                        except NearTie:
                            near = True; break
                        want = max_links(n, Sp)
                        if not ctx.check(null[u] == want, 'nbs_bct:null_is_max_component',
                                         'null[%d]=%r but the largest component under relabelling %s has %d connections' % (u, float(null[u]), d[3], want), case):
                            break
            ctx.check(np.array_equal(x, x0) and np.array_equal(y, y0), 'nbs_bct:no_mutation', 'argument modified', case)
            # ------------ metamorphic: swap groups + tail ; reorder subjects
            if t % 2 == 0 and ok:
                try:
                    _, adj2, _ = quiet(bct.nbs_bct, y, x, thr, k=1, tail=SWAP[tail], paired=paired, seed=Rec(seed))
                    ctx.check(partition_of(adj2) == partition_of(adj), 'nbs_bct:swap_groups_tail', 'swapping the groups together with the tail changed the observed components', case)
                except bct.utils.BCTParamError as e:
                    ctx.fail('nbs_bct:swap_groups_tail', 'swapped call raised %s' % e, case)
                px = r.permutation(nx); py = px if paired else r.permutation(ny)
                try:
                    _, adj3, _ = quiet(bct.nbs_bct, x[:, :, px], y[:, :, py], thr, k=1, tail=tail, paired=paired, seed=Rec(seed))
                    ctx.check(partition_of(adj3) == partition_of(adj), 'nbs_bct:reorder_subjects', 'reordering subjects within the groups (%s,%s) changed the observed components' % (px.tolist(), py.tolist()), case)
                except bct.utils.BCTParamError as e:
                    ctx.fail('nbs_bct:reorder_subjects', 'reordered call raised %s' % e, case)
        if near:
            ctx.count('skipped_near_tie_perm'); continue
        # ------------ model line (the draws the code consumed)
        if err is None or err.startswith('param'):
            perms = [d[3] for d in draws if d[0] == 'permutation']
            rands = [np.array(d[3]).reshape(-1).tolist() for d in draws if d[0] == 'rand']
            if err is not None:
                # the code raised before drawing: give the model k dummy draws of the right kind
                perms = [] if paired else [list(range(nx + ny))] * k
                rands = [[0.25] * nx] * k if paired else []
            line = ' '.join(['nbs', str(n), enc_stack(x), enc_stack(y), enc_q(thr), str(TAILS.index(tail)), enc_bool(paired),
                             str(len(perms))] + [enc_list(p) for p in perms] + [str(len(rands))] + [enc_list(q, enc_q) for q in rands])
            lines.append(line); pend.append((case, pv, adj, null, err))

    # ---------------- correspondence: extracted Coq model fed with the recorded draws
    res = run_model(ID, lines)
    ctx.model_cases = len(lines)
    for (case, pv, adj, null, err), m in zip(pend, res):
        if is_err(m):
            ctx.mismatch('model-error', m['error'], case); continue
        if m is None or err:
            if not (m is None and err):
                ctx.mismatch('nbs_bct:raises', 'model %s / impl %s' % ('raises' if m is None else 'returns', err or 'returns'), case, m, err)
            else:
                ctx.count('corr:both_raise')
            continue
        mp = [dec_q(v) for v in m[0]]; madj = [[dec_z(v) for v in row] for row in m[1]]; mnull = [dec_q(v) for v in m[2]]
        if not np.array_equal(np.array(madj, float).reshape(adj.shape), adj):
            ctx.mismatch('nbs_bct:adj', 'adjacency/labels differ', case, madj, adj)
        elif len(mnull) != len(null) or any(float(a) != float(b) for a, b in zip(mnull, null)):
            ctx.mismatch('nbs_bct:null', 'null values differ', case, [str(v) for v in mnull], null)
        elif len(mp) != len(pv) or any(not frac_close(a, float(b)) for a, b in zip(mp, pv)):
            ctx.mismatch('nbs_bct:pvals', 'p-values differ', case, [str(v) for v in mp], pv)
        else:
            ctx.count('corr:identical')
