"""c05_corpus.py — pinned translator corpus for property C05.

Every NEGATIVE snippet is a small module that breaks the seeding discipline (or determinism) in a way an earlier
version of harness/translate_effects.py let through, or that the whitelist must keep catching.  On every ./check the
snippets are added to the CURRENT bct tree as extra modules, translated, and the resulting EffectLang program is
written to coq/theories/Gen/EffectsNeg.v where the Coq checker must REJECT each negative entry point and ACCEPT each
control (`Example corpus_verdicts`, vm_compute) — Properties/C05.v C05_translator_corpus.  A snippet that is accepted
means the translator has become fail-open again: the build of the property fails.

Entry points are named neg_<id> / ctl_<id>; modules live under the (virtual) package bct._c05corpus."""

HEAD = '''import numpy as np
from bct.utils import get_rng, pick_four_unique_nodes_quickly, BCTParamError
'''

NEGATIVE = {
    # ---- the six fail-open cases of design_notes/audit_C05.md section 3
    'module_alias': HEAD + '''
_R = np.random
def neg_module_alias(n, seed=None):
    rng = get_rng(seed)
    return rng.rand(1, n) + _R.randint(n)
''',
    'star_import': HEAD + '''
from numpy.random import *
def neg_star_import(n, seed=None):
    rng = get_rng(seed)
    return rng.rand(1, n) + rand(1, n)
''',
    'scipy_rvs': HEAD + '''
def neg_scipy_rvs(n, seed=None):
    rng = get_rng(seed)
    from scipy import linalg, stats
    return rng.rand(n, n) + stats.uniform.rvs(size=(n, n))
''',
    'matlib_rand': HEAD + '''
import numpy.matlib
def neg_matlib_rand(n, seed=None):
    rng = get_rng(seed)
    return rng.rand(1, n) + np.matlib.rand(1, n).A
''',
    'aliased_bct_import': HEAD + '''
from bct.utils import pick_four_unique_nodes_quickly as p4
def neg_aliased_bct_import(n, seed=None):
    rng = get_rng(seed)
    a, b, c, d = p4(n)
    return rng.rand(1, n) + a
''',
    'zero_arg_seed': HEAD + '''
def neg_zero_arg_seed(n, seed=None):
    rng = get_rng(seed)
    rng.seed()
    return rng.rand(1, n)
''',
    # ---- non-RNG nondeterminism (NonDet)
    'time': HEAD + '''
import time
def neg_time(n, seed=None):
    rng = get_rng(seed)
    return rng.random_sample() + (time.time() % 1e-9)
''',
    'hash_str': HEAD + '''
def neg_hash_str(n, seed=None):
    rng = get_rng(seed)
    return rng.randint(n) + hash(str(n)) % 2
''',
    'id_order': HEAD + '''
def neg_id_order(xs, seed=None):
    rng = get_rng(seed)
    return sorted(xs, key=lambda x: id(x))[rng.randint(len(xs))]
''',
    'np_empty': HEAD + '''
def neg_np_empty(n, seed=None):
    rng = get_rng(seed)
    acc = np.empty((n, n))
    acc[0, 0] = rng.rand()
    return acc
''',
    'os_urandom': HEAD + '''
import os
def neg_os_urandom(n, seed=None):
    rng = get_rng(seed)
    return rng.randint(n) + os.urandom(1)[0]
''',
    'set_order': HEAD + '''
def neg_set_order(names, seed=None):
    rng = get_rng(seed)
    pool = set(names)
    return [x for x in pool][rng.randint(len(names))]
''',
    'set_pop': HEAD + '''
def neg_set_pop(names, seed=None):
    rng = get_rng(seed)
    pool = set(names)
    return pool.pop(), rng.rand()
''',
    'uuid': HEAD + '''
import uuid
def neg_uuid(n, seed=None):
    rng = get_rng(seed)
    return rng.rand(), uuid.uuid4().int
''',
    # ---- callees / names nobody vouched for
    'third_party': HEAD + '''
import sklearn.utils as sku
def neg_third_party(x, seed=None):
    rng = get_rng(seed)
    return sku.shuffle(x), rng.rand()
''',
    'getattr_random': HEAD + '''
def neg_getattr_random(n, seed=None):
    rng = get_rng(seed)
    return getattr(np, 'random').rand(n) + rng.rand(n)
''',
    'unknown_global': HEAD + '''
def neg_unknown_global(n, seed=None):
    rng = get_rng(seed)
    return mystery_source(n) + rng.rand(n)
''',
    'module_rng_object': HEAD + '''
_G = np.random.RandomState(0)
def neg_module_rng_object(n, seed=None):
    rng = get_rng(seed)
    return _G.rand(n) + rng.rand(n)
''',
    'module_level_computed': HEAD + '''
import importlib
_M = importlib.import_module('numpy' + '.rand' + 'om')
def neg_module_level_computed(n, seed=None):
    rng = get_rng(seed)
    return _M.rand(n) + rng.rand(n)
''',
    'rng_method_on_param': HEAD + '''
def neg_rng_method_on_param(n, gen, seed=None):
    rng = get_rng(seed)
    return gen.randint(n) + rng.rand(n)
''',
    'callable_param': HEAD + '''
def neg_callable_param(n, source, seed=None):
    rng = get_rng(seed)
    return source(n) + rng.rand(n)
''',
    'py_random_alias': HEAD + '''
from random import random as rr
def neg_py_random_alias(n, seed=None):
    rng = get_rng(seed)
    return rr() + rng.rand(n)
''',
    'caching_decorator': HEAD + '''
import functools
@functools.lru_cache(maxsize=None)
def neg_caching_decorator(n, seed=None):
    rng = get_rng(seed)
    return rng.rand(n)
''',
    'local_alias': HEAD + '''
def neg_local_alias(n, seed=None):
    rng = get_rng(seed)
    r = np.random
    return r.rand(n) + rng.rand(n)
''',
    'stray_np_random': HEAD + '''
def neg_stray_np_random(n, seed=None):
    rng = get_rng(seed)
    return np.random.rand(1, n) + rng.rand(1, n)
''',
    # ---- discipline
    'reseed_in_loop': HEAD + '''
def neg_reseed_in_loop(n, seed=None):
    out = []
    for i in range(n):
        rng = get_rng(seed)
        out.append(rng.rand())
    return out
''',
    'seed_not_forwarded': HEAD + '''
def neg_seed_not_forwarded(n, seed=None):
    rng = get_rng(seed)
    a, b, c, d = pick_four_unique_nodes_quickly(n)
    return a + rng.randint(n)
''',
    'raw_seed_twice': HEAD + '''
def neg_raw_seed_twice(n, seed=None):
    a = pick_four_unique_nodes_quickly(n, seed)
    b = pick_four_unique_nodes_quickly(n, seed)
    return a, b
''',
    # ---- multiprocessing: the shape of bct.nbs_parallel before its repair (raw seed in every task tuple), an unordered map,
    #      and a task seeded by something the translator cannot trace to the rng
    'pool_raw_seed': HEAD + '''
import multiprocessing
def _task_a(args):
    seed, u, n = args
    rng = get_rng(seed)
    return rng.rand(n)
def neg_pool_raw_seed(n, k, seed=None):
    pool = multiprocessing.Pool(2)
    tasks = [(seed, u, n) for u in range(k)]
    out = pool.map(_task_a, tasks)
    pool.close()
    return out
''',
    'pool_unordered': HEAD + '''
import multiprocessing
def _task_b(args):
    seed, u, n = args
    rng = get_rng(seed)
    return rng.rand(n)
def neg_pool_unordered(n, k, seed=None):
    pool = multiprocessing.Pool(2)
    seeds = get_rng(seed).randint(2**31 - 1, size=k)
    tasks = [(int(seeds[u]), u, n) for u in range(k)]
    return list(pool.imap_unordered(_task_b, tasks))
''',
    'pool_untraced_seed': HEAD + '''
import multiprocessing
def _task_c(args):
    seed, u, n = args
    rng = get_rng(seed)
    return rng.rand(n)
def neg_pool_untraced_seed(n, k, table, seed=None):
    pool = multiprocessing.Pool(2)
    rng = get_rng(seed)
    tasks = [(table[u], u, n) for u in range(k)]
    out = pool.map(_task_c, tasks)
    return out, rng.rand()
''',
    'task_draws_global': HEAD + '''
import multiprocessing
def neg_task_draws_global(args):
    seed, u, n = args
    rng = get_rng(seed)
    return rng.rand(n) + np.random.rand(n)
def drive_task_draws_global(n, k, seed=None):
    pool = multiprocessing.Pool(2)
    seeds = get_rng(seed).randint(2**31 - 1, size=k)
    tasks = [(int(seeds[u]), u, n) for u in range(k)]
    return pool.map(neg_task_draws_global, tasks)
''',
}

# the same shapes WITHOUT the fault: must be accepted (the rejections above are not gratuitous)
CONTROL = {
    'plain': HEAD + '''
from scipy import linalg, stats
import math, itertools
_TABLE = (1, 2, 3)
def ctl_plain(n, seed=None):
    rng = get_rng(seed)
    a, b, c, d = pick_four_unique_nodes_quickly(n, rng)
    pf = stats.norm.pdf(range(1, n), .5, 2.0)
    t = linalg.toeplitz(np.append((0,), pf))
    seen = set()
    seen.add(a)
    if len(seen) > n or a in seen:
        t = t * math.sqrt(2.0) + _TABLE[0]
    for i, j in itertools.product(range(2), range(2)):
        t[i, j] = rng.rand()
    return rng.rand(1, n) + np.zeros((1, n)) + a + sorted(seen)[0], t
''',
    'forwarded_raw_seed': HEAD + '''
def ctl_forwarded_raw_seed(n, seed=None):
    if n < 4:
        raise BCTParamError('too small')
    return pick_four_unique_nodes_quickly(n, seed=seed)
''',
    'pool': HEAD + '''
import multiprocessing
def _task_ok(args):
    seed, u, n = args
    if seed is None:
        seed = u
    rng = get_rng(seed)
    return rng.rand(n)
def ctl_pool(n, k, workers, seed=None):
    if workers == -1:
        workers = multiprocessing.cpu_count()
    pool = multiprocessing.Pool(workers)
    seeds = get_rng(seed).randint(2**31 - 1, size=k)
    tasks = [(int(seeds[u]), u, n) for u in range(k)]
    out = pool.map(_task_ok, tasks)
    pool.close()
    pool.join()
    return out
''',
}

PKG = '_c05corpus'


def modules():
    """{module name relative to bct: source}"""
    out = {}
    for k, src in NEGATIVE.items():
        out['%s.neg_%s' % (PKG, k)] = src
    for k, src in CONTROL.items():
        out['%s.ctl_%s' % (PKG, k)] = src
    return out


def entry_points():
    neg = ['%s.neg_%s.neg_%s' % (PKG, k, k) for k in NEGATIVE]
    ctl = ['%s.ctl_%s.ctl_%s' % (PKG, k, k) for k in CONTROL]
    return neg, ctl
