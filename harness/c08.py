"""C08 — betweenness counts exactly the shortest paths through each node and connection."""
import itertools, heapq, contextlib
from fractions import Fraction as F
import numpy as np
from common import *

ID = 'C08'
COQ_FILES = ['Base/Mat.v', 'Base/SumQ.v', 'Base/ListX.v', 'Model/Between.v', 'Model/BetweenQ.v', 'Proofs/BetweenAccum.v',
             'Proofs/BetweenReady.v', 'Proofs/BetweenQueue.v', 'Proofs/BetweenBin.v', 'Proofs/BetweenSpec.v', 'Proofs/BetweenPaths.v',
             'Proofs/BetweenTight.v', 'Proofs/BetweenLast.v', 'Proofs/BetweenCount.v', 'Proofs/BetweenFull.v',
             'Proofs/BetweenBfs.v', 'Proofs/BetweenPow.v', 'Proofs/BetweenScale.v', 'Proofs/BetweenCorol.v', 'Proofs/BetweenRat.v',
             'Properties/C08.v']
THEOREMS = ['C08_spec_enumeration_faithful', 'C08_dist_spec_correct', 'C08_shortest_walks_simple',
            'C08_bin_sum_BC', 'C08_bin_sum_EBC', 'C08_brandes_accumulation', 'C08_brandes_accumulation_node',
            'C08_dag_counts_exist', 'C08_queue_slots_wei', 'C08_queue_slots_bin',
            'C08_spec_last_connection', 'C08_sigma_last_connection', 'C08_search_wei_correct', 'C08_search_bin_correct',
            'C08_pairsums_to_spec', 'C08_bc_wei_correct', 'C08_ebc_wei_correct', 'C08_ebc_bin_correct',
            'C08_matrix_power_counts', 'C08_bc_bin_forward', 'C08_bc_bin_back_pass', 'C08_bc_bin_correct',
            'C08_bc_correct', 'C08_ebc_node_vector_eq_bc_bin', 'C08_wei_eq_bin_on_binary',
            'C08_spec_scale_invariant', 'C08_wei_scale_invariant',
            'C08_ebc_node_vector_eq_bc_wei',
            'C08_bin_sum_routines', 'C08_ebc_bin_ignores_weights', 'C08_bc_bin_weighted_refuted',
            'C08_weiQ_reduce', 'C08_weiQ_of_fraction', 'C08_bc_weiQ_correct', 'C08_weiQ_scale_invariant']
RULE = ('every labelled digraph on n<=3 nodes (n<=4 thorough, a random slice of n=4 in quick), every labelled undirected '
        'graph on n<=4 nodes (n<=5 thorough, a slice of n=5 in quick); random directed / undirected graphs n=2..7 with '
        'integer connection lengths drawn from {1,2,3} or {1,2} (many exact ties between alternative routes) at densities '
        '0.15-0.9; structured families: rings, stars, paths, complete, complete bipartite, grids, directed cycles with '
        'chords, trees plus chords, disjoint unions, graphs with isolated nodes, graphs with self-connections; the same '
        'families with NEAR-TIE dyadic lengths (integers in {1,2,3} * 2^20 or 2^30, perturbed by +-1..3 units and scaled by '
        '2^-20 / 2^-30: alternative routes differing by 1e-6..1e-9 relative beside exact ties) and with all lengths on a '
        '2^-30 scale (model and oracle run on the integer numerators - betweenness is scale invariant). Each graph '
        'is fed to the four routines (binary routines on the 0/1 pattern, weighted routines on the length matrix and on '
        'the 0/1 pattern). non-trivial = at least one ordered pair at distance >= 2 hops (some node lies strictly between '
        'two others); distinct by hash of (length matrix). Added: lengths that are NOT dyadic rationals (k/10, 0.7, 1/3 ... on the '
        'same families; layered graphs whose length depends on the layer only, so that tied routes add the same doubles in the '
        'same order), read on the exact rational values of the doubles and classified by an oracle that replays binary64 route '
        'sums (ties exact in binary64 -> usual keys + rational-length model; rounding changes the ties -> recorded finding keys); '
        'oracle-only graphs with n = 12..36 (random sparse/dense, grids to 6x6, rings / trees with chords, unions, isolated nodes, '
        'layered), layered graphs 11 x 7 (path counts > 2^24 for many pairs), a shuffled path on 129..140 nodes (closed form); the '
        'same networks as int64 / int32 / int8 / uint8 / bool / float32 arrays; matrices that are not 0/1 through the binary '
        'routines (against the models only). STRESS FAMILIES (oracle only: Brandes recursion with Python-int path counts and Fraction dependencies, '
        'compared with the pair-counting oracle on a small member of each family in every run): braids - end node, 41..50 layers of 3 or 63..70 layers of 2 nodes, end node, '
        'consecutive layers completely connected, one-way or both ways, unit or per-layer lengths 1..3, labels permuted, n = 125..142, 3^41 / 2^63 and more shortest routes '
        'between the ends (beyond int64) - one per quick run; thorough tier = escalated pass on a changed tree (run FIRST there): eleven of them + braids beyond 2^31 / 2^32 / 2^53 '
        '(3 x 20..33, 2 x 32..52, 4 x 16..26) + grids 8x8..10x10; all four routines, the node-vector and sum identities, the weighted routines on the 0/1 pattern; float path counts are '
        'compared at 1e-9 at any magnitude (additions of positive terms only). K50 + chain of 183 (connected, n = 233, labels permuted) through betweenness_bin and edge_betweenness_bin in every run: the number of ALL walks of length d leaves '
        'binary64 there ((k-1)^d), the routine extends minimum-length walks only (`NPd = np.dot(NSPd, G)`) and must return the exact-integer oracle\'s values within 15 s.')
ASSUMES = ['connection lengths are small positive integers or integers < 2^33 times 2^-20 / 2^-30 (dyadic): every sum / '
           'comparison of lengths and every path count the model treats as exact is exact in binary64; quotients are '
           'compared with tolerance 1e-9',
           'the weighted routines are given a LENGTH matrix (as documented), 0 = no connection',
           'decimal families: the property is read on the lengths as given in binary64 (exact rational values of the doubles); '
           'where binary64 route sums separate or merge exactly tied routes the routines are KNOWN to return the betweenness of '
           'the rounded sums (open finding, keys *[rounded-lengths]:tie), recognised by an independent oracle that replays those sums',
           'path counts: below 2^53 in the main stream and wherever a model line is run (graphs whose counts exceed that are not compared there); the stress families go to '
           '2^63 and beyond against the exact-integer oracle at tolerance 1e-9 - the float routines only add and multiply positive path counts, so their relative error stays ~1e-14',
           'betweenness_bin: NPd = NSPd . G (minimum-length walks extended by one connection) is an exact integer in the model and binary64 in the code; its entries are bounded by '
           '(maximum degree) x (largest number of minimum-length walks), i.e. they stay in range wherever the path counts do (clique + long chain: judged in every run)']
TRUSTED = ['bc_correct for the four routines (model output = BC_spec / EBC_spec) IS a theorem about the Gallina models '
           '(C08_bc_correct); that the models follow the Python code statement by statement is established by the '
           'differential correspondence (sampling), including the per-source search state (Q, q, NP, D, P) of the '
           'Brandes-style routines']

TOL = 1e-9


# ---------------------------------------------------------------- independent oracles (exact Fractions)
def floyd(L):
    n = len(L)
    d = [[0 if i == j else (int(L[i][j]) if (L[i][j] and i != j) else None) for j in range(n)] for i in range(n)]
    for k in range(n):
        for i in range(n):
            if d[i][k] is None:
                continue
            for j in range(n):
                if d[k][j] is None:
                    continue
                x = d[i][k] + d[k][j]
                if d[i][j] is None or x < d[i][j]:
                    d[i][j] = x
    return d


def oracle_dag(L):
    """enumerate every shortest path by depth-first search over the shortest-path DAG; each path adds 1/total to every
    interior node and to every connection it uses"""
    n = len(L)
    d = floyd(L)
    BC = [F(0)] * n
    EBC = [[F(0)] * n for _ in range(n)]
    for s in range(n):
        for t in range(n):
            if s == t or d[s][t] is None:
                continue
            paths = []
            path = [s]

            def dfs(a):
                if a == t:
                    paths.append(list(path))
                    return
                for b in range(n):
                    if b != a and L[a][b] and d[b][t] is not None and d[s][a] + int(L[a][b]) + d[b][t] == d[s][t]:
                        path.append(b)
                        dfs(b)
                        path.pop()
            dfs(s)
            tot = len(paths)
            for p in paths:
                for v in p[1:-1]:
                    BC[v] += F(1, tot)
                for a, b in zip(p, p[1:]):
                    EBC[a][b] += F(1, tot)
    return BC, EBC, d


def oracle_simple(L):
    """no distances at all: enumerate every simple path, keep the minimum-length ones (n <= 5)"""
    n = len(L)
    BC = [F(0)] * n
    EBC = [[F(0)] * n for _ in range(n)]
    for s in range(n):
        for t in range(n):
            if s == t:
                continue
            best, paths = None, []
            for k in range(0, n - 1):
                for mid in itertools.permutations([v for v in range(n) if v != s and v != t], k):
                    p = (s,) + mid + (t,)
                    if all(L[a][b] for a, b in zip(p, p[1:])):
                        ln = sum(int(L[a][b]) for a, b in zip(p, p[1:]))
                        if best is None or ln < best:
                            best, paths = ln, [p]
                        elif ln == best:
                            paths.append(p)
            for p in paths:
                for v in p[1:-1]:
                    BC[v] += F(1, len(paths))
                for a, b in zip(p, p[1:]):
                    EBC[a][b] += F(1, len(paths))
    return BC, EBC


def close_vec(fr, x):
    x = np.asarray(x, dtype=float).ravel()
    if len(fr) != len(x):
        return False
    return all(np.isfinite(b) and abs(float(a) - b) <= TOL * max(1.0, abs(float(a))) for a, b in zip(fr, x))


def close_mat(fr, X):
    X = np.asarray(X, dtype=float)
    n = len(fr)
    if X.shape != (n, n):
        return False
    return all(close_vec(fr[i], X[i]) for i in range(n))


# ---------------------------------------------------------------- polynomial pair-counting oracle (any n)
def oracle_pairs(Lx, zero=0):
    """BC / EBC by the textbook pair formula, NOT by dependency accumulation and without enumerating paths:
    for every source s: distances (O(n^2) Dijkstra), the tight connections v->w (D[v] + len == D[w]), sigma_s[w] by
    summing over tight predecessors in order of distance; for every target t: c[v] = number of tight routes v -> t
    (backwards from t); node v strictly between s and t gets sigma_s[v]*c[v]/sigma_s[t], the tight connection v->w gets
    sigma_s[v]*c[w]/sigma_s[t].  All counts are Python ints, values Fractions.
    Lx[i][j]: None = no connection, otherwise the length.  ints / Fractions: exact lengths.  Python floats: the length of
    a route is its left-to-right binary64 sum and two routes tie when those sums are the same double (what a routine
    that accumulates D[v] + G[v,w] in binary64 decides) - used only to recognise the known rounding finding.
    -> (BC, EBC, D per source, largest path count)"""
    n = len(Lx)
    adj = [[(w, Lx[v][w]) for w in range(n) if w != v and Lx[v][w] is not None] for v in range(n)]
    BC = [F(0)] * n
    EBC = [[F(0)] * n for _ in range(n)]
    Dall, maxsig = [], 0
    for s in range(n):
        D = [None] * n
        D[s] = zero
        done = [False] * n
        order = []
        for _ in range(n):
            v = None
            for x in range(n):
                if not done[x] and D[x] is not None and (v is None or D[x] < D[v]):
                    v = x
            if v is None:
                break
            done[v] = True
            order.append(v)
            for w, l in adj[v]:
                if not done[w]:
                    x = D[v] + l
                    if D[w] is None or x < D[w]:
                        D[w] = x
        Dall.append(D)
        preds = [[] for _ in range(n)]
        for v in order:
            for w, l in adj[v]:
                if D[w] is not None and D[v] < D[w] and D[v] + l == D[w]:
                    preds[w].append(v)
        sig = [0] * n
        sig[s] = 1
        for w in order[1:]:
            sig[w] = sum(sig[v] for v in preds[w])
        maxsig = max(maxsig, max(sig))
        for pos in range(1, len(order)):
            t = order[pos]
            c = {t: 1}
            st = sig[t]
            for w in reversed(order[1:pos + 1]):
                cw = c.get(w)
                if not cw:
                    continue
                if w != t:
                    BC[w] += F(sig[w] * cw, st)
                for v in preds[w]:
                    c[v] = c.get(v, 0) + cw
                    EBC[v][w] += F(sig[v] * cw, st)
    return BC, EBC, Dall, maxsig


def to_lx(L, conv=int):
    n = len(L)
    return [[conv(L[i][j]) if (L[i][j] and i != j) else None for j in range(n)] for i in range(n)]


def enc_qb(x):
    """exact rational for the OCaml reader: binary numerals (decimal ints beyond 2^62 overflow there; zero is '0')"""
    x = F(x)
    if x == 0:
        return '0'
    a = ('-0b' if x < 0 else '0b') + bin(abs(x.numerator))[2:]
    return a if x.denominator == 1 else a + '/0b' + bin(x.denominator)[2:]


# ---------------------------------------------------------------- generators (integer length matrices)
def und(M):
    M = np.triu(M, 1)
    return M + M.T


def g_random(r, n, directed, vals, dens):
    A = (r.rand(n, n) < dens).astype(int) * r.choice(vals, size=(n, n))
    np.fill_diagonal(A, 0)
    return A if directed else und(A)


def g_ring(r, n, directed, vals):
    A = np.zeros((n, n), dtype=int)
    for i in range(n):
        A[i, (i + 1) % n] = r.choice(vals)
        if not directed:
            A[(i + 1) % n, i] = A[i, (i + 1) % n]
    if n == 2 and not directed:
        A[1, 0] = A[0, 1]
    np.fill_diagonal(A, 0)
    return A


def g_cycle_chords(r, n, vals):
    A = g_ring(r, n, True, vals)
    for _ in range(int(r.randint(1, n + 1))):
        i, j = int(r.randint(0, n)), int(r.randint(0, n))
        if i != j:
            A[i, j] = r.choice(vals)
    return A


def g_star(r, n, vals):
    A = np.zeros((n, n), dtype=int)
    h = int(r.randint(0, n))
    for v in range(n):
        if v != h:
            A[h, v] = A[v, h] = r.choice(vals)
    return A


def g_path(r, n, directed, vals):
    A = np.zeros((n, n), dtype=int)
    order = list(r.permutation(n))
    for a, b in zip(order, order[1:]):
        A[a, b] = r.choice(vals)
        if not directed:
            A[b, a] = A[a, b]
    return A


def g_complete(r, n, vals):
    A = und(r.choice(vals, size=(n, n)))
    return A


def g_bipartite(r, n, vals):
    k = int(r.randint(1, n))
    A = np.zeros((n, n), dtype=int)
    for i in range(k):
        for j in range(k, n):
            A[i, j] = A[j, i] = r.choice(vals)
    return A


def g_grid(r, n, vals):
    w = 2 if n < 6 else int(r.choice([2, 3]))
    A = np.zeros((n, n), dtype=int)
    for v in range(n):
        x, y = v % w, v // w
        for u in (v + 1 if x + 1 < w else None, v + w):
            if u is not None and u < n:
                A[v, u] = A[u, v] = r.choice(vals)
    return A


def g_tree_chords(r, n, vals):
    A = np.zeros((n, n), dtype=int)
    order = list(r.permutation(n))
    for k in range(1, n):
        a, b = order[k], order[int(r.randint(0, k))]
        A[a, b] = A[b, a] = r.choice(vals)
    for _ in range(int(r.randint(0, 3))):
        i, j = int(r.randint(0, n)), int(r.randint(0, n))
        if i != j:
            A[i, j] = A[j, i] = r.choice(vals)
    return A


def g_union(r, n, vals):
    k = int(r.randint(1, n))
    A = np.zeros((n, n), dtype=int)
    A[:k, :k] = g_random(r, k, r.rand() < 0.5, vals, 0.7)
    A[k:, k:] = g_random(r, n - k, r.rand() < 0.5, vals, 0.7)
    p = r.permutation(n)
    return A[np.ix_(p, p)]


def g_isolated(r, n, vals):
    A = g_random(r, n, r.rand() < 0.5, vals, 0.6)
    for v in r.permutation(n)[:int(r.randint(1, max(2, n // 2 + 1)))]:
        A[v, :] = 0
        A[:, v] = 0
    return A


def g_selfloops(r, n, vals):
    A = g_random(r, n, r.rand() < 0.5, vals, 0.5)
    for v in range(n):
        if r.rand() < 0.5:
            A[v, v] = r.choice(vals)
    return A


def random_graph(ctx):
    r = ctx.nprng
    n = int(r.randint(2, 8))
    vals = [[1, 2, 3], [1, 2], [1], [1, 1, 2], [2, 3]][int(r.randint(0, 5))]
    fam = int(r.randint(0, 14))
    if fam <= 2:
        dens = float(r.choice([0.15, 0.3, 0.5, 0.7, 0.9]))
        directed = bool(r.rand() < 0.5)
        return ('er_dir' if directed else 'er_und'), g_random(r, n, directed, vals, dens)
    if fam == 3:
        d = bool(r.rand() < 0.5)
        return ('ring_dir' if d else 'ring_und'), g_ring(r, n, d, vals)
    if fam == 4:
        return 'cycle_chords', g_cycle_chords(r, n, vals)
    if fam == 5:
        return 'star', g_star(r, n, vals)
    if fam == 6:
        d = bool(r.rand() < 0.5)
        return ('path_dir' if d else 'path_und'), g_path(r, n, d, vals)
    if fam == 7:
        return 'complete', g_complete(r, n, vals)
    if fam == 8:
        return 'bipartite', g_bipartite(r, n, vals)
    if fam == 9:
        return 'grid', g_grid(r, n, vals)
    if fam == 10:
        return 'tree_chords', g_tree_chords(r, n, vals)
    if fam == 11:
        return 'union', g_union(r, n, vals)
    if fam == 12:
        return 'isolated', g_isolated(r, n, vals)
    return 'selfloops', g_selfloops(r, n, vals)


def near_tie_graph(ctx):
    """lengths = (base in {1,2,3}) * 2**k + tiny integer perturbations, to be scaled by 2**-k: alternative routes that
    differ by ~1e-6 / ~1e-9 relative (NOT ties) next to exact ties; or all lengths on a 2**-30 scale (every difference
    below 1e-8 absolute).  Returns (family, integer matrix, scale_pow)."""
    r = ctx.nprng
    kind = int(r.randint(0, 4))
    fam, B = random_graph(ctx)
    B = np.asarray(B, dtype=np.int64)
    if kind == 0:                                  # everything on a tiny scale, exact ties kept
        return 'tinyscale_' + fam, B, -30
    k = 20 if kind in (1, 2) else 30
    L = B * (1 << k)
    sym = bool(np.array_equal(B, B.T))
    n = len(B)
    for i in range(n):
        for j in range(n):
            if B[i, j] and (not sym or i < j) and r.rand() < 0.45:
                L[i, j] += int(r.choice([1, -1, 2, 3]))
                if sym:
                    L[j, i] = L[i, j]
    return 'neartie%d_' % k + fam, L, -k


def near_tie_square(eps_num, k):
    """square 0-1-3 / 0-2-3 with lengths 1,1 / 1,1+eps"""
    one = 1 << k
    L = np.zeros((4, 4), dtype=np.int64)
    for a, b, w in ((0, 1, one), (1, 3, one), (0, 2, one), (2, 3, one + eps_num)):
        L[a, b] = L[b, a] = w
    return L


# ---------------------------------------------------------------- larger graphs (oracle_pairs only, no model lines)
def g_grid_wh(r, w, h, vals):
    n = w * h
    A = np.zeros((n, n), dtype=int)
    for y in range(h):
        for x in range(w):
            v = y * w + x
            if x + 1 < w:
                A[v, v + 1] = A[v + 1, v] = r.choice(vals)
            if y + 1 < h:
                A[v, v + w] = A[v + w, v] = r.choice(vals)
    return A


def g_layered(r, widths, directed, lens=None, ends=True):
    """(source -) layers of the given widths (complete bipartite between consecutive layers) (- sink); the length of a
    connection depends on its layer only (lens[k], default 1), so that every route between two nodes has the same
    length: path counts multiply (7^9 > 2^24 between layers ten apart).  Node labels are shuffled."""
    layers, n = [], 0
    for wd in ([1] + list(widths) + [1] if ends else list(widths)):
        layers.append(list(range(n, n + wd)))
        n += wd
    A = np.zeros((n, n), dtype=object if lens is not None and not all(float(x).is_integer() for x in lens) else int)
    for k, (la, lb) in enumerate(zip(layers, layers[1:])):
        for a in la:
            for b in lb:
                A[a, b] = 1 if lens is None else lens[k]
                if not directed:
                    A[b, a] = A[a, b]
    p = r.permutation(n)
    return A[np.ix_(p, p)]


def big_graph(ctx):
    """-> (family, integer length matrix) with n = 12..36: path counts beyond 127 (int8) on grids / dense binary graphs"""
    r = ctx.nprng
    k = int(r.randint(0, 8))
    vals = [[1], [1, 2, 3], [1, 2], [1]][int(r.randint(0, 4))]
    if k <= 1:
        n = int(r.choice([12, 16, 20, 24, 30]))
        d = bool(r.rand() < 0.5)
        return ('big_er_dir' if d else 'big_er_und'), g_random(r, n, d, vals, float(r.choice([0.08, 0.15, 0.3, 0.6])))
    if k == 2:
        w, h = [(6, 6), (5, 6), (4, 7), (3, 10), (6, 5)][int(r.randint(0, 5))]
        return 'big_grid', g_grid_wh(r, w, h, [1] if r.rand() < 0.7 else vals)
    if k == 3:
        n = int(r.randint(12, 31))
        return 'big_ring_chords', (g_cycle_chords(r, n, vals) if r.rand() < 0.5 else und(g_cycle_chords(r, n, vals)))
    if k == 4:
        n = int(r.randint(12, 31))
        return 'big_tree_chords', g_tree_chords(r, n, vals)
    if k == 5:
        n = int(r.randint(12, 25))
        return 'big_union', g_union(r, n, vals)
    if k == 6:
        n = int(r.randint(12, 25))
        return 'big_isolated', g_isolated(r, n, vals)
    widths = [int(r.choice([2, 3, 4])) for _ in range(int(r.randint(3, 8)))]
    return 'big_layered', g_layered(r, widths, bool(r.rand() < 0.5))


# ---------------------------------------------------------------- stress families: path counts beyond 2^31 / 2^53 / 2^63 (oracle only)
def brandes_exact(Lx):
    """BC / EBC with path counts as Python ints and dependencies as Fractions (no rounding, no wrap-around, any magnitude):
    per source a heap Dijkstra on the exact lengths, sigma by summing over tight predecessors in order of distance, then
    the dependency recursion delta[v] = sum over tight v->w of sigma[v]/sigma[w] * (1 + delta[w]) from the far end back.
    O(n * m) Fraction operations - cheap where oracle_pairs (O(n^2 * m)) is not; the two are compared on a small member
    of each family in every run (`stress_selftest`).  -> (BC, EBC, D per source, largest path count)"""
    n = len(Lx)
    adj = [[(w, Lx[v][w]) for w in range(n) if w != v and Lx[v][w] is not None] for v in range(n)]
    BC = [F(0)] * n
    EBC = [[F(0)] * n for _ in range(n)]
    Dall, maxsig = [], 0
    for s in range(n):
        D = [None] * n
        D[s] = 0
        done = [False] * n
        order = []
        heap = [(0, s)]
        while heap:
            dv, v = heapq.heappop(heap)
            if done[v]:
                continue
            done[v] = True
            order.append(v)
            for w, l in adj[v]:
                if not done[w]:
                    x = dv + l
                    if D[w] is None or x < D[w]:
                        D[w] = x
                        heapq.heappush(heap, (x, w))
        Dall.append(D)
        preds = [[] for _ in range(n)]
        for v in order:
            for w, l in adj[v]:
                if D[w] is not None and D[v] < D[w] and D[v] + l == D[w]:
                    preds[w].append(v)
        sig = [0] * n
        sig[s] = 1
        for w in order[1:]:
            sig[w] = sum(sig[v] for v in preds[w])
        maxsig = max(maxsig, max(sig))
        delta = [F(0)] * n
        for w in reversed(order[1:]):
            f = (1 + delta[w]) / sig[w]
            for v in preds[w]:
                c = sig[v] * f
                EBC[v][w] += c
                delta[v] += c
            BC[w] += delta[w]
    return BC, EBC, Dall, maxsig


def g_braid(r, width, layers, directed, lens=None):
    """end node - `layers` layers of `width` nodes, consecutive layers completely connected - end node; the length of a
    connection depends on its layer only (lens[k], default 1): every route between two nodes has the same length and the
    number of shortest routes between the two ends is width**layers.  -> (integer length matrix, node permutation)"""
    L_, n = [], 0
    for wd in [1] + [width] * layers + [1]:
        L_.append(list(range(n, n + wd)))
        n += wd
    A = np.zeros((n, n), dtype=np.int64)
    for k, (la, lb) in enumerate(zip(L_, L_[1:])):
        for a in la:
            for b in lb:
                A[a, b] = 1 if lens is None else lens[k]
                if not directed:
                    A[b, a] = A[a, b]
    p = [int(x) for x in r.permutation(n)]
    return A[np.ix_(p, p)], p


BRAID_HOW = ('layers = [1] + [width]*layers + [1] nodes, numbered consecutively; every node of layer k is connected to every node of '
             'layer k+1 with length lens[k] (1 when lens is None), in both directions unless directed; L = L[ix_(perm, perm)]')


# ---------------------------------------------------------------- decimal (non-dyadic) lengths
DECIMALS = [0.1, 0.2, 0.3, 0.7, 0.9, 1.1, 1.0 / 3.0, 0.6]
TIE_KEY_N = 'betweenness_wei[rounded-lengths]:tie'
TIE_KEY_E = 'edge_betweenness_wei[rounded-lengths]:tie'


def rounding_witness():
    """two routes 0->5 made of the SAME three binary64 lengths in opposite order: (.1+.2)+.3 = 0.6000000000000001, (.3+.2)+.1 = 0.6"""
    G = np.zeros((6, 6))
    G[0, 1], G[1, 2], G[2, 5] = .1, .2, .3
    G[0, 3], G[3, 4], G[4, 5] = .3, .2, .1
    return G


def decimal_graph(ctx):
    """-> (family, float matrix): lengths k/10 (k = 1..3 or 1..9) or from DECIMALS on the structured families, or layered
    graphs whose length depends on the layer only (all tied routes add the same doubles in the same order: the ties are
    exact in binary64 although no length is a dyadic rational)"""
    r = ctx.nprng
    k = int(r.randint(0, 4))
    if k == 0:
        widths = [int(r.choice([1, 2, 3])) for _ in range(int(r.randint(1, 4)))]
        lens = [float(r.choice(DECIMALS)) for _ in range(len(widths) + 1)]
        return 'decimal_layered', np.array(g_layered(r, widths, bool(r.rand() < 0.5), lens), dtype=float)
    fam, B = random_graph(ctx)
    B = np.asarray(B, dtype=float)
    if k == 1:
        return 'tenths_' + fam, B / 10.0                     # {.1,.2,.3}: .1+.2 != .3 in binary64, (.1+.2)+.3 != (.3+.2)+.1
    if k == 2:
        T = np.array([0.0] + [float(r.choice(DECIMALS)) for _ in range(3)])
        return 'decimal_' + fam, T[B.astype(int)]
    M = (B != 0) * r.randint(1, 10, size=B.shape)
    if np.array_equal(B, B.T):
        M = und(M)
    return 'tenths9_' + fam, M / 10.0


def all_digraphs(n):
    cells = [(i, j) for i in range(n) for j in range(n) if i != j]
    for bits in range(1 << len(cells)):
        A = np.zeros((n, n), dtype=int)
        for k, (i, j) in enumerate(cells):
            if bits >> k & 1:
                A[i, j] = 1
        yield A


def all_graphs(n):
    cells = [(i, j) for i in range(n) for j in range(i + 1, n)]
    for bits in range(1 << len(cells)):
        A = np.zeros((n, n), dtype=int)
        for k, (i, j) in enumerate(cells):
            if bits >> k & 1:
                A[i, j] = A[j, i] = 1
        yield A


# ---------------------------------------------------------------- one graph through everything
class Runner:
    def __init__(self, ctx, bct):
        self.ctx, self.bct = ctx, bct
        self.lines, self.pend = [], []
        self.seen = set()
        self.timeouts = {}          # routine -> number of calls that did not terminate

    def impl(self, f, M, key, case, scale_pow=0, raw=False, t=10.0):
        if self.timeouts.get(key, 0) >= 3:
            return None             # this routine hangs (reported three times with concrete inputs): stop calling it
        try:
            # lengths = integers * 2**scale_pow: exact in binary64 (numerators < 2**40, sums of <= 7 of them < 2**53)
            # raw: the array exactly as built (its own dtype / its own binary64 values), a private copy
            r = call(f, (M.copy() if raw else M.astype(float) * (2.0 ** scale_pow)), _t=t)
            tie_variants(case)          # input-representation layer: the model comparison of this case is batched and comes later
            return r
        except Timeout:
            self.timeouts[key] = self.timeouts.get(key, 0) + 1
            self.ctx.fail(key + ':raises', 'does not terminate within %g s' % t, case)
        except Exception as e:
            self.ctx.fail(key + ':raises', 'raised %r' % (e,), case)
        return None

    def graph(self, L, fam, spec=False, scale_pow=0):
        """L: integer length matrix (numerators); the weighted routines are given L * 2**scale_pow (dyadic, exact in
        binary64), the model and the oracle run on the integer numerators (betweenness is invariant under scaling all
        lengths by a positive constant: C08_spec_scale_invariant)"""
        ctx, bct = self.ctx, self.bct
        L = np.asarray(L, dtype=np.int64)
        n = len(L)
        h = jhash([L.tolist(), scale_pow])
        if h in self.seen:
            return
        self.seen.add(h)
        A = (L != 0).astype(int)
        binary = bool(np.array_equal(A, L))
        ctx.count('family:' + fam)
        ctx.count('n=%d' % n)
        BCb, EBCb, Db = oracle_dag(A.tolist())
        if binary:
            BCw, EBCw, Dw = BCb, EBCb, Db
        else:
            BCw, EBCw, Dw = oracle_dag(L.tolist())
        if n <= 5 and (n <= 4 or ctx.rng.random() < 0.25):
            for M, (b, e) in ((A, (BCb, EBCb)), (L, (BCw, EBCw))):
                b2, e2 = oracle_simple(M.tolist())
                if b2 != b or e2 != e:
                    ctx.errors.append('the two oracles disagree on %r' % (M.tolist(),))
        if ctx.rng.random() < 0.25:
            for M, (b, e) in ((A, (BCb, EBCb)), (L, (BCw, EBCw))):
                b3, e3 = oracle_pairs(to_lx(M.tolist()))[:2]
                if b3 != b or e3 != e:
                    ctx.errors.append('oracle_pairs and oracle_dag disagree on %r' % (M.tolist(),))
        reach = [(s, t) for s in range(n) for t in range(n) if s != t and Db[s][t] is not None]
        nontriv = any(Db[s][t] >= 2 for s, t in reach)
        ctx.count('connected' if len(reach) == n * n - n else 'disconnected')
        if any(not A[v].any() and not A[:, v].any() for v in range(n)):
            ctx.count('has_isolated_node')
        ties = sum(1 for x in np.asarray(BCw if not binary else BCb) if x.denominator != 1)
        if ties:
            ctx.count('has_fractional_bc(ties)')

        # ---- binary routines on the 0/1 pattern
        case = {'fn': 'betweenness_bin', 'G': A.tolist()}
        ctx.case(case, nontrivial=nontriv)
        bc = self.impl(bct.betweenness_bin, A, 'betweenness_bin', case)
        if bc is not None:
            ctx.check(close_vec(BCb, bc), 'betweenness_bin:value',
                      'node betweenness differs from the enumeration of all shortest paths: got %s want %s' % (np.asarray(bc).tolist(), [str(x) for x in BCb]), case)
            want = sum(Db[s][t] - 1 for s, t in reach)
            ctx.check(abs(float(np.sum(bc)) - want) <= TOL * max(1, want), 'betweenness_bin:sum_identity',
                      'sum of node values %r is not sum(distance-1)=%d over reachable ordered pairs' % (float(np.sum(bc)), want), case)
        self.lines.append('bc_bin ' + enc_mat(A.tolist())); self.pend.append(('bc', 'betweenness_bin', case, bc))

        case = {'fn': 'edge_betweenness_bin', 'G': A.tolist()}
        ctx.case(case, nontrivial=nontriv)
        r = self.impl(bct.edge_betweenness_bin, A, 'edge_betweenness_bin', case)
        if r is not None:
            ebc, bc2 = r
            ctx.check(close_mat(EBCb, ebc), 'edge_betweenness_bin:ebc',
                      'connection betweenness differs from the enumeration of all shortest paths: got %s want %s' % (np.asarray(ebc).tolist(), [[str(x) for x in row] for row in EBCb]), case)
            ctx.check(close_vec(BCb, bc2), 'edge_betweenness_bin:bc',
                      'node vector differs from the enumeration: got %s want %s' % (np.asarray(bc2).tolist(), [str(x) for x in BCb]), case)
            if bc is not None:
                ctx.check(np.allclose(bc2, bc, rtol=TOL, atol=TOL), 'edge_betweenness_bin:node_vector',
                          'node vector %s differs from betweenness_bin %s' % (np.asarray(bc2).tolist(), np.asarray(bc).tolist()), case)
            want = sum(Db[s][t] for s, t in reach)
            ctx.check(abs(float(np.sum(ebc)) - want) <= TOL * max(1, want), 'edge_betweenness_bin:sum_identity',
                      'sum of connection values %r is not sum(distance)=%d over reachable ordered pairs' % (float(np.sum(ebc)), want), case)
            ctx.check(bool(np.all((np.asarray(ebc) == 0) | (A != 0))), 'edge_betweenness_bin:support',
                      'a non-connection has a nonzero value', case)
        self.lines.append('ebc_bin ' + enc_mat(A.tolist())); self.pend.append(('ebc', 'edge_betweenness_bin', case, r))
        bin_bc, bin_ebc = bc, r

        # ---- weighted routines on the length matrix (and, if that has other lengths, on the pattern as well)
        for M, (BCo, EBCo), tag in ([(L, (BCw, EBCw), 'len')] + ([] if binary else [(A, (BCb, EBCb), 'pattern')])):
            sp = scale_pow if tag == 'len' else 0
            case = {'fn': 'betweenness_wei', 'G': M.tolist(), 'scale_pow2': sp}
            ctx.case(case, nontrivial=nontriv)
            bcw = self.impl(bct.betweenness_wei, M, 'betweenness_wei', case, sp)
            if bcw is not None:
                ctx.check(close_vec(BCo, bcw), 'betweenness_wei:value',
                          'node betweenness differs from the enumeration of all shortest paths: got %s want %s' % (np.asarray(bcw).tolist(), [str(x) for x in BCo]), case)
            case2 = {'fn': 'edge_betweenness_wei', 'G': M.tolist(), 'scale_pow2': sp}
            ctx.case(case2, nontrivial=nontriv)
            r = self.impl(bct.edge_betweenness_wei, M, 'edge_betweenness_wei', case2, sp)
            if r is not None:
                ebc, bc2 = r
                ctx.check(close_mat(EBCo, ebc), 'edge_betweenness_wei:ebc',
                          'connection betweenness differs from the enumeration of all shortest paths: got %s want %s' % (np.asarray(ebc).tolist(), [[str(x) for x in row] for row in EBCo]), case2)
                ctx.check(close_vec(BCo, bc2), 'edge_betweenness_wei:bc',
                          'node vector differs from the enumeration: got %s want %s' % (np.asarray(bc2).tolist(), [str(x) for x in BCo]), case2)
                if bcw is not None:
                    ctx.check(np.allclose(bc2, bcw, rtol=TOL, atol=TOL), 'edge_betweenness_wei:node_vector',
                              'node vector %s differs from betweenness_wei %s' % (np.asarray(bc2).tolist(), np.asarray(bcw).tolist()), case2)
                if tag == 'pattern' or binary:
                    # C08_wei_eq_bin_on_binary: on a 0/1 matrix the weighted routines return what the binary routines return
                    if bin_ebc is not None:
                        ctx.check(np.allclose(ebc, bin_ebc[0], rtol=TOL, atol=TOL) and np.allclose(bc2, bin_ebc[1], rtol=TOL, atol=TOL),
                                  'edge_betweenness_wei:eq_bin_on_binary',
                                  '0/1 matrix: edge_betweenness_wei %s differs from edge_betweenness_bin %s' % (tolist(r), tolist(bin_ebc)), case2)
                    if bin_bc is not None and bcw is not None:
                        ctx.check(np.allclose(bcw, bin_bc, rtol=TOL, atol=TOL), 'betweenness_wei:eq_bin_on_binary',
                                  '0/1 matrix: betweenness_wei %s differs from betweenness_bin %s' % (np.asarray(bcw).tolist(), np.asarray(bin_bc).tolist()), case)
                    want = sum(Db[s][t] for s, t in reach)
                    ctx.check(abs(float(np.sum(ebc)) - want) <= TOL * max(1, want), 'edge_betweenness_wei:sum_identity',
                              'binary graph: sum of connection values is not sum(distance) over reachable ordered pairs', case2)
                    want = sum(Db[s][t] - 1 for s, t in reach)
                    if bcw is not None:
                        ctx.check(abs(float(np.sum(bcw)) - want) <= TOL * max(1, want), 'betweenness_wei:sum_identity',
                                  'binary graph: sum of node values is not sum(distance-1) over reachable ordered pairs', case)
            if tag == 'len':
                self.lines.append('bc_wei ' + enc_mat(M.tolist())); self.pend.append(('bc', 'betweenness_wei', case, bcw))
                self.lines.append('ebc_wei ' + enc_mat(M.tolist())); self.pend.append(('ebc', 'edge_betweenness_wei', case2, r))
                if sp != 0:
                    # the RATIONAL-length model (Model/BetweenQ.v) on exactly the binary64 values the implementation was given;
                    # C08_weiQ_of_fraction: it returns the very values of the integer model on the numerators (checked: 'qz')
                    Mq = [[F(int(x)) * F(2) ** sp for x in row] for row in M.tolist()]
                    zi = len(self.lines) - 2
                    self.lines.append('bc_weiq ' + enc_mat(Mq, enc_qb)); self.pend.append(('bc', 'betweenness_wei(Q model)', case, bcw, zi))
                    self.lines.append('ebc_weiq ' + enc_mat(Mq, enc_qb)); self.pend.append(('ebc', 'edge_betweenness_wei(Q model)', case2, r, zi + 1))

        # ---- a matrix that is not 0/1 handed to the binary routines (outside the documented domain; correspondence only):
        # edge_betweenness_bin reads it through `!= 0` (C08_ebc_bin_ignores_weights), betweenness_bin does not binarise
        # (C08_bc_bin_weighted_refuted) - the models must follow the code there too
        if not binary and scale_pow == 0 and ctx.rng.random() < 0.15:
            def soft(f, fn, casew):
                # outside the documented domain: an exception / a hang is a model-code disagreement, not a violation of the property
                try:
                    with np.errstate(all='ignore'):
                        x = call(f, L.astype(float), _t=10.0)
                    tie_variants(casew)
                    return x
                except Exception as e:
                    ctx.mismatch(fn, 'the implementation raised %r on a matrix that is not 0/1 where the model returns' % (e,), casew)
                    return None
            casew = {'fn': 'betweenness_bin(non-binary matrix)', 'G': L.tolist()}
            bcx = soft(bct.betweenness_bin, 'betweenness_bin(non-binary matrix)', casew)
            if bcx is not None:
                self.lines.append('bc_bin ' + enc_mat(L.tolist())); self.pend.append(('bc', 'betweenness_bin(non-binary matrix)', casew, bcx))
            casew = {'fn': 'edge_betweenness_bin(non-binary matrix)', 'G': L.tolist()}
            rx = soft(bct.edge_betweenness_bin, 'edge_betweenness_bin(non-binary matrix)', casew)
            if rx is not None:
                self.lines.append('ebc_bin ' + enc_mat(L.tolist())); self.pend.append(('ebc', 'edge_betweenness_bin(non-binary matrix)', casew, rx))
            if rx is not None and bin_ebc is not None:
                ctx.count('ebc_bin_nonbinary_equals_support' if (np.array_equal(rx[0], bin_ebc[0]) and np.array_equal(rx[1], bin_ebc[1])) else 'ebc_bin_nonbinary_DIFFERS_from_support')

        # ---- the Coq SPECIFICATION itself (enumeration of node lists), tiny graphs only
        if spec and n <= 4:
            self.lines.append('spec ' + enc_mat(L.tolist()))
            self.pend.append(('spec', 'spec', {'fn': 'BC_spec/EBC_spec', 'G': L.tolist()}, (BCw, EBCw, Dw)))
        # ---- model search phase against the oracle's distances (white-box sanity of the model's queue layout)
        if ctx.rng.random() < 0.15:
            u = ctx.rng.randrange(n)
            self.lines.append('search 1 ' + enc_mat(L.tolist()) + ' %d' % u)
            self.pend.append(('search', 'search_w', {'fn': 'search(weighted)', 'G': L.tolist(), 'u': u}, Dw[u]))
            self.lines.append('search 0 ' + enc_mat(A.tolist()) + ' %d' % u)
            self.pend.append(('search', 'search_b', {'fn': 'search(binary)', 'G': A.tolist(), 'u': u}, Db[u]))

    # ------------------------------------------------------------------ larger graphs: oracle only
    def check4(self, A, L, orc_b, orc_w, case0, nontriv, conv=None, tag='', t=10.0):
        """the four routines on the 0/1 pattern A / the length matrix L (handed over as conv(A), conv(L); default float64)
        against precomputed oracle values; keys as in graph(), suffixed with [tag] for other dtypes"""
        ctx, bct = self.ctx, self.bct
        raw = conv is not None
        Ax, Lx_ = (conv(A), conv(L)) if raw else (A, L)
        BCb, EBCb = orc_b
        BCw, EBCw = orc_w
        sfx = '[%s]' % tag if tag else ''
        out = {}
        for fn, M, BCo, EBCo in (('betweenness_bin', Ax, BCb, None), ('edge_betweenness_bin', Ax, BCb, EBCb),
                                 ('betweenness_wei', Lx_, BCw, None), ('edge_betweenness_wei', Lx_, BCw, EBCw)):
            case = dict(case0, fn=fn)
            if tag:
                case['dtype'] = tag
            ctx.case(case, nontrivial=nontriv)
            r = self.impl(getattr(bct, fn), M, fn + sfx, case, raw=raw, t=t)
            out[fn] = r
            if r is None:
                continue
            if EBCo is None:
                ctx.check(close_vec(BCo, r), fn + ':value' + sfx,
                          'node betweenness differs from the pair-counting oracle: got %s want %s' % (np.asarray(r).tolist(), [str(x) for x in BCo]), case)
            else:
                ctx.check(close_mat(EBCo, r[0]), fn + ':ebc' + sfx, 'connection betweenness differs from the pair-counting oracle', case)
                ctx.check(close_vec(BCo, r[1]), fn + ':bc' + sfx,
                          'node vector differs from the pair-counting oracle: got %s want %s' % (np.asarray(r[1]).tolist(), [str(x) for x in BCo]), case)
                ctx.check(bool(np.all((np.asarray(r[0]) == 0) | (np.asarray(A) != 0))), fn + ':support' + sfx, 'a non-connection has a nonzero value', case)
        return out

    def big(self, L, fam, dtypes=()):
        ctx = self.ctx
        L = np.asarray(L, dtype=np.int64)
        n = len(L)
        h = jhash(['big', L.tolist()])
        if h in self.seen:
            return
        self.seen.add(h)
        A = (L != 0).astype(np.int64)
        binary = bool(np.array_equal(A, L))
        BCb, EBCb, Db, sgb = oracle_pairs(to_lx(A.tolist()))
        BCw, EBCw, Dw, sgw = (BCb, EBCb, Db, sgb) if binary else oracle_pairs(to_lx(L.tolist()))
        ctx.count('family:' + fam)
        ctx.count('n>=12' if n >= 12 else 'n=%d(dtype copies)' % n)
        sg = max(sgb, sgw)
        ctx.count('paths>2^24' if sg > 2 ** 24 else 'paths>127' if sg > 127 else 'paths<=127')
        if sg >= 2 ** 53:
            return                  # path counts beyond what binary64 holds exactly: outside what is compared
        nontriv = any(d is not None and d >= 2 for row in Db for d in row)
        case0 = {'family': fam, 'G': L.tolist()}
        res = self.check4(A, L, (BCb, EBCb), (BCw, EBCw), case0, nontriv)
        reach = [(s, t) for s in range(n) for t in range(n) if s != t and Db[s][t] is not None]
        if res['betweenness_bin'] is not None:
            want = sum(Db[s][t] - 1 for s, t in reach)
            ctx.check(abs(float(np.sum(res['betweenness_bin'])) - want) <= TOL * max(1, want), 'betweenness_bin:sum_identity',
                      'sum of node values is not sum(distance-1) over reachable ordered pairs', dict(case0, fn='betweenness_bin'))
        if res['edge_betweenness_bin'] is not None:
            want = sum(Db[s][t] for s, t in reach)
            ctx.check(abs(float(np.sum(res['edge_betweenness_bin'][0])) - want) <= TOL * max(1, want), 'edge_betweenness_bin:sum_identity',
                      'sum of connection values is not sum(distance) over reachable ordered pairs', dict(case0, fn='edge_betweenness_bin'))
        for dt in dtypes:
            self.dtype_copy(A, L, (BCb, EBCb), (BCw, EBCw), case0, nontriv, dt)

    def dtype_copy(self, A, L, orc_b, orc_w, case0, nontriv, dt):
        """the same network stored with another element type (small integer lengths: every listed type holds them exactly)"""
        if dt == 'bool' and not np.array_equal(A, L):
            L = A
            orc_w = orc_b
        if dt == 'int8' and L.max() > 127:
            return
        self.ctx.count('dtype:' + dt)
        self.check4(A, L, orc_b, orc_w, case0, nontriv, conv=lambda X: np.asarray(X).astype(dt), tag=dt)

    def stress(self, L, fam, case0, selftest=False):
        """the four routines on a network whose path counts may exceed 2^53 / 2^63 (binary routines on the 0/1 pattern, weighted
        ones on the length matrix, and on the pattern when that differs) against brandes_exact; the float routines carry
        path counts with relative error ~1e-16 per addition and never subtract, so 1e-9 holds at any magnitude below 1e308"""
        ctx = self.ctx
        L = np.asarray(L, dtype=np.int64)
        n = len(L)
        A = (L != 0).astype(np.int64)
        binary = bool(np.array_equal(A, L))
        BCb, EBCb, Db, sgb = brandes_exact(to_lx(A.tolist()))
        BCw, EBCw, Dw, sgw = (BCb, EBCb, Db, sgb) if binary else brandes_exact(to_lx(L.tolist()))
        if selftest:
            for M, got in ((A, (BCb, EBCb)),) + (() if binary else ((L, (BCw, EBCw)),)):
                b3, e3 = oracle_pairs(to_lx(M.tolist()))[:2]
                if b3 != got[0] or e3 != got[1]:
                    ctx.errors.append('brandes_exact and oracle_pairs disagree on %s %r' % (fam, case0))
        sg = max(sgb, sgw)
        ctx.count('stress:' + fam); ctx.count('stress:n=%d' % n)
        ctx.count('stress:paths>=2^63' if sg >= 2 ** 63 else 'stress:paths>=2^53' if sg >= 2 ** 53 else 'stress:paths>=2^31' if sg >= 2 ** 31 else 'stress:paths<2^31')
        res = self.check4(A, L, (BCb, EBCb), (BCw, EBCw), case0, True, t=120.0)
        reach = [(s_, t_) for s_ in range(n) for t_ in range(n) if s_ != t_ and Db[s_][t_] is not None]
        if res['betweenness_bin'] is not None:
            want = sum(Db[s_][t_] - 1 for s_, t_ in reach)
            ctx.check(abs(float(np.sum(res['betweenness_bin'])) - want) <= TOL * max(1, want), 'betweenness_bin:sum_identity',
                      'sum of node values is not sum(distance-1) over reachable ordered pairs', dict(case0, fn='betweenness_bin'))
        if res['edge_betweenness_bin'] is not None:
            want = sum(Db[s_][t_] for s_, t_ in reach)
            ctx.check(abs(float(np.sum(res['edge_betweenness_bin'][0])) - want) <= TOL * max(1, want), 'edge_betweenness_bin:sum_identity',
                      'sum of connection values is not sum(distance) over reachable ordered pairs', dict(case0, fn='edge_betweenness_bin'))
        for fe, fn_ in (('edge_betweenness_bin', 'betweenness_bin'), ('edge_betweenness_wei', 'betweenness_wei')):
            if res[fe] is not None and res[fn_] is not None:
                ctx.check(np.allclose(res[fe][1], res[fn_], rtol=TOL, atol=TOL), fe + ':node_vector',
                          'node vector differs from %s' % fn_, dict(case0, fn=fe))
        if not binary:
            # the weighted routines on the 0/1 pattern as well (C08_wei_eq_bin_on_binary)
            for fn in ('betweenness_wei', 'edge_betweenness_wei'):
                case = dict(case0, fn=fn, on='0/1 pattern')
                ctx.case(case, nontrivial=True)
                r_ = self.impl(getattr(self.bct, fn), A, fn, case, t=120.0)
                if r_ is None:
                    continue
                if fn == 'betweenness_wei':
                    ctx.check(close_vec(BCb, r_), fn + ':value', 'node betweenness on the 0/1 pattern differs from the exact-integer oracle', case)
                else:
                    ctx.check(close_mat(EBCb, r_[0]) and close_vec(BCb, r_[1]), fn + ':ebc', 'connection / node betweenness on the 0/1 pattern differs from the exact-integer oracle', case)

    def longpath(self, n, fam):
        """n >= 129 nodes on a shuffled path (+ optionally closing it to an even ring): closed forms, no oracle run.
        path: the node at position i lies on 2*i*(n-1-i) ordered pairs, the connection between positions i, i+1 on (i+1)*(n-1-i)
        in each direction; even ring C_n: every node (n-2)^2/4, every connection n^2/8 in each direction (antipodal pairs have
        two routes).  Node indices beyond 127 sit in the queue."""
        ctx, r = self.ctx, self.ctx.nprng
        order = [int(x) for x in r.permutation(n)]
        ring = fam == 'long_ring'
        L = np.zeros((n, n), dtype=np.int64)
        vals = [1] if (ring or r.rand() < 0.5) else [1, 2, 3]
        for a, b in zip(order, order[1:] + ([order[0]] if ring else [])):
            L[a, b] = L[b, a] = int(r.choice(vals))
        A = (L != 0).astype(np.int64)
        BC = [F(0)] * n
        EBC = [[F(0)] * n for _ in range(n)]
        for i, v in enumerate(order):
            BC[v] = F((n - 2) ** 2, 4) if ring else F(2 * i * (n - 1 - i))
        for i, (a, b) in enumerate(zip(order, order[1:] + ([order[0]] if ring else []))):
            EBC[a][b] = EBC[b][a] = F(n * n, 8) if ring else F((i + 1) * (n - 1 - i))
        if ctx.thorough:
            b3, e3 = oracle_pairs(to_lx(L.tolist()))[:2]
            if b3 != BC or e3 != EBC:
                ctx.errors.append('closed form and oracle_pairs disagree on %s n=%d' % (fam, n))
        ctx.count('family:' + fam)
        ctx.count('n>=129')
        case0 = {'family': fam, 'n': n, 'node_order': order, 'lengths_along': [int(L[a, b]) for a, b in zip(order, order[1:] + ([order[0]] if ring else []))]}
        self.check4(A, L, (BC, EBC), (BC, EBC), case0, True, t=60.0)

    # ------------------------------------------------------------------ lengths that are not dyadic rationals
    def decimal(self, Gf, fam, pinned=False):
        """Gf: binary64 length matrix as a user would write it (0.1, 0.3, 1/3 ...).  The property is read on the lengths AS GIVEN,
        i.e. on the exact rational values of the doubles: oracle X = oracle_pairs on Fractions of the doubles.  Oracle Fl =
        oracle_pairs with binary64 route sums (rounding can separate / merge ties).  X == Fl: rounding does not matter, the
        routines must return X (usual keys) and so must the rational-length model.  X != Fl: the routines are known to return
        Fl (recorded finding, narrow keys TIE_KEY_*); anything else is an ordinary violation."""
        ctx, bct = self.ctx, self.bct
        Gf = np.asarray(Gf, dtype=float)
        n = len(Gf)
        h = jhash(['dec', [[x.hex() for x in row] for row in Gf.tolist()]])
        if h in self.seen:
            return
        self.seen.add(h)
        X = oracle_pairs(to_lx(Gf.tolist(), lambda x: F(float(x))), F(0))
        Fl = oracle_pairs(to_lx(Gf.tolist(), float), 0.0)
        exact = (X[0] == Fl[0] and X[1] == Fl[1])
        ctx.count('family:' + fam.split('_')[0])
        ctx.count('decimal:ties-exact-in-binary64' if exact else 'decimal:rounding-changes-the-ties')
        if any(x.denominator != 1 for x in X[0]):
            ctx.count('decimal:has_fractional_bc(ties)')
        nontriv = any(len([d for d in row if d is not None]) >= 3 for row in X[2])
        Gl = [[x.hex() for x in row] for row in Gf.tolist()]
        case = {'fn': 'betweenness_wei', 'G': Gf.tolist(), 'G_hex': Gl}
        case2 = {'fn': 'edge_betweenness_wei', 'G': Gf.tolist(), 'G_hex': Gl}
        ctx.case(case, nontrivial=nontriv)
        bcw = self.impl(bct.betweenness_wei, Gf, 'betweenness_wei', case, raw=True)
        ctx.case(case2, nontrivial=nontriv)
        r = self.impl(bct.edge_betweenness_wei, Gf, 'edge_betweenness_wei', case2, raw=True)
        what = ('returns the betweenness of the graph whose route lengths are the left-to-right binary64 sums (%s), not of the lengths '
                'given (%s): equal-length alternatives separated / merged by rounding')
        if bcw is not None:
            if close_vec(X[0], bcw):
                pass
            elif not exact and close_vec(Fl[0], bcw):
                ctx.fail(TIE_KEY_N, what % ([str(x) for x in Fl[0]], [str(x) for x in X[0]]), case)
            else:
                ctx.fail('betweenness_wei:value', 'node betweenness differs from the pair-counting oracle: got %s want %s' % (np.asarray(bcw).tolist(), [str(x) for x in X[0]]), case)
        if r is not None:
            if close_mat(X[1], r[0]) and close_vec(X[0], r[1]):
                pass
            elif not exact and close_mat(Fl[1], r[0]) and close_vec(Fl[0], r[1]):
                ctx.fail(TIE_KEY_E, what % ([str(x) for x in Fl[0]], [str(x) for x in X[0]]), case2)
            else:
                ctx.fail('edge_betweenness_wei:ebc', 'connection / node betweenness differs from the pair-counting oracle: got %s want %s' % (tolist(r), [[str(x) for x in X[0]]]), case2)
            if bcw is not None:
                ctx.check(np.allclose(r[1], bcw, rtol=TOL, atol=TOL), 'edge_betweenness_wei:node_vector',
                          'node vector %s differs from betweenness_wei %s' % (np.asarray(r[1]).tolist(), np.asarray(bcw).tolist()), case2)
        if exact or pinned:
            Mq = [[F(float(x)) for x in row] for row in Gf.tolist()]
            if exact:
                self.lines.append('bc_weiq ' + enc_mat(Mq, enc_qb)); self.pend.append(('bc', 'betweenness_wei(Q model)', case, bcw))
                self.lines.append('ebc_weiq ' + enc_mat(Mq, enc_qb)); self.pend.append(('ebc', 'edge_betweenness_wei(Q model)', case2, r))
            else:
                # the pinned witness: the rational-length model gives the exact answer X (and the implementation does not)
                self.lines.append('bc_weiq ' + enc_mat(Mq, enc_qb)); self.pend.append(('bcx', 'Q model vs oracle', case, X[0]))
        return exact

    def correspond(self):
        ctx = self.ctx
        res = run_model(ID, self.lines, timeout=1500)
        ctx.model_cases = len(self.lines)
        for pe, m in zip(self.pend, res):
            kind, fn, case, got = pe[:4]
            if is_err(m):
                ctx.mismatch('model-error', m['error'], case)
                continue
            if len(pe) == 5:
                # C08_weiQ_of_fraction: rational-length model on M * 2^sp = integer-length model on M, value for value
                ctx.count('qz_same' if m == res[pe[4]] else 'qz_DIFFERENT')
                if m != res[pe[4]]:
                    ctx.errors.append('rational-length model and integer-length model differ on %r' % (case,))
            if kind == 'bcx':
                mv = None if m is None else [dec_q(x) for x in m]
                if mv != got:
                    ctx.mismatch(fn, 'the rational-length model does not return the exact betweenness of the given lengths', case, None if mv is None else [str(x) for x in mv], [str(x) for x in got])
                else:
                    ctx.count('corr_ok:' + fn)
                continue
            if kind == 'bc':
                if m is None:
                    ctx.mismatch(fn, 'model reports an error (out of fuel / queue slice length) where the implementation returned', case, None, got)
                    continue
                mv = [dec_q(x) for x in m]
                if got is None:
                    continue        # implementation raised: already reported by the oracle
                if not close_vec(mv, got):
                    ctx.mismatch(fn, 'model and implementation differ', case, [str(x) for x in mv], np.asarray(got).tolist())
                else:
                    ctx.count('corr_ok:' + fn)
            elif kind == 'ebc':
                if m is None:
                    if got is not None:
                        ctx.mismatch(fn, 'model reports an error (out of fuel / queue slice length) where the implementation returned', case, None, tolist(got))
                    continue
                me, mv = dec_deep(m[0], dec_q), dec_deep(m[1], dec_q)
                if got is None:
                    ctx.mismatch(fn, 'implementation raised where the model returns', case, [str(x) for x in mv], None)
                    continue
                if not (close_mat(me, got[0]) and close_vec(mv, got[1])):
                    ctx.mismatch(fn, 'model and implementation differ', case, [[str(x) for x in r] for r in me], tolist(got))
                else:
                    ctx.count('corr_ok:' + fn)
            elif kind == 'spec':
                BCo, EBCo, Do = got
                se, sb, sd = dec_deep(m[0], dec_q), dec_deep(m[1], dec_q), dec_deep(m[2], dec_z)
                n = len(BCo)
                ok = (sb == BCo and se == EBCo and
                      all(sd[i][j] == Do[i][j] for i in range(n) for j in range(n)))
                if not ok:
                    ctx.mismatch('spec', 'the Coq specification (BC_spec/EBC_spec/dist_spec by enumeration of node lists) differs from the harness oracle', case,
                                 [[str(x) for x in sb]], [[str(x) for x in BCo]])
                else:
                    ctx.count('spec_ok')
            elif kind == 'search':
                d = got
                n = len(d)
                if m is None:
                    ctx.mismatch(fn, 'model search phase failed', case)
                    continue
                q, qf, npc, dm, P = m
                dm = [None if x is None else dec_z(x) for x in dm]
                un = [v for v in range(n) if d[v] is None]
                ok = sorted(q) == list(range(n)) and sorted(q[:len(un)]) == un and q[n - 1] == case['u']
                if fn == 'search_w':
                    ok = ok and dm == d and all(d[q[i]] >= d[q[i + 1]] for i in range(len(un), n - 1))
                else:
                    ok = ok and [x is None for x in dm] == [x is None for x in d] and \
                        all(d[q[i]] >= d[q[i + 1]] for i in range(len(un), n - 1))
                if not ok:
                    ctx.mismatch(fn, 'model queue / distances inconsistent with the oracle distances', case, [q, qf, dm], d)
                else:
                    ctx.count('search_ok')


_BLAS = None


def _blas():
    """(set_num_threads, get_num_threads) of the OpenBLAS that numpy loaded, or (None, None)"""
    global _BLAS
    if _BLAS is None:
        _BLAS = (None, None)
        try:
            import ctypes
            libs = sorted({l.split()[-1] for l in open('/proc/self/maps') if 'openblas' in l.lower() and '.so' in l})
            for p in libs:
                lib = ctypes.CDLL(p)
                for pre in ('scipy_openblas', 'openblas'):
                    for suf in ('64_', ''):
                        try:
                            _BLAS = (getattr(lib, pre + '_set_num_threads' + suf), getattr(lib, pre + '_get_num_threads' + suf))
                            return _BLAS
                        except AttributeError:
                            pass
        except Exception:
            pass
    return _BLAS


@contextlib.contextmanager
def blas_threads(k=1):
    """hundreds of successive n x n products with n ~ 200 cost ~100 times the CPU on 16 spinning BLAS threads: the large-matrix
    block runs single-threaded.  Speed only; a no-op when the library is not found."""
    st, gt = _blas()
    old = None
    if st is not None:
        try:
            old = int(gt()); st(int(k))
        except Exception:
            old = None
    try:
        yield
    finally:
        if old is not None:
            st(old)


def bin_clique_chain(ctx, R, k, c):
    """K_k with a chain of c nodes (connected, undirected, (k-1)^c > 1.8e308): the number of ALL walks of length d between
    two nodes leaves binary64 long before the loop reaches the end of the chain; betweenness_bin extends minimum-length
    walks only (`NPd = np.dot(NSPd, G)`), whose counts stay small here.  An ordinary oracle clause: the routine has to
    return within the limit, and its value and edge_betweenness_bin's are judged by the exact-integer oracle."""
    bct = R.bct
    r = stress_rng(ctx, 2)
    n = k + c
    A = np.zeros((n, n), dtype=np.int64)
    A[:k, :k] = 1
    np.fill_diagonal(A, 0)
    prev = 0
    for i in range(k, n):
        A[prev, i] = A[i, prev] = 1
        prev = i
    p = [int(x) for x in r.permutation(n)]
    A = A[np.ix_(p, p)]
    case = {'fn': 'betweenness_bin', 'family': 'clique+chain', 'k': k, 'c': c, 'perm': p,
            'construction': 'K_k on nodes 0..k-1, chain 0 - k - k+1 - ... - k+c-1 (both directions), A = A[ix_(perm, perm)]'}
    ctx.case(case, nontrivial=True)
    ctx.count('stress:clique+chain(binary64 range)'); ctx.count('stress:n=%d' % n)
    bc = None
    with no_variants(), blas_threads(1):
        try:
            with np.errstate(all='ignore'):
                bc = call(bct.betweenness_bin, A.astype(float), _t=15.0)
        except Timeout:
            ctx.fail('betweenness_bin:returns', 'does not return within 15 s on a connected undirected 0/1 network of %d nodes' % n, case)
            return
        except Exception as e:
            ctx.fail('betweenness_bin:raises', 'raised %r' % (e,), case)
            return
        BCo, EBCo, Do, sg = brandes_exact(to_lx(A.tolist()))
        ctx.check(close_vec(BCo, bc), 'betweenness_bin:value', 'node betweenness differs from the exact-integer oracle', case)
        case2 = dict(case, fn='edge_betweenness_bin')
        ctx.case(case2, nontrivial=True)
        try:
            with np.errstate(all='ignore'):
                eb = call(bct.edge_betweenness_bin, A.astype(float), _t=60.0)
        except Exception as e:
            ctx.fail('edge_betweenness_bin:raises', 'raised %r' % (e,), case2)
            return
        ctx.check(close_mat(EBCo, eb[0]) and close_vec(BCo, eb[1]), 'edge_betweenness_bin:ebc', 'connection / node betweenness differs from the exact-integer oracle', case2)


def stress_rng(ctx, salt=1):
    """a random state of its own for the stress families (derived from VERIF_SEED like ctx.nprng; the streams of the other
    generators stay what they were)"""
    return np.random.RandomState((ctx.seed * 7919 + int(ctx.pid[1:]) + 1000003 * salt + (500009 if ctx.escalated else 0)) % (2 ** 31))


def stress_families(ctx, R):
    """Braids whose end-to-end path count exceeds 2^63 (3^41.., 2^63..) - one per run in the quick tier -, in the thorough tier
    (= the escalated pass on a changed tree, where this block runs FIRST) also counts beyond 2^31 / 2^32 / 2^53, per-layer
    lengths, both orientations, and square grids (central binomial counts)."""
    r = stress_rng(ctx)

    def braid(width, layers, directed, weighted):
        lens = [int(x) for x in r.randint(1, 4, size=layers + 1)] if weighted else None
        L, p = g_braid(r, width, layers, directed, lens)
        R.stress(L, 'braid', {'family': 'braid', 'width': width, 'layers': layers, 'directed': directed, 'lens': lens, 'perm': p, 'construction': BRAID_HOW})

    # brandes_exact against the pair-counting oracle on a small member of each family
    L, p = g_braid(r, int(r.choice([2, 3])), int(r.randint(4, 8)), bool(r.rand() < 0.5), [int(x) for x in r.randint(1, 4, size=9)])
    R.stress(L, 'braid', {'family': 'braid(selftest)', 'G': L.tolist()}, selftest=True)
    bin_clique_chain(ctx, R, 50, 183)
    if not ctx.thorough:
        w, l = [(3, int(r.randint(41, 45))), (2, int(r.randint(63, 67)))][int(r.randint(2))]
        braid(w, l, bool(r.rand() < 0.5), False)
        return
    for w, l in ((3, 41), (3, int(r.randint(42, 51))), (2, 63), (2, int(r.randint(64, 71)))):
        braid(w, l, False, False)
        braid(w, l, True, bool(r.rand() < 0.5))
    braid(3, int(r.randint(41, 47)), False, True)
    for w, l in ((3, 20), (2, 32), (3, int(r.randint(21, 34))), (2, int(r.randint(33, 53))), (4, int(r.randint(16, 27)))):
        braid(w, l, bool(r.rand() < 0.5), bool(r.rand() < 0.3))
    for side in (8, int(r.randint(9, 11))):
        G = g_grid_wh(r, side, side, [1])
        R.stress(G, 'grid', {'family': 'grid', 'side': side, 'construction': 'side x side grid, node (x, y) = y*side + x, unit lengths'}, selftest=(side == 8 and False))
    G = g_grid_wh(r, 5, 5, [1])
    R.stress(G, 'grid', {'family': 'grid(selftest)', 'side': 5}, selftest=True)


def stress_only(ctx, bct):
    """development aid: the stress families alone"""
    stress_families(ctx, Runner(ctx, bct))


def run(ctx):
    import bct
    R = Runner(ctx, bct)
    r = ctx.nprng
    # stress families (numeric range of the path counts; oracle only): FIRST in the escalated pass of a changed tree (its time cap
    # must not cut them off), LAST otherwise (the first calls of every routine stay the small inputs of the main stream)
    if ctx.escalated:
        stress_families(ctx, R)
    # corpus: small graphs that exercised past defects (unreachable nodes in edge_betweenness_bin; ties)
    for A in ([[0, 1, 0], [0, 0, 0], [0, 0, 0]], [[0, 1], [0, 0]], [[0]],
              [[0, 1, 1, 0], [0, 0, 0, 1], [0, 0, 0, 1], [0, 0, 0, 0]],
              [[0, 1, 2, 0], [1, 0, 1, 3], [2, 1, 0, 2], [0, 3, 2, 0]],
              [[0, 0, 0], [0, 0, 0], [0, 0, 0]]):
        R.graph(np.array(A), 'corpus', spec=True)
    # exhaustive tiers
    for n in (1, 2, 3):
        for A in all_digraphs(n):
            R.graph(A, 'all_digraphs_n%d' % n, spec=True)
    for A in all_graphs(4):
        R.graph(A, 'all_graphs_n4', spec=True)
    if ctx.thorough:
        for A in all_digraphs(4):
            R.graph(A, 'all_digraphs_n4', spec=(ctx.rng.random() < 0.1))
        for A in all_graphs(5):
            R.graph(A, 'all_graphs_n5')
    else:
        cells = [(i, j) for i in range(4) for j in range(4) if i != j]
        for _ in range(250):
            A = np.zeros((4, 4), dtype=int)
            for (i, j) in cells:
                if r.rand() < 0.45:
                    A[i, j] = 1
            R.graph(A, 'slice_digraphs_n4', spec=(ctx.rng.random() < 0.2))
        for _ in range(150):
            R.graph(und((r.rand(5, 5) < 0.5).astype(int)), 'slice_graphs_n5')
    # weighted tiny graphs against the Coq specification
    for _ in range(ctx.scale(100, 800)):
        n = int(r.randint(2, 5))
        R.graph(g_random(r, n, bool(r.rand() < 0.5), [1, 2, 3], float(r.choice([0.4, 0.7, 1.0]))), 'tiny_weighted', spec=True)
    # random / structured, lengths with many ties
    for _ in range(ctx.scale(1200, 8000)):
        fam, L = random_graph(ctx)
        R.graph(L, fam)
    # near ties (routes that differ by ~1e-6 .. 1e-9 relative are NOT equal) and tiny absolute scales; dyadic, hence exact
    for k in (20, 30):
        for e in (1, -1, 0):
            R.graph(near_tie_square(e, k), 'neartie_square', scale_pow=-k)
    R.graph(np.array([[0, 1, 1, 0], [1, 0, 0, 1], [1, 0, 0, 2], [0, 1, 2, 0]]), 'tinyscale_square', scale_pow=-30)
    for _ in range(ctx.scale(300, 2000)):
        fam, L, sp = near_tie_graph(ctx)
        R.graph(L, fam, scale_pow=sp)
    # lengths that are not dyadic rationals: the recorded rounding finding (pinned witness first), decimal families
    W = rounding_witness()
    R.decimal(W, 'rounding_witness', pinned=True)
    R.decimal(W + W.T, 'rounding_witness_und')
    R.graph(np.round(W * 10).astype(int), 'rounding_witness_x10')          # the same graph with lengths 1,2,3: the tie is seen
    for _ in range(ctx.scale(150, 1200)):
        fam, Gf = decimal_graph(ctx)
        R.decimal(Gf, fam)
    # larger graphs against the polynomial oracle (path counts > 127), other element types, path counts > 2^24, n >= 129
    DT = ['int64', 'bool', 'int8', 'int32', 'uint8', 'float32']
    for i in range(ctx.scale(14, 120)):
        fam, L = big_graph(ctx)
        R.big(L, fam, dtypes=[DT[i % len(DT)]] if i % 2 == 0 else [])
    for i in range(ctx.scale(18, 120)):
        fam, L = random_graph(ctx)
        R.big(L, 'dtype_' + fam, dtypes=[DT[i % len(DT)], DT[(i + 3) % len(DT)]])
    R.big(g_grid_wh(r, 6, 6, [1]), 'big_grid')                  # C(10,5) = 252 routes corner to corner
    R.big(g_grid_wh(r, 5, 7, [1]), 'big_grid', dtypes=['int8'])
    # path counts beyond 2^24 for a large share of the pairs (every node is a source): a float32 NP is off by ~8e-9 relative here
    R.big(g_layered(r, [7] * 11, True, ends=False), 'layered_many_paths')
    R.big(g_layered(r, [1] + [7] * 9 + [1] * 6, True, ends=False), 'layered_many_paths')
    for i in range(ctx.scale(0, 6)):
        widths = [int(r.choice([3, 5, 7])) for _ in range(int(r.randint(11, 14)))]
        R.big(g_layered(r, widths, bool(i % 2), ends=False), 'layered_many_paths')
    R.longpath(int(r.randint(129, 141)), 'long_path')
    if ctx.thorough:
        R.longpath(2 * int(r.randint(65, 71)), 'long_ring')
        R.longpath(int(r.randint(129, 141)), 'long_path')
    if not ctx.escalated:
        stress_families(ctx, R)
    R.correspond()
