"""C08 — betweenness counts exactly the shortest paths through each node and connection."""
import itertools
from fractions import Fraction as F
import numpy as np
from common import *

ID = 'C08'
COQ_FILES = ['Base/Mat.v', 'Base/SumQ.v', 'Base/ListX.v', 'Model/Between.v', 'Proofs/BetweenAccum.v',
             'Proofs/BetweenReady.v', 'Proofs/BetweenQueue.v', 'Proofs/BetweenBin.v', 'Proofs/BetweenSpec.v', 'Proofs/BetweenPaths.v',
             'Proofs/BetweenTight.v', 'Proofs/BetweenLast.v', 'Proofs/BetweenCount.v', 'Proofs/BetweenFull.v',
             'Proofs/BetweenBfs.v', 'Proofs/BetweenPow.v', 'Proofs/BetweenScale.v', 'Properties/C08.v']
THEOREMS = ['C08_spec_enumeration_faithful', 'C08_dist_spec_correct', 'C08_shortest_walks_simple',
            'C08_bin_sum_BC', 'C08_bin_sum_EBC', 'C08_brandes_accumulation', 'C08_brandes_accumulation_node',
            'C08_dag_counts_exist', 'C08_queue_slots_wei', 'C08_queue_slots_bin',
            'C08_spec_last_connection', 'C08_sigma_last_connection', 'C08_search_wei_correct', 'C08_search_bin_correct',
            'C08_pairsums_to_spec', 'C08_bc_wei_correct', 'C08_ebc_wei_correct', 'C08_ebc_bin_correct',
            'C08_matrix_power_counts', 'C08_bc_bin_forward', 'C08_bc_bin_back_pass', 'C08_bc_bin_correct',
            'C08_bc_correct', 'C08_ebc_node_vector_eq_bc_bin', 'C08_wei_eq_bin_on_binary',
            'C08_spec_scale_invariant', 'C08_wei_scale_invariant',
            'C08_ebc_node_vector_eq_bc_wei']
RULE = ('every labelled digraph on n<=3 nodes (n<=4 thorough, a random slice of n=4 in quick), every labelled undirected '
        'graph on n<=4 nodes (n<=5 thorough, a slice of n=5 in quick); random directed / undirected graphs n=2..7 with '
        'integer connection lengths drawn from {1,2,3} or {1,2} (many exact ties between alternative routes) at densities '
        '0.15-0.9; structured families: rings, stars, paths, complete, complete bipartite, grids, directed cycles with '
        'chords, trees plus chords, disjoint unions, graphs with isolated nodes, graphs with self-connections; the same '
        'families with NEAR-TIE dyadic lengths (integers in {1,2,3} * 2^20 or 2^30, perturbed by +-1..3 units and scaled by '
        '2^-20 / 2^-30: alternative routes differing by 1e-6..1e-9 relative beside exact ties) and with all lengths on a '
        '2^-30 scale (model and oracle run on the integer numerators - betweenness is scale invariant). Each graph '
        'is fed to the four routines (binary routines on the 0/1 pattern, weighted routines on the length matrix and on '
        'the 0/1 pattern). non-trivial = at least one ordered pair at distance >= 2 hops (some node lies strictly between '
        'two others); distinct by hash of (length matrix).')
ASSUMES = ['connection lengths are small positive integers or integers < 2^33 times 2^-20 / 2^-30 (dyadic): every sum / '
           'comparison of lengths and every path count the model treats as exact is exact in binary64; quotients are '
           'compared with tolerance 1e-9',
           'the weighted routines are given a LENGTH matrix (as documented), 0 = no connection']
TRUSTED = ['bc_correct for the four routines (model output = BC_spec / EBC_spec) IS a theorem about the Gallina models '
           '(C08_bc_correct); that the models follow the Python code statement by statement is established by the '
           'differential correspondence (sampling), including the per-source search state (Q, q, NP, D, P) of the '
           'Brandes-style routines']

TOL = 1e-9


# ---------------------------------------------------------------- independent oracles (exact Fractions)
def floyd(L):
    n = len(L)
    d = [[0 if i == j else (int(L[i][j]) if (L[i][j] and i != j) else None) for j in range(n)] for i in range(n)]
    for k in range(n):
        for i in range(n):
            if d[i][k] is None:
                continue
            for j in range(n):
                if d[k][j] is None:
                    continue
                x = d[i][k] + d[k][j]
                if d[i][j] is None or x < d[i][j]:
                    d[i][j] = x
    return d


def oracle_dag(L):
    """enumerate every shortest path by depth-first search over the shortest-path DAG; each path adds 1/total to every
    interior node and to every connection it uses"""
    n = len(L)
    d = floyd(L)
    BC = [F(0)] * n
    EBC = [[F(0)] * n for _ in range(n)]
    for s in range(n):
        for t in range(n):
            if s == t or d[s][t] is None:
                continue
            paths = []
            path = [s]

            def dfs(a):
                if a == t:
                    paths.append(list(path))
                    return
                for b in range(n):
                    if b != a and L[a][b] and d[b][t] is not None and d[s][a] + int(L[a][b]) + d[b][t] == d[s][t]:
                        path.append(b)
                        dfs(b)
                        path.pop()
            dfs(s)
            tot = len(paths)
            for p in paths:
                for v in p[1:-1]:
                    BC[v] += F(1, tot)
                for a, b in zip(p, p[1:]):
                    EBC[a][b] += F(1, tot)
    return BC, EBC, d


def oracle_simple(L):
    """no distances at all: enumerate every simple path, keep the minimum-length ones (n <= 5)"""
    n = len(L)
    BC = [F(0)] * n
    EBC = [[F(0)] * n for _ in range(n)]
    for s in range(n):
        for t in range(n):
            if s == t:
                continue
            best, paths = None, []
            for k in range(0, n - 1):
                for mid in itertools.permutations([v for v in range(n) if v != s and v != t], k):
                    p = (s,) + mid + (t,)
                    if all(L[a][b] for a, b in zip(p, p[1:])):
                        ln = sum(int(L[a][b]) for a, b in zip(p, p[1:]))
                        if best is None or ln < best:
                            best, paths = ln, [p]
                        elif ln == best:
                            paths.append(p)
            for p in paths:
                for v in p[1:-1]:
                    BC[v] += F(1, len(paths))
                for a, b in zip(p, p[1:]):
                    EBC[a][b] += F(1, len(paths))
    return BC, EBC


def close_vec(fr, x):
    x = np.asarray(x, dtype=float).ravel()
    if len(fr) != len(x):
        return False
    return all(np.isfinite(b) and abs(float(a) - b) <= TOL * max(1.0, abs(float(a))) for a, b in zip(fr, x))


def close_mat(fr, X):
    X = np.asarray(X, dtype=float)
    n = len(fr)
    if X.shape != (n, n):
        return False
    return all(close_vec(fr[i], X[i]) for i in range(n))


# ---------------------------------------------------------------- generators (integer length matrices)
def und(M):
    M = np.triu(M, 1)
    return M + M.T


def g_random(r, n, directed, vals, dens):
    A = (r.rand(n, n) < dens).astype(int) * r.choice(vals, size=(n, n))
    np.fill_diagonal(A, 0)
    return A if directed else und(A)


def g_ring(r, n, directed, vals):
    A = np.zeros((n, n), dtype=int)
    for i in range(n):
        A[i, (i + 1) % n] = r.choice(vals)
        if not directed:
            A[(i + 1) % n, i] = A[i, (i + 1) % n]
    if n == 2 and not directed:
        A[1, 0] = A[0, 1]
    np.fill_diagonal(A, 0)
    return A


def g_cycle_chords(r, n, vals):
    A = g_ring(r, n, True, vals)
    for _ in range(int(r.randint(1, n + 1))):
        i, j = int(r.randint(0, n)), int(r.randint(0, n))
        if i != j:
            A[i, j] = r.choice(vals)
    return A


def g_star(r, n, vals):
    A = np.zeros((n, n), dtype=int)
    h = int(r.randint(0, n))
    for v in range(n):
        if v != h:
            A[h, v] = A[v, h] = r.choice(vals)
    return A


def g_path(r, n, directed, vals):
    A = np.zeros((n, n), dtype=int)
    order = list(r.permutation(n))
    for a, b in zip(order, order[1:]):
        A[a, b] = r.choice(vals)
        if not directed:
            A[b, a] = A[a, b]
    return A


def g_complete(r, n, vals):
    A = und(r.choice(vals, size=(n, n)))
    return A


def g_bipartite(r, n, vals):
    k = int(r.randint(1, n))
    A = np.zeros((n, n), dtype=int)
    for i in range(k):
        for j in range(k, n):
            A[i, j] = A[j, i] = r.choice(vals)
    return A


def g_grid(r, n, vals):
    w = 2 if n < 6 else int(r.choice([2, 3]))
    A = np.zeros((n, n), dtype=int)
    for v in range(n):
        x, y = v % w, v // w
        for u in (v + 1 if x + 1 < w else None, v + w):
            if u is not None and u < n:
                A[v, u] = A[u, v] = r.choice(vals)
    return A


def g_tree_chords(r, n, vals):
    A = np.zeros((n, n), dtype=int)
    order = list(r.permutation(n))
    for k in range(1, n):
        a, b = order[k], order[int(r.randint(0, k))]
        A[a, b] = A[b, a] = r.choice(vals)
    for _ in range(int(r.randint(0, 3))):
        i, j = int(r.randint(0, n)), int(r.randint(0, n))
        if i != j:
            A[i, j] = A[j, i] = r.choice(vals)
    return A


def g_union(r, n, vals):
    k = int(r.randint(1, n))
    A = np.zeros((n, n), dtype=int)
    A[:k, :k] = g_random(r, k, r.rand() < 0.5, vals, 0.7)
    A[k:, k:] = g_random(r, n - k, r.rand() < 0.5, vals, 0.7)
    p = r.permutation(n)
    return A[np.ix_(p, p)]


def g_isolated(r, n, vals):
    A = g_random(r, n, r.rand() < 0.5, vals, 0.6)
    for v in r.permutation(n)[:int(r.randint(1, max(2, n // 2 + 1)))]:
        A[v, :] = 0
        A[:, v] = 0
    return A


def g_selfloops(r, n, vals):
    A = g_random(r, n, r.rand() < 0.5, vals, 0.5)
    for v in range(n):
        if r.rand() < 0.5:
            A[v, v] = r.choice(vals)
    return A


def random_graph(ctx):
    r = ctx.nprng
    n = int(r.randint(2, 8))
    vals = [[1, 2, 3], [1, 2], [1], [1, 1, 2], [2, 3]][int(r.randint(0, 5))]
    fam = int(r.randint(0, 14))
    if fam <= 2:
        dens = float(r.choice([0.15, 0.3, 0.5, 0.7, 0.9]))
        directed = bool(r.rand() < 0.5)
        return ('er_dir' if directed else 'er_und'), g_random(r, n, directed, vals, dens)
    if fam == 3:
        d = bool(r.rand() < 0.5)
        return ('ring_dir' if d else 'ring_und'), g_ring(r, n, d, vals)
    if fam == 4:
        return 'cycle_chords', g_cycle_chords(r, n, vals)
    if fam == 5:
        return 'star', g_star(r, n, vals)
    if fam == 6:
        d = bool(r.rand() < 0.5)
        return ('path_dir' if d else 'path_und'), g_path(r, n, d, vals)
    if fam == 7:
        return 'complete', g_complete(r, n, vals)
    if fam == 8:
        return 'bipartite', g_bipartite(r, n, vals)
    if fam == 9:
        return 'grid', g_grid(r, n, vals)
    if fam == 10:
        return 'tree_chords', g_tree_chords(r, n, vals)
    if fam == 11:
        return 'union', g_union(r, n, vals)
    if fam == 12:
        return 'isolated', g_isolated(r, n, vals)
    return 'selfloops', g_selfloops(r, n, vals)


def near_tie_graph(ctx):
    """lengths = (base in {1,2,3}) * 2**k + tiny integer perturbations, to be scaled by 2**-k: alternative routes that
    differ by ~1e-6 / ~1e-9 relative (NOT ties) next to exact ties; or all lengths on a 2**-30 scale (every difference
    below 1e-8 absolute).  Returns (family, integer matrix, scale_pow)."""
    r = ctx.nprng
    kind = int(r.randint(0, 4))
    fam, B = random_graph(ctx)
    B = np.asarray(B, dtype=np.int64)
    if kind == 0:                                  # everything on a tiny scale, exact ties kept
        return 'tinyscale_' + fam, B, -30
    k = 20 if kind in (1, 2) else 30
    L = B * (1 << k)
    sym = bool(np.array_equal(B, B.T))
    n = len(B)
    for i in range(n):
        for j in range(n):
            if B[i, j] and (not sym or i < j) and r.rand() < 0.45:
                L[i, j] += int(r.choice([1, -1, 2, 3]))
                if sym:
                    L[j, i] = L[i, j]
    return 'neartie%d_' % k + fam, L, -k


def near_tie_square(eps_num, k):
    """square 0-1-3 / 0-2-3 with lengths 1,1 / 1,1+eps"""
    one = 1 << k
    L = np.zeros((4, 4), dtype=np.int64)
    for a, b, w in ((0, 1, one), (1, 3, one), (0, 2, one), (2, 3, one + eps_num)):
        L[a, b] = L[b, a] = w
    return L


def all_digraphs(n):
    cells = [(i, j) for i in range(n) for j in range(n) if i != j]
    for bits in range(1 << len(cells)):
        A = np.zeros((n, n), dtype=int)
        for k, (i, j) in enumerate(cells):
            if bits >> k & 1:
                A[i, j] = 1
        yield A


def all_graphs(n):
    cells = [(i, j) for i in range(n) for j in range(i + 1, n)]
    for bits in range(1 << len(cells)):
        A = np.zeros((n, n), dtype=int)
        for k, (i, j) in enumerate(cells):
            if bits >> k & 1:
                A[i, j] = A[j, i] = 1
        yield A


# ---------------------------------------------------------------- one graph through everything
class Runner:
    def __init__(self, ctx, bct):
        self.ctx, self.bct = ctx, bct
        self.lines, self.pend = [], []
        self.seen = set()
        self.timeouts = {}          # routine -> number of calls that did not terminate

    def impl(self, f, M, key, case, scale_pow=0):
        if self.timeouts.get(key, 0) >= 3:
            return None             # this routine hangs (reported three times with concrete inputs): stop calling it
        try:
            # lengths = integers * 2**scale_pow: exact in binary64 (numerators < 2**40, sums of <= 7 of them < 2**53)
            r = call(f, M.astype(float) * (2.0 ** scale_pow), _t=10.0)
            tie_variants(case)          # input-representation layer: the model comparison of this case is batched and comes later
            return r
        except Timeout:
            self.timeouts[key] = self.timeouts.get(key, 0) + 1
            self.ctx.fail(key + ':raises', 'does not terminate within 10 s', case)
        except Exception as e:
            self.ctx.fail(key + ':raises', 'raised %r' % (e,), case)
        return None

    def graph(self, L, fam, spec=False, scale_pow=0):
        """L: integer length matrix (numerators); the weighted routines are given L * 2**scale_pow (dyadic, exact in
        binary64), the model and the oracle run on the integer numerators (betweenness is invariant under scaling all
        lengths by a positive constant: C08_spec_scale_invariant)"""
        ctx, bct = self.ctx, self.bct
        L = np.asarray(L, dtype=np.int64)
        n = len(L)
        h = jhash([L.tolist(), scale_pow])
        if h in self.seen:
            return
        self.seen.add(h)
        A = (L != 0).astype(int)
        binary = bool(np.array_equal(A, L))
        ctx.count('family:' + fam)
        ctx.count('n=%d' % n)
        BCb, EBCb, Db = oracle_dag(A.tolist())
        if binary:
            BCw, EBCw, Dw = BCb, EBCb, Db
        else:
            BCw, EBCw, Dw = oracle_dag(L.tolist())
        if n <= 5 and (n <= 4 or ctx.rng.random() < 0.25):
            for M, (b, e) in ((A, (BCb, EBCb)), (L, (BCw, EBCw))):
                b2, e2 = oracle_simple(M.tolist())
                if b2 != b or e2 != e:
                    ctx.errors.append('the two oracles disagree on %r' % (M.tolist(),))
        reach = [(s, t) for s in range(n) for t in range(n) if s != t and Db[s][t] is not None]
        nontriv = any(Db[s][t] >= 2 for s, t in reach)
        ctx.count('connected' if len(reach) == n * n - n else 'disconnected')
        if any(not A[v].any() and not A[:, v].any() for v in range(n)):
            ctx.count('has_isolated_node')
        ties = sum(1 for x in np.asarray(BCw if not binary else BCb) if x.denominator != 1)
        if ties:
            ctx.count('has_fractional_bc(ties)')

        # ---- binary routines on the 0/1 pattern
        case = {'fn': 'betweenness_bin', 'G': A.tolist()}
        ctx.case(case, nontrivial=nontriv)
        bc = self.impl(bct.betweenness_bin, A, 'betweenness_bin', case)
        if bc is not None:
            ctx.check(close_vec(BCb, bc), 'betweenness_bin:value',
                      'node betweenness differs from the enumeration of all shortest paths: got %s want %s' % (np.asarray(bc).tolist(), [str(x) for x in BCb]), case)
            want = sum(Db[s][t] - 1 for s, t in reach)
            ctx.check(abs(float(np.sum(bc)) - want) <= TOL * max(1, want), 'betweenness_bin:sum_identity',
                      'sum of node values %r is not sum(distance-1)=%d over reachable ordered pairs' % (float(np.sum(bc)), want), case)
        self.lines.append('bc_bin ' + enc_mat(A.tolist())); self.pend.append(('bc', 'betweenness_bin', case, bc))

        case = {'fn': 'edge_betweenness_bin', 'G': A.tolist()}
        ctx.case(case, nontrivial=nontriv)
        r = self.impl(bct.edge_betweenness_bin, A, 'edge_betweenness_bin', case)
        if r is not None:
            ebc, bc2 = r
            ctx.check(close_mat(EBCb, ebc), 'edge_betweenness_bin:ebc',
                      'connection betweenness differs from the enumeration of all shortest paths: got %s want %s' % (np.asarray(ebc).tolist(), [[str(x) for x in row] for row in EBCb]), case)
            ctx.check(close_vec(BCb, bc2), 'edge_betweenness_bin:bc',
                      'node vector differs from the enumeration: got %s want %s' % (np.asarray(bc2).tolist(), [str(x) for x in BCb]), case)
            if bc is not None:
                ctx.check(np.allclose(bc2, bc, rtol=TOL, atol=TOL), 'edge_betweenness_bin:node_vector',
                          'node vector %s differs from betweenness_bin %s' % (np.asarray(bc2).tolist(), np.asarray(bc).tolist()), case)
            want = sum(Db[s][t] for s, t in reach)
            ctx.check(abs(float(np.sum(ebc)) - want) <= TOL * max(1, want), 'edge_betweenness_bin:sum_identity',
                      'sum of connection values %r is not sum(distance)=%d over reachable ordered pairs' % (float(np.sum(ebc)), want), case)
            ctx.check(bool(np.all((np.asarray(ebc) == 0) | (A != 0))), 'edge_betweenness_bin:support',
                      'a non-connection has a nonzero value', case)
        self.lines.append('ebc_bin ' + enc_mat(A.tolist())); self.pend.append(('ebc', 'edge_betweenness_bin', case, r))
        bin_bc, bin_ebc = bc, r

        # ---- weighted routines on the length matrix (and, if that has other lengths, on the pattern as well)
        for M, (BCo, EBCo), tag in ([(L, (BCw, EBCw), 'len')] + ([] if binary else [(A, (BCb, EBCb), 'pattern')])):
            sp = scale_pow if tag == 'len' else 0
            case = {'fn': 'betweenness_wei', 'G': M.tolist(), 'scale_pow2': sp}
            ctx.case(case, nontrivial=nontriv)
            bcw = self.impl(bct.betweenness_wei, M, 'betweenness_wei', case, sp)
            if bcw is not None:
                ctx.check(close_vec(BCo, bcw), 'betweenness_wei:value',
                          'node betweenness differs from the enumeration of all shortest paths: got %s want %s' % (np.asarray(bcw).tolist(), [str(x) for x in BCo]), case)
            case2 = {'fn': 'edge_betweenness_wei', 'G': M.tolist(), 'scale_pow2': sp}
            ctx.case(case2, nontrivial=nontriv)
            r = self.impl(bct.edge_betweenness_wei, M, 'edge_betweenness_wei', case2, sp)
            if r is not None:
                ebc, bc2 = r
                ctx.check(close_mat(EBCo, ebc), 'edge_betweenness_wei:ebc',
                          'connection betweenness differs from the enumeration of all shortest paths: got %s want %s' % (np.asarray(ebc).tolist(), [[str(x) for x in row] for row in EBCo]), case2)
                ctx.check(close_vec(BCo, bc2), 'edge_betweenness_wei:bc',
                          'node vector differs from the enumeration: got %s want %s' % (np.asarray(bc2).tolist(), [str(x) for x in BCo]), case2)
                if bcw is not None:
                    ctx.check(np.allclose(bc2, bcw, rtol=TOL, atol=TOL), 'edge_betweenness_wei:node_vector',
                              'node vector %s differs from betweenness_wei %s' % (np.asarray(bc2).tolist(), np.asarray(bcw).tolist()), case2)
                if tag == 'pattern' or binary:
                    # C08_wei_eq_bin_on_binary: on a 0/1 matrix the weighted routines return what the binary routines return
                    if bin_ebc is not None:
                        ctx.check(np.allclose(ebc, bin_ebc[0], rtol=TOL, atol=TOL) and np.allclose(bc2, bin_ebc[1], rtol=TOL, atol=TOL),
                                  'edge_betweenness_wei:eq_bin_on_binary',
                                  '0/1 matrix: edge_betweenness_wei %s differs from edge_betweenness_bin %s' % (tolist(r), tolist(bin_ebc)), case2)
                    if bin_bc is not None and bcw is not None:
                        ctx.check(np.allclose(bcw, bin_bc, rtol=TOL, atol=TOL), 'betweenness_wei:eq_bin_on_binary',
                                  '0/1 matrix: betweenness_wei %s differs from betweenness_bin %s' % (np.asarray(bcw).tolist(), np.asarray(bin_bc).tolist()), case)
                    want = sum(Db[s][t] for s, t in reach)
                    ctx.check(abs(float(np.sum(ebc)) - want) <= TOL * max(1, want), 'edge_betweenness_wei:sum_identity',
                              'binary graph: sum of connection values is not sum(distance) over reachable ordered pairs', case2)
                    want = sum(Db[s][t] - 1 for s, t in reach)
                    if bcw is not None:
                        ctx.check(abs(float(np.sum(bcw)) - want) <= TOL * max(1, want), 'betweenness_wei:sum_identity',
                                  'binary graph: sum of node values is not sum(distance-1) over reachable ordered pairs', case)
            if tag == 'len':
                self.lines.append('bc_wei ' + enc_mat(M.tolist())); self.pend.append(('bc', 'betweenness_wei', case, bcw))
                self.lines.append('ebc_wei ' + enc_mat(M.tolist())); self.pend.append(('ebc', 'edge_betweenness_wei', case2, r))

        # ---- the Coq SPECIFICATION itself (enumeration of node lists), tiny graphs only
        if spec and n <= 4:
            self.lines.append('spec ' + enc_mat(L.tolist()))
            self.pend.append(('spec', 'spec', {'fn': 'BC_spec/EBC_spec', 'G': L.tolist()}, (BCw, EBCw, Dw)))
        # ---- model search phase against the oracle's distances (white-box sanity of the model's queue layout)
        if ctx.rng.random() < 0.15:
            u = ctx.rng.randrange(n)
            self.lines.append('search 1 ' + enc_mat(L.tolist()) + ' %d' % u)
            self.pend.append(('search', 'search_w', {'fn': 'search(weighted)', 'G': L.tolist(), 'u': u}, Dw[u]))
            self.lines.append('search 0 ' + enc_mat(A.tolist()) + ' %d' % u)
            self.pend.append(('search', 'search_b', {'fn': 'search(binary)', 'G': A.tolist(), 'u': u}, Db[u]))

    def correspond(self):
        ctx = self.ctx
        res = run_model(ID, self.lines, timeout=1500)
        ctx.model_cases = len(self.lines)
        for (kind, fn, case, got), m in zip(self.pend, res):
            if is_err(m):
                ctx.mismatch('model-error', m['error'], case)
                continue
            if kind == 'bc':
                if m is None:
                    ctx.mismatch(fn, 'model reports an error (out of fuel / queue slice length) where the implementation returned', case, None, got)
                    continue
                mv = [dec_q(x) for x in m]
                if got is None:
                    continue        # implementation raised: already reported by the oracle
                if not close_vec(mv, got):
                    ctx.mismatch(fn, 'model and implementation differ', case, [str(x) for x in mv], np.asarray(got).tolist())
                else:
                    ctx.count('corr_ok:' + fn)
            elif kind == 'ebc':
                if m is None:
                    if got is not None:
                        ctx.mismatch(fn, 'model reports an error (out of fuel / queue slice length) where the implementation returned', case, None, tolist(got))
                    continue
                me, mv = dec_deep(m[0], dec_q), dec_deep(m[1], dec_q)
                if got is None:
                    ctx.mismatch(fn, 'implementation raised where the model returns', case, [str(x) for x in mv], None)
                    continue
                if not (close_mat(me, got[0]) and close_vec(mv, got[1])):
                    ctx.mismatch(fn, 'model and implementation differ', case, [[str(x) for x in r] for r in me], tolist(got))
                else:
                    ctx.count('corr_ok:' + fn)
            elif kind == 'spec':
                BCo, EBCo, Do = got
                se, sb, sd = dec_deep(m[0], dec_q), dec_deep(m[1], dec_q), dec_deep(m[2], dec_z)
                n = len(BCo)
                ok = (sb == BCo and se == EBCo and
                      all(sd[i][j] == Do[i][j] for i in range(n) for j in range(n)))
                if not ok:
                    ctx.mismatch('spec', 'the Coq specification (BC_spec/EBC_spec/dist_spec by enumeration of node lists) differs from the harness oracle', case,
                                 [[str(x) for x in sb]], [[str(x) for x in BCo]])
                else:
                    ctx.count('spec_ok')
            elif kind == 'search':
                d = got
                n = len(d)
                if m is None:
                    ctx.mismatch(fn, 'model search phase failed', case)
                    continue
                q, qf, npc, dm, P = m
                dm = [None if x is None else dec_z(x) for x in dm]
                un = [v for v in range(n) if d[v] is None]
                ok = sorted(q) == list(range(n)) and sorted(q[:len(un)]) == un and q[n - 1] == case['u']
                if fn == 'search_w':
                    ok = ok and dm == d and all(d[q[i]] >= d[q[i + 1]] for i in range(len(un), n - 1))
                else:
                    ok = ok and [x is None for x in dm] == [x is None for x in d] and \
                        all(d[q[i]] >= d[q[i + 1]] for i in range(len(un), n - 1))
                if not ok:
                    ctx.mismatch(fn, 'model queue / distances inconsistent with the oracle distances', case, [q, qf, dm], d)
                else:
                    ctx.count('search_ok')


def run(ctx):
    import bct
    R = Runner(ctx, bct)
    r = ctx.nprng
    # corpus: small graphs that exercised past defects (unreachable nodes in edge_betweenness_bin; ties)
    for A in ([[0, 1, 0], [0, 0, 0], [0, 0, 0]], [[0, 1], [0, 0]], [[0]],
              [[0, 1, 1, 0], [0, 0, 0, 1], [0, 0, 0, 1], [0, 0, 0, 0]],
              [[0, 1, 2, 0], [1, 0, 1, 3], [2, 1, 0, 2], [0, 3, 2, 0]],
              [[0, 0, 0], [0, 0, 0], [0, 0, 0]]):
        R.graph(np.array(A), 'corpus', spec=True)
    # exhaustive tiers
    for n in (1, 2, 3):
        for A in all_digraphs(n):
            R.graph(A, 'all_digraphs_n%d' % n, spec=True)
    for A in all_graphs(4):
        R.graph(A, 'all_graphs_n4', spec=True)
    if ctx.thorough:
        for A in all_digraphs(4):
            R.graph(A, 'all_digraphs_n4', spec=(ctx.rng.random() < 0.1))
        for A in all_graphs(5):
            R.graph(A, 'all_graphs_n5')
    else:
        cells = [(i, j) for i in range(4) for j in range(4) if i != j]
        for _ in range(250):
            A = np.zeros((4, 4), dtype=int)
            for (i, j) in cells:
                if r.rand() < 0.45:
                    A[i, j] = 1
            R.graph(A, 'slice_digraphs_n4', spec=(ctx.rng.random() < 0.2))
        for _ in range(150):
            R.graph(und((r.rand(5, 5) < 0.5).astype(int)), 'slice_graphs_n5')
    # weighted tiny graphs against the Coq specification
    for _ in range(ctx.scale(100, 800)):
        n = int(r.randint(2, 5))
        R.graph(g_random(r, n, bool(r.rand() < 0.5), [1, 2, 3], float(r.choice([0.4, 0.7, 1.0]))), 'tiny_weighted', spec=True)
    # random / structured, lengths with many ties
    for _ in range(ctx.scale(1200, 8000)):
        fam, L = random_graph(ctx)
        R.graph(L, fam)
    # near ties (routes that differ by ~1e-6 .. 1e-9 relative are NOT equal) and tiny absolute scales; dyadic, hence exact
    for k in (20, 30):
        for e in (1, -1, 0):
            R.graph(near_tie_square(e, k), 'neartie_square', scale_pow=-k)
    R.graph(np.array([[0, 1, 1, 0], [1, 0, 0, 1], [1, 0, 0, 2], [0, 1, 2, 0]]), 'tinyscale_square', scale_pow=-30)
    for _ in range(ctx.scale(300, 2000)):
        fam, L, sp = near_tie_graph(ctx)
        R.graph(L, fam, scale_pow=sp)
    R.correspond()
