"""C11 — constrained rewiring honours connectivity, lattice cost and forbidden cells."""
import os, json
import numpy as np
from common import *
from rewire_common import *

ID = 'C11'
COQ_FILES = ['Properties/C11.v']
THEOREMS = ['C11_und_test_sound', 'C11_dir_test_sound', 'C11_run_connected', 'C11_und_precondition',
            'C11_und_precondition_complete', 'C11_und_rejects', 'C11_und_accepts', 'C11_und_search_fuel', 'C11_dir_search_fuel',
            'C11_lattice_cost', 'C11_ring_dist_sym', 'C11_lattice_cost_und_asym_refuted', 'C11_mask', 'C11_mask_asym_refuted']
RULE = ('connected / strongly connected inputs n=4..9 with few redundant edges (tree+chords, ring+chords, bridges, ER, dense), '
        'binary, integer, signed and dyadic weights in float64/float32/int64/bool arrays, about one case in eight with n=10..20, itr in {1,2,5}; latticisers with the default D, random symmetric D and (directed, and as a '
        'separate stream undirected) asymmetric D; randomize_graph_partial_und with symmetric masks and a separate asymmetric-mask '
        'stream; malformed stream (disconnected / asymmetric input to the undirected _connected routines). Every run is recorded '
        'and replayed by the extracted model (same engine as C01, including the connectivity tests); non-trivial = at least one '
        'accepted swap or a rejection clause exercised; distinct by hash of the case. STRESS FAMILIES (oracle only, no model replay): the four `_connected` routines, itr = 1, on long sparse '
        'networks of n = 160..260 nodes where about every second candidate swap would disconnect and the connectivity searches run for 50+ rounds - undirected ring, ring / chain / '
        'deep tree + 2-4 chords; directed one-way cycle + n/8 or 3-5 chords, + skips i->i+2, + short back connections, two-way ring / deep tree + chords - with heavy (integers 1e4..1e6), '
        'tiny (1e-6..1e-4), mixed or unit weights: connectivity (depth-first search) after EVERY accepted swap and of the output, degrees per node and the multiset of weights kept, finite / '
        'symmetric output; two runs per routine in a quick run (one of them a ring / chain / cycle with heavy weights), every family x three weight kinds in the thorough tier = the '
        'escalated pass on a changed tree (run FIRST there)')
ASSUMES = ['integer or small dyadic weights and D (k/8, k/4): products and comparisons of the lattice condition are exact in binary64; '
           'the model is over Z and receives them multiplied by a power of two (the lattice condition is homogeneous in R and in D, '
           'the engine otherwise only moves weights and tests them against 0)',
           'the connectivity tests are modelled on the support (nonzero pattern); exact for every sign: P is nonzero only where PN is '
           'zero (`P *= logical_not(PN)` precedes `PN += P`), nothing cancels; signed weights are generated for all routines',
           'the model tests the support, the code tests float values: they agree as long as the frontier arrays hold 0/1 or single weights (as the code does: np.any of the rows); '
           'a search that multiplied weights along the way would leave binary64 on the stress families (n = 160..260, weights 1e4..1e6 / 1e-6..1e-4), which are judged by the oracle alone']
TRUSTED = ['recording RandomState subclass and add-only hook lines (as for C01)']


def cost(D, R):
    return float(np.sum(D * R))


def ring(n):
    return np.array([[min((i - j) % n, (j - i) % n) for j in range(n)] for i in range(n)], dtype=float)


def conn_case(ctx, fn, lines, pend, pinned=None):
    r = ctx.nprng
    und = fn in UND
    if pinned:
        A, D, _ = case_arrays(pinned); itr = pinned['itr']; seed = pinned['seed']
        fam = 'pinned'
    else:
        A, fam = gen_graph(r, und, connected=fn in CONN)
        n = len(A)
        itr = int(r.choice([1, 2, 5])) if n < 10 else int(r.choice([1, 2])); seed = int(r.randint(1, 2 ** 31 - 1))
        D = None
        if fn in LATT:
            ch = r.rand()
            if ch >= 0.35:
                D, dk = gen_D(r, n, ch < 0.7 or und)
                ctx.count('D:' + dk)
    res = run_impl(fn, A, itr, seed, D=D)
    case = {'fn': fn, 'A': jmat(A), 'dtype': str(A.dtype), 'itr': itr, 'seed': seed, 'D': jmat(D)}
    ctx.case(case, nontrivial=len(res['events']) > 0)
    ctx.count('%s:%s' % (fn, fam)); ctx.count('accepted_swaps', len(res['events'])); ctx.count('n=%d' % len(A)); ctx.count('dtype:' + str(A.dtype))
    if res.get('error') == 'timeout':
        ctx.count('timeout'); return
    if res['error']:
        ctx.fail(fn + ':raises', 'raised on an input in the documented domain: ' + res['error'], case); return
    A = np.asarray(A); Af = A.astype(float)
    chk = connected_und if und else strongly_connected
    if fn in CONN:
        ctx.check(chk(res['out']), fn + ':connected', 'connected input, disconnected output', case)
        for t, e in enumerate(res['events']):
            if not ctx.check(chk(e['R']), fn + ':connected-step', 'network disconnected after accepted swap %d' % t, case):
                break
    if fn in LATT:
        Dm = ring(len(A)) if D is None else D
        p = res['perm']
        c0 = cost(Dm, Af[np.ix_(p, p)]); c1 = cost(Dm, np.asarray(res['rp'], dtype=float))
        sym_D = np.array_equal(Dm, Dm.T)
        key = fn + (':cost' if (sym_D or not und) else ':cost-asymmetric-D')
        ctx.check(c1 <= c0, key, 'sum(D*R) rose from %g to %g' % (c0, c1), case)
        prev = c0
        for t, e in enumerate(res['events']):
            ct = cost(Dm, np.asarray(e['R'], dtype=float))
            if not ctx.check(ct <= prev, key + ('-step' if key.endswith(':cost') else ''), 'accepted swap %d raised sum(D*R) from %g to %g' % (t, prev, ct), case):
                break
            prev = ct
    lines.append(model_line(fn, A, itr, res['draws'], D=D)); pend.append((fn, case, res))
    # the input checks: the implementation did not raise, so the model's precheck must answer true
    lines.append(precheck_line(fn, A)); pend.append(('precheck', case, True))


def asym_D_case(ctx, fn, lines, pend):
    """undirected latticisers with an ASYMMETRIC caller-supplied D (Properties/C11.v: ..._und_asym_refuted)"""
    r = ctx.nprng
    A, fam = gen_graph(r, True, connected=fn in CONN)
    n = len(A)
    D, dk = gen_D(r, n, False)
    itr = int(r.choice([1, 2])); seed = int(r.randint(1, 2 ** 31 - 1))
    res = run_impl(fn, A, itr, seed, D=D)
    case = {'fn': fn, 'A': jmat(A), 'dtype': str(A.dtype), 'itr': itr, 'seed': seed, 'D': jmat(D)}
    ctx.case(case, nontrivial=len(res['events']) > 0); ctx.count(fn + ':asymD')
    if res['error']:
        return
    p = res['perm']
    c0 = cost(D, A.astype(float)[np.ix_(p, p)]); c1 = cost(D, np.asarray(res['rp'], dtype=float))
    ctx.check(c1 <= c0, fn + ':cost-asymmetric-D', 'sum(D*R) rose from %g to %g under an asymmetric D' % (c0, c1), case)
    lines.append(model_line(fn, A, itr, res['draws'], D=D)); pend.append((fn, case, res))


def mask_case(ctx, lines, pend, asym=False, pinned=None):
    r = ctx.nprng
    fn = 'randomize_graph_partial_und'
    if pinned:
        A, _, B = case_arrays(pinned); ms = pinned['itr']; seed = pinned['seed']
        fam = 'pinned'
    else:
        A, fam = gen_graph(r, True)
        n = len(A)
        if asym:
            B = (r.rand(n, n) < 0.3).astype(float); np.fill_diagonal(B, 0)
        else:
            B = np.triu((r.rand(n, n) < float(r.choice([0.1, 0.3, 0.5]))).astype(float), 1)
            if r.rand() < 0.5:   # "nonzero" is what counts: signed / fractional mask values (probabilities, half marks)
                B = B * r.choice([-2, -1, -0.5, 0.125, 0.25, 0.5, 0.75, 2], size=(n, n)); ctx.count(fn + ':signed-or-fractional-mask')
            B = B + B.T
        ms = int(r.choice([1, 2, 4])); seed = int(r.randint(1, 2 ** 31 - 1))
    res = run_impl(fn, A, ms, seed, B=B, t=1.0)
    case = {'fn': fn, 'A': jmat(A), 'dtype': str(A.dtype), 'B': jmat(B), 'itr': ms, 'seed': seed}
    ctx.case(case, nontrivial=len(res['events']) > 0); ctx.count(fn + (':asym-mask' if asym else ':sym-mask'))
    if res['error']:
        ctx.count('partial_und:' + res['error'][:20]); return
    symB = np.array_equal(B, B.T)
    key = fn + (':mask' if symB else ':asymmetric-mask')
    new = (res['out'] != 0) & (A == 0)
    ctx.check(not np.any(new & (B != 0)), key, 'connection created where the mask is nonzero', case)
    for t, e in enumerate(res['events']):
        if not ctx.check(not np.any((e['R'] != 0) & (A == 0) & (B != 0)), key + ('-step' if symB else ''), 'after swap %d a masked cell holds a connection' % t, case):
            break
    lines.append(model_line(fn, A, ms, res['draws'], B=B)); pend.append((fn, case, res))


def reject_case(ctx, fn, lines, pend):
    """asymmetric or disconnected input to the undirected _connected routines must raise BCTParamError, valid input must
    not; in both directions the answer is compared with the model's `precheck` (Model/Rewire.v), on the same matrix"""
    import bct
    r = ctx.nprng
    kinds = ['disconnected', 'isolated-node', 'asymmetric-cell', 'asymmetric-weight', 'valid', 'valid',
             'small-disconnected', 'small-asymmetric', 'small-valid']
    # every kind at least once per routine and run (round-robin first, random afterwards)
    seen = ctx.__dict__.setdefault('_reject_rr', {})
    k = seen.get(fn, 0); seen[fn] = k + 1
    kind = kinds[k] if k < len(kinds) else str(r.choice(kinds))
    if kind.startswith('small-'):                  # n = 2, 3: too small for any swap, the input checks still apply
        small = {'small-disconnected': [[[0, 0], [0, 0]], [[0, 1, 0], [1, 0, 0], [0, 0, 0]], [[0, 0, 0], [0, 0, 0], [0, 0, 0]],
                                        [[0, 0, 2], [0, 0, 0], [2, 0, 0]]],
                 'small-asymmetric': [[[0, 1], [0, 0]], [[0, 1, 0], [0, 0, 1], [0, 0, 0]], [[0, 1, 1], [1, 0, 0], [0, 0, 0]],
                                      [[0, 1, 1], [1, 0, 1], [1, 2, 0]]],
                 'small-valid': [[[0, 1], [1, 0]], [[0, 1, 0], [1, 0, 1], [0, 1, 0]], [[0, 1, 1], [1, 0, 1], [1, 1, 0]],
                                 [[0, 3, 0], [3, 0, 0.5], [0, 0.5, 0]]]}[kind]
        A = np.array(small[int(r.randint(len(small)))], dtype=float); n = len(A)
        kind = 'valid-small' if kind == 'small-valid' else kind
    elif kind == 'disconnected':                     # two blocks, symmetric
        n = int(r.randint(4, 9)); h = n // 2
        A = np.zeros((n, n)); A[:h, :h] = r.rand(h, h) < 0.8; A[h:, h:] = r.rand(n - h, n - h) < 0.8
        A = np.triu(A, 1); A = A + A.T
    else:
        A, _ = gen_graph(r, True, connected=True)
        A = A.astype(float); n = len(A)
        if kind == 'isolated-node':                # connected graph + one node without any connection
            A2 = np.zeros((n + 1, n + 1)); z = int(r.randint(n + 1)); keep = [x for x in range(n + 1) if x != z]
            A2[np.ix_(keep, keep)] = A; A = A2
        elif kind == 'asymmetric-cell':            # one-sided connection
            x, y = r.choice(n, 2, replace=False)
            A[x, y] = 0 if A[x, y] != 0 else 1
        elif kind == 'asymmetric-weight':          # same support, two different weights on one connection
            xs, ys = np.where(A != 0); t = int(r.randint(len(xs)))
            A[xs[t], ys[t]] = A[xs[t], ys[t]] * 2 + (0.125 if r.rand() < 0.5 else 0)
    case = {'fn': fn, 'A': jmat(A), 'dtype': 'float64', 'itr': 0, 'seed': 1, 'D': None, 'kind': kind}
    ctx.case(case, nontrivial=True); ctx.count(fn + ':precheck-' + kind)
    try:
        call(getattr(bct, fn), A.copy(), 0, seed=1, _t=3.0)      # itr = 0: a valid input is returned at once
        raised = False
    except bct.utils.BCTParamError:
        raised = True
    except Exception as e:
        ctx.fail(fn + ':rejects', kind + ' input raised %s instead of BCTParamError' % type(e).__name__, case); return
    if kind.startswith('valid'):
        ctx.check(not raised, fn + ':accepts', 'connected symmetric input rejected with BCTParamError', case)
    else:
        ctx.check(raised, fn + ':rejects', kind + ' input accepted (BCTParamError expected)', case)
    lines.append(precheck_line(fn, A)); pend.append(('precheck', case, not raised))


def stress_rng(ctx, salt=1):
    """a random state of its own for the stress families (derived from VERIF_SEED like ctx.nprng; the streams of the other
    generators stay what they were)"""
    return np.random.RandomState((ctx.seed * 7919 + int(ctx.pid[1:]) + 1000003 * salt + (500009 if ctx.escalated else 0)) % (2 ** 31))


def stress_case(ctx, r, fn, n, fam, wkind, itr=1):
    """one `_connected` run on a long sparse network (n = 160..260) with heavy / tiny / mixed weights; oracle only:
    connectivity of the network after EVERY accepted swap and of the output (depth-first search), degrees per node and the
    multiset of weights preserved, finite symmetric (undirected) output.  Runs on the arrays as built (the per-swap hook is
    consumed while the routine runs; the representation / call-sequence layer is switched off for the call)."""
    und = fn in UND
    A, edges = stress_graph(r, und, n, fam, wkind)
    seed = int(r.randint(1, 2 ** 31 - 1))
    case = {'fn': fn, 'family': fam, 'weights': wkind, 'n': n, 'itr': itr, 'seed': seed, 'D': None, 'edges': edges,
            'construction': 'A = zeros((n,n)); for i, j, w in edges: A[i,j] = w' + ('; A[j,i] = w' if und else '')}
    chk = lambda M: connected_fast(M, und)
    if not chk(A) or not two_disjoint_edges_sparse(edges):
        ctx.errors.append('stress generator produced a network outside the domain: %r' % ({k: v for k, v in case.items() if k != 'edges'},))
        return
    st = {'t': 0, 'bad': None}

    def on_swap(kw):
        st['t'] += 1
        if st['bad'] is None and not chk(kw['R']):
            st['bad'] = (st['t'], [int(x) for x in kw['abcd']])
    with no_variants(), np.errstate(all='ignore'):
        res = run_impl_watch(fn, A, itr, seed, on_swap)
    ctx.case(case, nontrivial=st['t'] > 0)
    ctx.count('stress:%s:%s' % (fn, fam)); ctx.count('stress:weights:' + wkind); ctx.count('stress:accepted_swaps', st['t']); ctx.count('stress:n=%d' % n)
    if res['error'] == 'timeout':
        ctx.count('timeout'); return
    if res['error']:
        ctx.fail(fn + ':raises', 'raised on an input in the documented domain: ' + res['error'], case); return
    if st['bad'] is not None:
        ctx.fail(fn + ':connected-step', 'network disconnected after accepted swap %d (a, b, c, d = %s) of %d' % (st['bad'][0], st['bad'][1], st['t']), case)
    out = np.asarray(res['out'], dtype=float)
    ctx.check(chk(out), fn + ':connected', 'connected input, disconnected output (%d accepted swaps)' % st['t'], case)
    ok = bool(np.isfinite(out).all()) and (not und or np.array_equal(out, out.T))
    ok = ok and np.array_equal((out != 0).sum(axis=0), (A != 0).sum(axis=0)) and np.array_equal((out != 0).sum(axis=1), (A != 0).sum(axis=1))
    ok = ok and np.array_equal(np.sort(out[out != 0]), np.sort(A[A != 0]))
    ctx.check(ok, fn + ':degrees-and-weights-kept', 'the output is not a finite rewiring of the input: degrees per node / multiset of weights / symmetry changed', case)


def two_disjoint_edges_sparse(edges):
    """domain filter (two vertex-disjoint connections) on an edge list"""
    for x, y, _ in edges[:8]:
        for a, b, _ in edges:
            if len({x, y, a, b}) == 4:
                return True
    return False


def stress_families(ctx):
    """quick: one run per `_connected` routine (n = 160..200); thorough (= the escalated pass on a changed tree, where this
    block runs first): every family x weight kind for each routine, n up to 260"""
    r = stress_rng(ctx)
    fns = ['randmio_und_connected', 'latmio_und_connected', 'randmio_dir_connected', 'latmio_dir_connected']
    if not ctx.thorough:
        for fn in fns:
            fams = STRESS_FAMILIES_UND if fn in UND else STRESS_FAMILIES_DIR
            # a ring / chain with heavy weights (searches of 50+ rounds through weights ~1e5), and one more from the whole family
            stress_case(ctx, r, fn, int(r.randint(160, 201)), str(fams[int(r.randint(3))]), 'heavy')
            stress_case(ctx, r, fn, int(r.randint(160, 231)), str(fams[int(r.randint(len(fams)))]), str(STRESS_WEIGHTS[int(r.randint(len(STRESS_WEIGHTS)))]))
        return
    for fn in fns:
        fams = STRESS_FAMILIES_UND if fn in UND else STRESS_FAMILIES_DIR
        for i, fam in enumerate(fams):
            for wk in ('heavy', 'mixed', 'tiny' if i % 2 else 'bin'):
                stress_case(ctx, r, fn, int(r.randint(160, 261)), fam, wk)


def stress_only(ctx, bct):
    """development aid: the stress families alone"""
    stress_families(ctx)


def run(ctx):
    lines, pend = [], []
    # stress families (oracle only): FIRST in the escalated pass of a changed tree (its time cap must not cut them off), LAST otherwise
    if ctx.escalated:
        stress_families(ctx)
    corpus = os.path.join(VERIF, 'corpus', 'C11.json')
    if os.path.exists(corpus):
        for c in json.load(open(corpus)):
            if c['fn'] == 'randomize_graph_partial_und':
                mask_case(ctx, lines, pend, pinned=c)
            else:
                conn_case(ctx, c['fn'], lines, pend, pinned=c)
    per = ctx.scale(30, 300)
    for fn in ['randmio_und_connected', 'randmio_dir_connected', 'latmio_und_connected', 'latmio_dir_connected']:
        for _ in range(per):
            conn_case(ctx, fn, lines, pend)
    for fn in ['latmio_und', 'latmio_dir']:
        for _ in range(per):
            conn_case(ctx, fn, lines, pend)
    for fn in ['latmio_und', 'latmio_und_connected']:
        for _ in range(per // 3):
            asym_D_case(ctx, fn, lines, pend)
    for _ in range(per):
        mask_case(ctx, lines, pend)
    for _ in range(per // 3):
        mask_case(ctx, lines, pend, asym=True)
    for fn in ['randmio_und_connected', 'latmio_und_connected']:
        for _ in range(per // 3):
            reject_case(ctx, fn, lines, pend)
    if not ctx.escalated:
        stress_families(ctx)
    res = run_model(ID, lines)
    ctx.model_cases = len(lines)
    for (fn, case, r), m in zip(pend, res):
        if is_err(m):
            ctx.mismatch(fn, 'model error: ' + m['error'], case); continue
        if fn == 'precheck':
            if bool(m) != bool(r):
                ctx.mismatch(case['fn'] + ':precheck', 'model precheck = %s, implementation %s BCTParamError' % (m, 'does not raise' if r else 'raises'), case)
            continue
        compare_run(ctx, fn, case, r, dec_result(m))
